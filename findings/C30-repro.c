#include <mpi.h>
#include <stdio.h>
#include <string.h>
static void show(const char* what, const int* got, int n, const char* expected)
{
  printf("%-58s got {", what);
  for (int i = 0; i < n; i++)
    printf("%s%d", i ? "," : "", got[i]);
  printf("}  MPI: %s\n", expected);
}
int main(int argc, char** argv)
{
  MPI_Init(&argc, &argv);
  int src[12], out[12], pos;
  for (int i = 0; i < 12; i++)
    src[i] = 10 + i;
  MPI_Datatype t, v;
  MPI_Aint lb, ext;

  /* 1. indexed block with decreasing displacements, 2 elements */
  int disp[2] = {1, 0};
  MPI_Type_create_indexed_block(2, 1, disp, MPI_INT, &t);
  MPI_Type_commit(&t);
  memset(out, 0, sizeof out); pos = 0;
  MPI_Pack(src, 2, t, out, sizeof out, &pos, MPI_COMM_WORLD);
  show("1. Pack(2 x indexed_block(1,{1,0}) of MPI_INT)", out, 4, "{11,10,13,12}");
  MPI_Type_free(&t);

  /* 2. contiguous(1) of a strided vector, 2 elements */
  MPI_Type_vector(2, 1, 2, MPI_INT, &v);
  MPI_Type_contiguous(1, v, &t);
  MPI_Type_commit(&t);
  memset(out, 0, sizeof out); pos = 0;
  MPI_Pack(src, 2, t, out, sizeof out, &pos, MPI_COMM_WORLD);
  show("2. Pack(2 x contiguous(1, vector(2,1,2,MPI_INT)))", out, 4, "{10,12,13,15}");
  MPI_Type_free(&t); MPI_Type_free(&v);

  /* 3. resized with a non-zero lower bound, 2 elements */
  MPI_Type_create_resized(MPI_INT, 4, 8, &t);
  MPI_Type_commit(&t);
  memset(out, 0, sizeof out); pos = 0;
  MPI_Pack(src, 2, t, out, sizeof out, &pos, MPI_COMM_WORLD);
  show("3. Pack(2 x resized(MPI_INT, lb=4, extent=8))", out, 2, "{10,12}");
  MPI_Type_free(&t);

  /* 4. extent of a sub-array */
  int sizes[2] = {1, 2}, subs[2] = {1, 1}, starts[2] = {0, 0};
  MPI_Type_create_subarray(2, sizes, subs, starts, MPI_ORDER_C, MPI_INT, &t);
  MPI_Type_get_extent(t, &lb, &ext);
  printf("4. subarray(sizes {1,2}, subsizes {1,1}) of MPI_INT: lb=%ld extent=%ld   MPI: lb=0 extent=8\n", (long)lb, (long)ext);
  MPI_Type_free(&t);
  int s1 = 2, u1 = 1, a1 = 1;
  MPI_Type_create_subarray(1, &s1, &u1, &a1, MPI_ORDER_C, MPI_INT, &t);
  MPI_Type_get_extent(t, &lb, &ext);
  printf("   subarray(1-D, size 2, subsize 1, start 1) of MPI_INT: lb=%ld extent=%ld   MPI: lb=0 extent=8\n", (long)lb, (long)ext);
  MPI_Type_free(&t);

  /* 5. lower bound of the old type is ignored by indexed */
  int one = 1, d1 = 1, d0 = 0;
  MPI_Type_indexed(1, &one, &d1, MPI_INT, &v);      /* one int at +4: lb=4 ub=8 */
  MPI_Type_indexed(1, &one, &d0, v, &t);            /* one such element at 0: still lb=4 ub=8 */
  MPI_Type_get_extent(t, &lb, &ext);
  printf("5. indexed(1@0) of indexed(1@1) of MPI_INT: lb=%ld ub=%ld   MPI: lb=4 ub=8\n", (long)lb, (long)(lb + ext));
  MPI_Type_free(&t); MPI_Type_free(&v);

  /* 6. zero-length blocks count for the bounds */
  int bl2[2] = {1, 0}, dd[2] = {1, 0};
  MPI_Type_indexed(2, bl2, dd, MPI_INT, &t);
  MPI_Type_get_extent(t, &lb, &ext);
  printf("6. indexed(blocklengths {1,0}, displacements {1,0}) of MPI_INT: lb=%ld extent=%ld   MPI: lb=4 extent=4\n", (long)lb, (long)ext);
  MPI_Type_free(&t);

  if (argc > 1) { /* 7. a type of size 0 */
    MPI_Type_vector(0, 0, 0, MPI_INT, &t);
    MPI_Type_commit(&t);
    pos = 0;
    printf("7. Unpack(1 x vector(0,0,0)) ...\n"); fflush(stdout);
    MPI_Unpack(src, 0, &pos, out, 1, t, MPI_COMM_WORLD);
    printf("   survived\n");
  }
  MPI_Finalize();
  return 0;
}
