/* sim — interpreter for *timed* S4U programs (engine E4 of /verif/DESIGN.md).
 *
 * Runs the REAL simulator normally (Engine::run()) on a platform built through the C++ API and prints what every
 * actor observed.  One simulation per process (use --batch to fork one child per program from a single exec).
 *
 *   sim PROGRAM.json [--cfg=... passed to the Engine]        one program, output on stdout
 *   sim --batch FILE [--cfg=...]                             FILE = one JSON program per line; for each line i:
 *                                                            "#BEGIN i" <output + stderr of the child> "#END i <exit-status>"
 *
 * PROGRAM (JSON object; every key optional except "actors"):
 *   "cfg":     ["network/model:CM02", ...]     extra --cfg items (applied before the platform is created)
 *              defaults always applied first: network/model:CM02 network/TCP-gamma:0 network/crosstraffic:0
 *              network/latency-factor:1 network/bandwidth-factor:1 network/weight-S:0
 *   "prealloc": N                               malloc N bytes in 1 KiB chunks before creating the engine (heap shift, C01)
 *   "signals": true                             also log Exec/Comm/Io/Mess on_start/on_completion signals
 *   "hosts":   [{"name":"h0","speed":1073741824,"cores":1,"disks":[{"name":"d0","rbw":1048576,"wbw":1048576}]}]
 *   "links":   [{"name":"l0","bw":1048576,"lat":0.5}]
 *   "routes":  [["h0","h1",["l0"]], ...]        symmetrical
 *   "objects": {"m0":{"kind":"mutex","recursive":false}, "s0":{"kind":"sem","cap":1}, "c0":{"kind":"condvar"},
 *               "b0":{"kind":"barrier","n":2}}   (mailboxes and message queues are created by name on first use)
 *   "timers":  [1.0, 2.5]                       kernel timers set before run(); each logs  S timer <date>
 *   "actors":  [{"name":"a0","host":"h0","start":true,"daemon":false,"auto_restart":false,"kill_time":-1,
 *                "on_exit":2,"ops":[[op,args...],...]}]
 *              start:false = template only, instantiated by the op ["create","a0"].
 *
 * Every simulation runs under RLIMIT_CPU (8 s of CPU, env SIM_CPU_LIMIT): a spinning kernel ends with status 152.
 *
 * OUTPUT (stdout), one line per record, actors in pid order (per-actor buffers, never a shared stream):
 *   A <name> <pid> <seq> <event> <value> <clock %.17g>      record of an actor (seq from 0 per incarnation)
 *   S <seq> <event> <value> <clock %.17g>                   record written in maestro context (signals)
 *   END <clock>                                             Engine::run() returned
 * Every actor logs "start <restart_count>" first, one record per completed op (event = op name, value = result:
 * ok | timeout | cancel | hostfail | netfail | storagefail | <op specific>), on_exit callbacks log
 * "on_exit <k>:<failed>:<own|inh>" (inh = registered by a previous incarnation and inherited through auto-restart),
 * and "end -" when the op list is exhausted.  An actor killed inside an op logs nothing for that op.
 * Signals: time_advance <delta>, terminated <name>, deadlock, sim_end, timer <actor>:<date> (op timer / timer_in; the
 * program-level "timers" log timer <date>), and with "signals":true
 * sig_start/sig_completion <kind> (written to the buffer of the context that fired them).
 *
 * OPS — table driven (see optable below; `sim --ops` prints it). v = activity variable, S = activity set,
 * names are global to the program; variables/sets/actors slots are pre-created so actors never mutate shared maps.
 */
#include <simgrid/s4u.hpp>
#include <simgrid/Exception.hpp>
#include <simgrid/kernel/Timer.hpp>
#include "src/kernel/actor/ActorImpl.hpp"
#include <simgrid/simcall.hpp>
#include <iostream>
#include <nlohmann/json.hpp>
#include <cstdio>
#include <cstring>
#include <fstream>
#include <functional>
#include <map>
#include <mutex>
#include <sstream>
#include <string>
#include <vector>
#include <sys/resource.h>
#include <sys/wait.h>
#include <unistd.h>

namespace sg4 = simgrid::s4u;
using json    = nlohmann::json;

// ------------------------------------------------------------------------------------------------ logs
struct Rec {
  std::string ev, val;
  double clock;
};
struct Buf {
  std::string name;
  long pid;
  std::vector<Rec> recs;
};
static std::mutex g_mx;               // real mutex: protects only the insertion of new buffers
static std::map<long, Buf*> g_bufs;   // pid -> buffer (std::map: nodes are stable)
static Buf g_sig{"", -1, {}};         // maestro context

static Buf* my_buf()
{
  sg4::Actor* a = sg4::Actor::self();
  if (a == nullptr || sg4::Actor::is_maestro())
    return &g_sig;
  auto* b = a->get_data<Buf>();
  if (b == nullptr) {
    b = new Buf{a->get_name(), a->get_pid(), {}};
    a->set_data(b);
    std::lock_guard<std::mutex> l(g_mx);
    g_bufs[b->pid] = b;
  }
  return b;
}
static void rec(const std::string& ev, const std::string& val)
{
  my_buf()->recs.push_back({ev, val, sg4::Engine::get_clock()});
}
static std::string num(double d)
{
  char b[64];
  snprintf(b, sizeof b, "%.17g", d);
  return b;
}

// ------------------------------------------------------------------------------------------------ program state
struct Var {
  std::string kind; // exec comm mess io
  sg4::ExecPtr exec;
  sg4::CommPtr comm;
  sg4::MessPtr mess;
  sg4::IoPtr io;
  void* dst = nullptr;
  sg4::Activity* get() const
  {
    if (exec) return exec.get();
    if (comm) return comm.get();
    if (mess) return mess.get();
    if (io) return io.get();
    return nullptr;
  }
  void clear() { exec = nullptr; comm = nullptr; mess = nullptr; io = nullptr; }
};
struct ActorDef {
  std::string name, host;
  bool start = true, daemon = false, auto_restart = false;
  double kill_time = -1;
  int on_exit      = 0;
  json ops;
};
struct ActorSlot {
  ActorDef def;
  sg4::ActorPtr ptr; // last created incarnation
};
struct Ctx { // per running actor incarnation
  ActorDef* def;
  long pid;
  std::map<std::string, int> held; // mutex hold counts (ops are well formed by construction)
};

static std::map<std::string, Var> g_vars;
static std::map<std::string, sg4::ActivitySet> g_sets;
static std::map<std::string, ActorSlot> g_actors;
static std::map<std::string, sg4::MutexPtr> g_mutex;
static std::map<std::string, sg4::SemaphorePtr> g_sem;
static std::map<std::string, sg4::ConditionVariablePtr> g_cv;
static std::map<std::string, sg4::BarrierPtr> g_bar;
static std::mutex g_slot_mx; // guards ActorSlot::ptr (well-formed programs never race on it; this only avoids UB)
static int g_payload[4] = {1, 2, 3, 4};

static void run_actor(ActorDef* def);

static sg4::ActorPtr slot_get(const std::string& n)
{
  std::lock_guard<std::mutex> l(g_slot_mx);
  return g_actors.at(n).ptr;
}
static sg4::ActorPtr target(Ctx& c, const std::string& n)
{
  if (n == "self")
    return sg4::Actor::self();
  return slot_get(n);
}
static sg4::ActorPtr spawn(const std::string& n)
{
  ActorSlot& s  = g_actors.at(n);
  ActorDef* def = &s.def;
  auto a        = sg4::Actor::create(def->name, sg4::Host::by_name(def->host), [def] { run_actor(def); });
  if (def->kill_time >= 0)
    a->set_kill_time(def->kill_time);
  std::lock_guard<std::mutex> l(g_slot_mx);
  s.ptr = a;
  return a;
}
static std::string var_name_of(const sg4::ActivityPtr& p)
{
  for (auto const& [n, v] : g_vars)
    if (v.get() == p.get())
      return n;
  return "?";
}

// ------------------------------------------------------------------------------------------------ ops
using OpFn = std::function<std::string(Ctx&, const json&)>;
struct OpDesc {
  const char* name;
  const char* doc;
  OpFn fn;
};
#define S(i) a.at(i).get<std::string>()
#define D(i) a.at(i).get<double>()
static Var& V(const json& a, int i) { return g_vars.at(S(i)); }

template <class F> static std::string on_typed(Var& v, F f)
{
  if (v.exec) return f(v.exec);
  if (v.comm) return f(v.comm);
  if (v.mess) return f(v.mess);
  if (v.io) return f(v.io);
  return "novar";
}

static std::vector<OpDesc> optable = {
    // ---- time
    {"sleep", "[d] this_actor::sleep_for(d)", [](Ctx&, const json& a) { sg4::this_actor::sleep_for(D(1)); return "ok"; }},
    {"sleep_until", "[t] this_actor::sleep_until(t)", [](Ctx&, const json& a) { sg4::this_actor::sleep_until(D(1)); return "ok"; }},
    {"yield", "[] this_actor::yield()", [](Ctx&, const json&) { sg4::this_actor::yield(); return "ok"; }},
    {"log", "[tag] record only", [](Ctx&, const json& a) { return S(1); }},
    {"exec", "[flops] this_actor::execute", [](Ctx&, const json& a) { sg4::this_actor::execute(D(1)); return "ok"; }},
    // ---- activities: creation (v = variable)
    {"exec_init", "[v,flops] v = exec_init (not started)",
     [](Ctx&, const json& a) { Var& v = V(a, 1); v.clear(); v.kind = "exec"; v.exec = sg4::this_actor::exec_init(D(2)); return "ok"; }},
    {"exec_async", "[v,flops] v = exec_async",
     [](Ctx&, const json& a) { Var& v = V(a, 1); v.clear(); v.kind = "exec"; v.exec = sg4::this_actor::exec_async(D(2)); return "ok"; }},
    {"comm_put_init", "[v,mbox,bytes]",
     [](Ctx&, const json& a) { Var& v = V(a, 1); v.clear(); v.kind = "comm"; v.comm = sg4::Mailbox::by_name(S(2))->put_init(g_payload, (uint64_t)D(3)); return "ok"; }},
    {"comm_put_async", "[v,mbox,bytes]",
     [](Ctx&, const json& a) { Var& v = V(a, 1); v.clear(); v.kind = "comm"; v.comm = sg4::Mailbox::by_name(S(2))->put_async(g_payload, (uint64_t)D(3)); return "ok"; }},
    {"comm_get_init", "[v,mbox]",
     [](Ctx&, const json& a) { Var& v = V(a, 1); v.clear(); v.kind = "comm"; v.comm = sg4::Mailbox::by_name(S(2))->get_init()->set_dst_data(&v.dst, sizeof(void*)); return "ok"; }},
    {"comm_get_async", "[v,mbox]",
     [](Ctx&, const json& a) { Var& v = V(a, 1); v.clear(); v.kind = "comm"; v.comm = sg4::Mailbox::by_name(S(2))->get_async<void>(&v.dst); return "ok"; }},
    {"mess_put_init", "[v,queue]",
     [](Ctx&, const json& a) { Var& v = V(a, 1); v.clear(); v.kind = "mess"; v.mess = sg4::MessageQueue::by_name(S(2))->put_init(g_payload); return "ok"; }},
    {"mess_put_async", "[v,queue]",
     [](Ctx&, const json& a) { Var& v = V(a, 1); v.clear(); v.kind = "mess"; v.mess = sg4::MessageQueue::by_name(S(2))->put_async(g_payload); return "ok"; }},
    {"mess_get_init", "[v,queue]",
     [](Ctx&, const json& a) { Var& v = V(a, 1); v.clear(); v.kind = "mess"; v.mess = sg4::MessageQueue::by_name(S(2))->get_init()->set_dst_data(&v.dst, sizeof(void*)); return "ok"; }},
    {"mess_get_async", "[v,queue]",
     [](Ctx&, const json& a) { Var& v = V(a, 1); v.clear(); v.kind = "mess"; v.mess = sg4::MessageQueue::by_name(S(2))->get_async<void>(&v.dst); return "ok"; }},
    {"io_init", "[v,disk,bytes,read|write]",
     [](Ctx&, const json& a) { Var& v = V(a, 1); v.clear(); v.kind = "io";
       v.io = sg4::this_actor::get_host()->get_disk_by_name(S(2))->io_init((sg_size_t)D(3), S(4) == "read" ? sg4::Io::OpType::READ : sg4::Io::OpType::WRITE); return "ok"; }},
    {"io_async", "[v,disk,bytes,read|write]",
     [](Ctx&, const json& a) { Var& v = V(a, 1); v.clear(); v.kind = "io";
       auto* d = sg4::this_actor::get_host()->get_disk_by_name(S(2));
       v.io    = S(4) == "read" ? d->read_async((sg_size_t)D(3)) : d->write_async((sg_size_t)D(3)); return "ok"; }},
    // ---- blocking shortcuts
    {"put", "[mbox,bytes] Mailbox::put", [](Ctx&, const json& a) { sg4::Mailbox::by_name(S(1))->put(g_payload, (uint64_t)D(2)); return "ok"; }},
    {"put_for", "[mbox,bytes,t] Mailbox::put with timeout", [](Ctx&, const json& a) { sg4::Mailbox::by_name(S(1))->put(g_payload, (uint64_t)D(2), D(3)); return "ok"; }},
    {"dput", "[mbox,bytes] detached put", [](Ctx&, const json& a) { sg4::Mailbox::by_name(S(1))->put_init(g_payload, (uint64_t)D(2))->detach(); return "ok"; }},
    {"get", "[mbox] Mailbox::get", [](Ctx&, const json& a) { sg4::Mailbox::by_name(S(1))->get<void>(); return "ok"; }},
    {"get_for", "[mbox,t] Mailbox::get with timeout", [](Ctx&, const json& a) { sg4::Mailbox::by_name(S(1))->get<void>(D(2)); return "ok"; }},
    {"mess_put", "[queue] MessageQueue::put", [](Ctx&, const json& a) { sg4::MessageQueue::by_name(S(1))->put(g_payload); return "ok"; }},
    {"mess_put_for", "[queue,t]", [](Ctx&, const json& a) { sg4::MessageQueue::by_name(S(1))->put(g_payload, D(2)); return "ok"; }},
    {"mess_get", "[queue] MessageQueue::get", [](Ctx&, const json& a) { sg4::MessageQueue::by_name(S(1))->get<void>(); return "ok"; }},
    {"mess_get_for", "[queue,t]", [](Ctx&, const json& a) { sg4::MessageQueue::by_name(S(1))->get<void>(D(2)); return "ok"; }},
    {"io", "[disk,bytes,read|write] blocking I/O",
     [](Ctx&, const json& a) { auto* d = sg4::this_actor::get_host()->get_disk_by_name(S(1));
       if (S(3) == "read") d->read((sg_size_t)D(2)); else d->write((sg_size_t)D(2)); return "ok"; }},
    // ---- activities: control
    {"start", "[v] v->start()", [](Ctx&, const json& a) { return on_typed(V(a, 1), [](auto& p) { p->start(); return std::string("ok"); }); }},
    {"wait", "[v] v->wait()", [](Ctx&, const json& a) { return on_typed(V(a, 1), [](auto& p) { p->wait(); return std::string("ok"); }); }},
    {"wait_for", "[v,t] v->wait_for(t) through the typed pointer (Comm/Mess override it)",
     [](Ctx&, const json& a) { double t = D(2); return on_typed(V(a, 1), [t](auto& p) { p->wait_for(t); return std::string("ok"); }); }},
    {"wait_for_or_cancel", "[v,t] v->wait_for_or_cancel(t)",
     [](Ctx&, const json& a) { double t = D(2); return on_typed(V(a, 1), [t](auto& p) { p->wait_for_or_cancel(t); return std::string("ok"); }); }},
    {"wait_until", "[v,t] v->wait_until(t)",
     [](Ctx&, const json& a) { double t = D(2); return on_typed(V(a, 1), [t](auto& p) { p->wait_until(t); return std::string("ok"); }); }},
    {"test", "[v] v->test() -> true|false",
     [](Ctx&, const json& a) { return on_typed(V(a, 1), [](auto& p) { return std::string(p->test() ? "true" : "false"); }); }},
    {"cancel", "[v] v->cancel()", [](Ctx&, const json& a) { return on_typed(V(a, 1), [](auto& p) { p->cancel(); return std::string("ok"); }); }},
    {"suspend_act", "[v] v->suspend()", [](Ctx&, const json& a) { return on_typed(V(a, 1), [](auto& p) { p->suspend(); return std::string("ok"); }); }},
    {"resume_act", "[v] v->resume()", [](Ctx&, const json& a) { return on_typed(V(a, 1), [](auto& p) { p->resume(); return std::string("ok"); }); }},
    {"state", "[v] -> Activity::get_state_str()",
     [](Ctx&, const json& a) { auto* p = V(a, 1).get(); return std::string(p ? p->get_state_str() : "novar"); }},
    {"times", "[v] -> start_time/finish_time",
     [](Ctx&, const json& a) { auto* p = V(a, 1).get(); return p ? num(p->get_start_time()) + "/" + num(p->get_finish_time()) : std::string("novar"); }},
    {"remaining", "[v] -> get_remaining()", [](Ctx&, const json& a) { auto* p = V(a, 1).get(); return p ? num(p->get_remaining()) : std::string("novar"); }},
    // ---- activity sets
    {"set_push", "[S,v] S.push(v)", [](Ctx&, const json& a) { g_sets.at(S(1)).push(sg4::ActivityPtr(V(a, 2).get())); return "ok"; }},
    {"set_erase", "[S,v] S.erase(v)", [](Ctx&, const json& a) { g_sets.at(S(1)).erase(sg4::ActivityPtr(V(a, 2).get())); return "ok"; }},
    {"set_size", "[S] -> size", [](Ctx&, const json& a) { return std::to_string(g_sets.at(S(1)).size()); }},
    {"wait_any", "[S] -> name of the returned variable", [](Ctx&, const json& a) { return var_name_of(g_sets.at(S(1)).wait_any()); }},
    {"wait_any_for", "[S,t] -> name of the returned variable | timeout",
     [](Ctx&, const json& a) { return var_name_of(g_sets.at(S(1)).wait_any_for(D(2))); }},
    {"wait_all", "[S]", [](Ctx&, const json& a) { g_sets.at(S(1)).wait_all(); return "ok"; }},
    {"wait_all_for", "[S,t]", [](Ctx&, const json& a) { g_sets.at(S(1)).wait_all_for(D(2)); return "ok"; }},
    {"test_any", "[S] -> name | none",
     [](Ctx&, const json& a) { auto p = g_sets.at(S(1)).test_any(); return p ? var_name_of(p) : std::string("none"); }},
    // ---- synchronisation objects
    {"lock", "[m]", [](Ctx& c, const json& a) { g_mutex.at(S(1))->lock(); c.held[S(1)]++; return "ok"; }},
    {"trylock", "[m] -> true|false",
     [](Ctx& c, const json& a) { bool r = g_mutex.at(S(1))->try_lock(); if (r) c.held[S(1)]++; return r ? "true" : "false"; }},
    {"unlock", "[m] only if this actor holds m (else value skip)",
     [](Ctx& c, const json& a) { if (c.held[S(1)] <= 0) return "skip"; c.held[S(1)]--; g_mutex.at(S(1))->unlock(); return "ok"; }},
    {"acquire", "[s]", [](Ctx&, const json& a) { g_sem.at(S(1))->acquire(); return "ok"; }},
    {"acquire_timeout", "[s,t] -> ok|timeout", [](Ctx&, const json& a) { return g_sem.at(S(1))->acquire_timeout(D(2)) ? "timeout" : "ok"; }},
    {"release", "[s]", [](Ctx&, const json& a) { g_sem.at(S(1))->release(); return "ok"; }},
    {"sem_capacity", "[s] -> capacity", [](Ctx&, const json& a) { return std::to_string(g_sem.at(S(1))->get_capacity()); }},
    {"cv_wait", "[c,m] lock m unless held; c.wait(m); unlock if it was taken here",
     [](Ctx& c, const json& a) { auto m = g_mutex.at(S(2)); bool mine = c.held[S(2)] > 0; if (not mine) m->lock();
       g_cv.at(S(1))->wait(m); if (not mine) m->unlock(); return "ok"; }},
    {"cv_wait_for", "[c,m,t] same with timeout -> ok|timeout",
     [](Ctx& c, const json& a) { auto m = g_mutex.at(S(2)); bool mine = c.held[S(2)] > 0; if (not mine) m->lock();
       auto r = g_cv.at(S(1))->wait_for(m, D(3)); if (not mine) m->unlock(); return r == std::cv_status::timeout ? "timeout" : "ok"; }},
    {"cv_notify_one", "[c]", [](Ctx&, const json& a) { g_cv.at(S(1))->notify_one(); return "ok"; }},
    {"cv_notify_all", "[c]", [](Ctx&, const json& a) { g_cv.at(S(1))->notify_all(); return "ok"; }},
    {"barrier", "[b] -> last|ok", [](Ctx&, const json& a) { return g_bar.at(S(1))->wait() ? "last" : "ok"; }},
    // ---- actor lifecycle (targets by actor name, or "self")
    {"create", "[name] instantiate the template actor", [](Ctx&, const json& a) { spawn(S(1)); return "ok"; }},
    {"kill", "[name] -> ok|absent", [](Ctx& c, const json& a) { auto t = target(c, S(1)); if (not t) return "absent"; t->kill(); return "ok"; }},
    {"kill_all", "[] Actor::kill_all()", [](Ctx&, const json&) { sg4::Actor::kill_all(); return "ok"; }},
    {"join", "[name]", [](Ctx& c, const json& a) { auto t = target(c, S(1)); if (not t) return "absent"; t->join(); return "ok"; }},
    {"join_for", "[name,t]", [](Ctx& c, const json& a) { auto t = target(c, S(1)); if (not t) return "absent"; t->join(D(2)); return "ok"; }},
    {"daemonize", "[] self->daemonize()", [](Ctx&, const json&) { sg4::Actor::self()->daemonize(); return "ok"; }},
    {"set_kill_time", "[name,t]", [](Ctx& c, const json& a) { auto t = target(c, S(1)); if (not t) return "absent"; t->set_kill_time(D(2)); return "ok"; }},
    {"suspend", "[name]", [](Ctx& c, const json& a) { auto t = target(c, S(1)); if (not t) return "absent"; t->suspend(); return "ok"; }},
    {"resume", "[name]", [](Ctx& c, const json& a) { auto t = target(c, S(1)); if (not t) return "absent"; t->resume(); return "ok"; }},
    {"is_suspended", "[name] -> true|false", [](Ctx& c, const json& a) { auto t = target(c, S(1)); if (not t) return "absent"; return t->is_suspended() ? "true" : "false"; }},
    {"on_exit", "[k] register one more on_exit callback tagged k",
     [](Ctx& c, const json& a) { int k = a.at(1).get<int>(); long reg = c.pid;
       sg4::Actor::self()->on_exit([k, reg](bool failed) {
         long me = sg4::Actor::self() ? sg4::Actor::self()->get_pid() : -1;
         rec("on_exit", std::to_string(k) + ":" + (failed ? "1" : "0") + ":" + (me == reg ? "own" : "inh")); });
       return "ok"; }},
    {"exit", "[] this_actor::exit()", [](Ctx&, const json&) { sg4::this_actor::exit(); return "ok"; }},
    {"restart", "[name] Actor::restart()",
     [](Ctx& c, const json& a) { auto t = target(c, S(1)); if (not t) return "absent"; sg4::ActorPtr n = t->restart();
       { std::lock_guard<std::mutex> l(g_slot_mx); g_actors.at(S(1)).ptr = n; } return "ok"; }},
    {"set_auto_restart", "[] self->set_auto_restart(true)", [](Ctx&, const json&) { sg4::Actor::self()->set_auto_restart(true); return "ok"; }},
    {"host_off", "[host]", [](Ctx&, const json& a) { sg4::Host::by_name(S(1))->turn_off(); return "ok"; }},
    {"host_on", "[host]", [](Ctx&, const json& a) { sg4::Host::by_name(S(1))->turn_on(); return "ok"; }},
    {"timer", "[date] kernel timer set by this actor (logs  S timer <actor>:<date>  when it fires)",
     [](Ctx& c, const json& a) { double d = D(1); std::string tag = c.def->name + ":" + num(d);
       simgrid::kernel::actor::simcall_answered([d, tag] { simgrid::kernel::timer::Timer::set(d, [tag] { rec("timer", tag); }); });
       return "ok"; }},
    {"timer_in", "[delay] kernel timer at now+delay (logs  S timer <actor>:<date>)",
     [](Ctx& c, const json& a) { double d = sg4::Engine::get_clock() + D(1); std::string tag = c.def->name + ":" + num(d);
       simgrid::kernel::actor::simcall_answered([d, tag] { simgrid::kernel::timer::Timer::set(d, [tag] { rec("timer", tag); }); });
       return "ok"; }},
    {"kill_in", "[delay] self->set_kill_time(now+delay)",
     [](Ctx&, const json& a) { sg4::Actor::self()->set_kill_time(sg4::Engine::get_clock() + D(1)); return "ok"; }},
};
#undef S
#undef D
static std::map<std::string, const OpDesc*> opmap;

static void do_op(Ctx& c, const json& op)
{
  const std::string name = op.at(0).get<std::string>();
  auto it                = opmap.find(name);
  if (it == opmap.end()) {
    rec(name, "unknown-op");
    return;
  }
  std::string val;
  try {
    val = it->second->fn(c, op);
  } catch (const simgrid::TimeoutException&) {
    val = "timeout";
  } catch (const simgrid::CancelException&) {
    val = "cancel";
  } catch (const simgrid::HostFailureException&) {
    val = "hostfail";
  } catch (const simgrid::NetworkFailureException&) {
    val = "netfail";
  } catch (const simgrid::StorageFailureException&) {
    val = "storagefail";
  } catch (const simgrid::Exception& e) {
    val = std::string("exception");
  } // ForcefulKillException is not a simgrid::Exception and is never caught here
  rec(name, val);
}

static void run_actor(ActorDef* def)
{
  Ctx c{def, sg4::this_actor::get_pid(), {}};
  rec("start", std::to_string(sg4::Actor::self()->get_restart_count()));
  if (def->daemon)
    sg4::Actor::self()->daemonize();
  if (def->auto_restart)
    sg4::Actor::self()->set_auto_restart(true);
  for (int k = 1; k <= def->on_exit; k++)
    opmap.at("on_exit")->fn(c, json::array({"on_exit", k}));
  for (auto const& op : def->ops)
    do_op(c, op);
  rec("end", "-");
}

// ------------------------------------------------------------------------------------------------ driver
static void collect_names(const json& prog)
{
  // pre-create every variable / set slot named anywhere so that actors never insert into shared maps
  static const std::map<std::string, std::vector<int>> varpos = {
      {"exec_init", {1}},      {"exec_async", {1}},    {"comm_put_init", {1}}, {"comm_put_async", {1}}, {"comm_get_init", {1}},
      {"comm_get_async", {1}}, {"mess_put_init", {1}}, {"mess_put_async", {1}}, {"mess_get_init", {1}}, {"mess_get_async", {1}},
      {"io_init", {1}},        {"io_async", {1}},      {"set_push", {2}},      {"set_erase", {2}}};
  static const std::vector<std::string> setops = {"set_push", "set_erase", "set_size", "wait_any", "wait_any_for",
                                                  "wait_all", "wait_all_for", "test_any"};
  for (auto const& ad : prog.at("actors"))
    for (auto const& op : ad.value("ops", json::array())) {
      std::string n = op.at(0).get<std::string>();
      auto it       = varpos.find(n);
      if (it != varpos.end())
        for (int p : it->second)
          g_vars[op.at(p).get<std::string>()];
      if (std::find(setops.begin(), setops.end(), n) != setops.end())
        g_sets[op.at(1).get<std::string>()];
    }
}

static int run_program(const json& prog, int argc, char** argv)
{
  { // watchdog: a simulation that spins is a failure of its own (exit status 128+SIGXCPU=152), never a hung check
    const char* lim = getenv("SIM_CPU_LIMIT");
    rlim_t sec      = lim ? (rlim_t)atol(lim) : 8;
    struct rlimit rl{sec, sec + 2};
    setrlimit(RLIMIT_CPU, &rl);
  }
  if (size_t n = prog.value("prealloc", 0)) { // shift the heap: everything allocated later lives n bytes further
    for (size_t got = 0; got < n; got += 1040) { // small chunks stay in the brk heap (one big block would be mmap'ed)
      char* p = (char*)malloc(1040);
      p[0]    = 1; // leaked on purpose
    }
  }
  std::vector<std::string> args = {"sim", "--log=root.thres:critical"};
  for (const char* d : {"network/model:CM02", "network/TCP-gamma:0", "network/crosstraffic:0", "network/latency-factor:1",
                        "network/bandwidth-factor:1", "network/weight-S:0"})
    args.push_back(std::string("--cfg=") + d);
  for (auto const& c : prog.value("cfg", json::array()))
    args.push_back("--cfg=" + c.get<std::string>());
  for (int i = 0; i < argc; i++)
    args.push_back(argv[i]);
  std::vector<char*> av;
  for (auto& s : args)
    av.push_back(s.data());
  av.push_back(nullptr);
  int ac = (int)args.size();
  sg4::Engine e(&ac, av.data());

  auto* root = e.get_netzone_root();
  for (auto const& h : prog.value("hosts", json::array())) {
    auto* host = root->add_host(h.at("name").get<std::string>(), h.value("speed", 1073741824.0));
    host->set_core_count(h.value("cores", 1));
    for (auto const& d : h.value("disks", json::array()))
      host->add_disk(d.at("name").get<std::string>(), d.value("rbw", 1048576.0), d.value("wbw", 1048576.0));
  }
  for (auto const& l : prog.value("links", json::array()))
    root->add_link(l.at("name").get<std::string>(), l.value("bw", 1048576.0))->set_latency(l.value("lat", 0.0));
  for (auto const& r : prog.value("routes", json::array())) {
    std::vector<const sg4::Link*> ls;
    for (auto const& ln : r.at(2))
      ls.push_back(sg4::Link::by_name(ln.get<std::string>()));
    root->add_route(sg4::Host::by_name(r.at(0).get<std::string>()), sg4::Host::by_name(r.at(1).get<std::string>()), ls);
  }
  root->seal();

  if (prog.contains("objects"))
    for (auto const& [n, o] : prog.at("objects").items()) {
      std::string k = o.at("kind").get<std::string>();
      if (k == "mutex") g_mutex[n] = sg4::Mutex::create(o.value("recursive", false));
      else if (k == "sem") g_sem[n] = sg4::Semaphore::create(o.value("cap", 1));
      else if (k == "condvar") g_cv[n] = sg4::ConditionVariable::create();
      else if (k == "barrier") g_bar[n] = sg4::Barrier::create(o.value("n", 2));
    }
  collect_names(prog);

  sg4::Engine::on_time_advance_cb([](double d) { rec("time_advance", num(d)); });
  sg4::Engine::on_deadlock_cb([] { rec("deadlock", "-"); });
  sg4::Engine::on_simulation_end_cb([] { rec("sim_end", "-"); });
  sg4::Actor::on_termination_cb([](sg4::Actor const& a) { rec("terminated", a.get_name()); });
  if (prog.value("signals", false)) {
    sg4::Exec::on_start_cb([](sg4::Exec const&) { rec("sig_start", "exec"); });
    sg4::Exec::on_completion_cb([](sg4::Exec const&) { rec("sig_completion", "exec"); });
    sg4::Comm::on_start_cb([](sg4::Comm const&) { rec("sig_start", "comm"); });
    sg4::Comm::on_completion_cb([](sg4::Comm const&) { rec("sig_completion", "comm"); });
    sg4::Io::on_start_cb([](sg4::Io const&) { rec("sig_start", "io"); });
    sg4::Io::on_completion_cb([](sg4::Io const&) { rec("sig_completion", "io"); });
    sg4::Mess::on_start_cb([](sg4::Mess const&) { rec("sig_start", "mess"); });
    sg4::Mess::on_completion_cb([](sg4::Mess const&) { rec("sig_completion", "mess"); });
  }
  for (auto const& t : prog.value("timers", json::array())) {
    double d = t.get<double>();
    simgrid::kernel::timer::Timer::set(d, [d] { rec("timer", num(d)); });
  }

  for (auto const& ad : prog.at("actors")) {
    ActorDef d;
    d.name         = ad.at("name").get<std::string>();
    d.host         = ad.at("host").get<std::string>();
    d.start        = ad.value("start", true);
    d.daemon       = ad.value("daemon", false);
    d.auto_restart = ad.value("auto_restart", false);
    d.kill_time    = ad.value("kill_time", -1.0);
    d.on_exit      = ad.value("on_exit", 0);
    d.ops          = ad.value("ops", json::array());
    g_actors[d.name].def = d;
  }
  for (auto const& ad : prog.at("actors")) // creation order = program order (pids 1,2,3…)
    if (ad.value("start", true))
      spawn(ad.at("name").get<std::string>());

  e.run();

  for (auto const& [pid, b] : g_bufs) {
    int seq = 0;
    for (auto const& r : b->recs)
      printf("A %s %ld %d %s %s %.17g\n", b->name.c_str(), pid, seq++, r.ev.c_str(), r.val.c_str(), r.clock);
  }
  int seq = 0;
  for (auto const& r : g_sig.recs)
    printf("S %d %s %s %.17g\n", seq++, r.ev.c_str(), r.val.c_str(), r.clock);
  printf("END %.17g\n", sg4::Engine::get_clock());
  fflush(stdout);
  return 0;
}

int main(int argc, char** argv)
{
  for (auto const& d : optable)
    opmap[d.name] = &d;
  if (argc >= 2 && std::string(argv[1]) == "--ops") {
    for (auto const& d : optable)
      printf("%-20s %s\n", d.name, d.doc);
    return 0;
  }
  if (argc >= 3 && std::string(argv[1]) == "--batch") {
    std::ifstream in(argv[2]);
    std::string line;
    int i = 0;
    while (std::getline(in, line)) {
      if (line.empty())
        continue;
      printf("#BEGIN %d\n", i);
      fflush(stdout);
      pid_t p = fork();
      if (p == 0) {
        dup2(1, 2); // the engine's CRITICAL messages (assertions, uncaught exceptions) become part of this program's section
        int r = 3;
        try {
          r = run_program(json::parse(line), argc - 3, argv + 3);
        } catch (const std::exception& ex) {
          printf("#ERROR %s\n", ex.what());
        }
        fflush(stdout);
        _exit(r);
      }
      int st = 0;
      waitpid(p, &st, 0);
      printf("#END %d %d\n", i, WIFEXITED(st) ? WEXITSTATUS(st) : 128 + WTERMSIG(st));
      fflush(stdout);
      i++;
    }
    return 0;
  }
  if (argc < 2) {
    fprintf(stderr, "usage: sim PROGRAM.json|- [--cfg=...] | sim --batch FILE [--cfg=...] | sim --ops\n");
    return 2;
  }
  json prog;
  if (std::string(argv[1]) == "-")
    prog = json::parse(std::cin);
  else {
    std::ifstream in(argv[1]);
    prog = json::parse(in);
  }
  int r = run_program(prog, argc - 2, argv + 2);
  fflush(stdout);
  _exit(r); // skip static destructors: the observation is complete
}
