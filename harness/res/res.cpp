/* res — workload runner for the resource-model half of engine E4 (C19..C23).
 *
 * Input (file given as argv[1], or stdin): a sequence of cases in a line-oriented format
 *
 *   case <id>
 *   cfg <key>:<value>                                  (passed as --cfg=, before the platform exists)
 *   plugin host_energy|link_energy
 *   host <name> <cores> <speed0[,speed1...]> [pstate=<n>] [prop:<key>=<value>]...
 *   link <name> <bandwidth> <latency> <SHARED|FATPIPE> [prop:<key>=<value>]...
 *   disk <name> <host> <read_bw> <write_bw>
 *   route <src> <dst> <link1[,link2...]>               (symmetrical)
 *   profile <kind> <resource> <period|-1> <loopafter|-1> <date:value[,date:value...]>
 *        kind = speed|hstate (host)  bw|lat|lstate (link)
 *   act <id> exec  <start> <host> <flops> [bound=<b>] [prio=<p>] [threads=<n>]
 *   act <id> comm  <start> <src> <dst> <bytes> [rate=<r>]
 *   act <id> io    <start> <disk> <read|write> <bytes>
 *   act <id> ptask <start> <h1,h2..> <f1,f2..> [bytes=<b11,b12,...>]
 *   act <id> sleep <start> <host> <duration>
 *   ev <date> suspend|resume <act>
 *   ev <date> bound <act> <value>         (kernel: Action::set_user_bound + set_bound, as the VM layer does)
 *   ev <date> prio <act> <value>          (Exec::update_priority)
 *   ev <date> pstate <host> <n>
 *   ev <date> hoston|hostoff <host>
 *   ev <date> linkon|linkoff <link>
 *   ev <date> probe                        (sample from actor context)
 *   sample <0|1|2>                         (1: sample at every on_time_advance, printing only running activities and
 *                                           loaded resources; 2: print every activity and resource)
 *   energy <0|1|2>                         (1: read energies only at the end, 2: at every sample as well)
 *   waiters <0|1>                          (1: one actor per activity waits for it from its start, as a user program would)
 *   skipavail <0|1>                        (1: do not call Host::get_available_speed when sampling)
 *   horizon <date>                         (controller stays alive until then)
 *   end
 *
 * Every case runs in a forked child (the Engine is a singleton); its output is framed by BEGIN/END lines.
 * All numbers are printed with %.17g.
 */
#include <simgrid/kernel/ProfileBuilder.hpp>
#include <simgrid/plugins/energy.h>
#include <simgrid/s4u.hpp>

#include "src/kernel/activity/ActivityImpl.hpp"
#include "src/kernel/lmm/maxmin.hpp"
#include "src/kernel/resource/CpuImpl.hpp"
#include "src/kernel/resource/DiskImpl.hpp"
#include "simgrid/kernel/resource/Action.hpp"

#include <algorithm>
#include <cstdio>
#include <cstdlib>
#include <cstring>
#include <fstream>
#include <iostream>
#include <map>
#include <sstream>
#include <string>
#include <sys/wait.h>
#include <unistd.h>
#include <vector>

namespace sg4 = simgrid::s4u;

struct ActSpec {
  std::string id, kind;
  double start = 0;
  std::vector<std::string> args;
  std::map<std::string, std::string> opt;
};
struct EvSpec {
  double date;
  std::string op;
  std::vector<std::string> args;
  int seq;
};
struct ActRun {
  ActSpec spec;
  sg4::ActivityPtr act; // null for sleeps
  bool started = false;
  double seen_finish = -1; // clock when on_completion fired
  double sleep_begin = -1, sleep_end = -1;
  std::string wait_result = "-";
  double wait_end         = -1;
  std::string kstate      = "-"; // completion as seen in the kernel
  double kdate            = -1;
};

static std::vector<std::string> split(const std::string& s, char sep)
{
  std::vector<std::string> out;
  std::string cur;
  std::istringstream is(s);
  while (std::getline(is, cur, sep))
    out.push_back(cur);
  return out;
}
static double num(const std::string& s)
{
  return strtod(s.c_str(), nullptr);
}

struct Case {
  std::string id;
  std::vector<std::string> cfg, plugins;
  std::vector<std::vector<std::string>> hosts, links, disks, routes, profiles;
  std::vector<ActSpec> acts;
  std::vector<EvSpec> evs;
  int sample = 0, energy = 0, skipavail = 0, waiters = 0;
  double horizon = -1;
};

static std::vector<ActRun> runs;
static std::vector<sg4::Host*> hosts_v;
static std::vector<sg4::Link*> links_v;
static std::vector<sg4::Disk*> disks_v;
static int g_energy = 0, g_sample = 0, g_skipavail = 0;
static bool g_host_energy = false, g_link_energy = false;

static ActRun* find_run(const std::string& id)
{
  for (auto& r : runs)
    if (r.spec.id == id)
      return &r;
  fprintf(stderr, "unknown activity %s\n", id.c_str());
  exit(3);
}

/* Kernel-level truth about completion, independent of who waits for the activity: noticed at every time advance (after
 * the models updated their actions, before the kernel cleans them) and after every controller step. */
static void poll_done()
{
  using AState = simgrid::kernel::resource::Action::State;
  for (auto& r : runs) {
    if (not r.act || not r.started || r.kstate != "-")
      continue;
    auto* impl   = r.act->get_impl();
    auto* action = impl->model_action_;
    if (action != nullptr) {
      if (action->get_state() == AState::FINISHED)
        r.kstate = "FINISHED";
      else if (action->get_state() == AState::FAILED)
        r.kstate = "FAILED";
    } else if (impl->get_state() != simgrid::kernel::activity::State::RUNNING &&
               impl->get_state() != simgrid::kernel::activity::State::WAITING) {
      r.kstate = impl->get_state() == simgrid::kernel::activity::State::DONE ? "FINISHED" : "FAILED";
    }
    if (r.kstate != "-")
      r.kdate = sg4::Engine::get_clock();
  }
}

static void emit_sample(const char* where)
{
  double now = sg4::Engine::get_clock();
  printf("T %s %.17g\n", where, now);
  for (auto& r : runs) {
    if (not r.act || not r.started)
      continue;
    auto* impl   = r.act->get_impl();
    auto* action = impl->model_action_;
    if (action == nullptr) {
      if (g_sample >= 2)
        printf("R %s - %s noaction\n", r.spec.id.c_str(), r.act->get_state_str());
      continue;
    }
    double rem;
    const char* ast;
    switch (action->get_state()) {
      case simgrid::kernel::resource::Action::State::STARTED:
        ast = "STARTED";
        rem = r.act->get_remaining(); // public API (lazy models update the remaining work on demand)
        if (r.spec.kind == "ptask")
          rem = action->get_remains();
        break;
      case simgrid::kernel::resource::Action::State::FINISHED:
        ast = "FINISHED";
        rem = action->get_remains_no_update();
        break;
      case simgrid::kernel::resource::Action::State::FAILED:
        ast = "FAILED";
        rem = action->get_remains_no_update();
        break;
      default:
        ast = "OTHER";
        rem = action->get_remains_no_update();
    }
    printf("R %s %.17g %s rate=%.17g susp=%d\n", r.spec.id.c_str(), rem, ast, action->get_rate(),
           (int)action->is_suspended());
  }
  for (auto* h : hosts_v) {
    double load = h->get_cpu()->get_constraint() ? h->get_load() : -1; // the TI model has no LMM constraint
    if (g_sample < 2 && load <= 0 && not(g_host_energy && g_energy >= 2))
      continue;
    printf("H %s load=%.17g speed=%.17g avail=%.17g pstate=%lu on=%d cores=%d", h->get_cname(), load, h->get_speed(),
           g_skipavail ? -1.0 : h->get_available_speed(), h->get_pstate(), (int)h->is_on(), h->get_core_count());
    if (g_host_energy && g_energy >= 2 && h->get_property("wattage_per_state"))
      printf(" energy=%.17g", sg_host_get_consumed_energy(h));
    printf("\n");
  }
  for (auto* l : links_v) {
    if (g_sample < 2 && l->get_load() <= 0 && not(g_link_energy && g_energy >= 2))
      continue;
    printf("L %s load=%.17g bw=%.17g lat=%.17g on=%d", l->get_cname(), l->get_load(), l->get_bandwidth(),
           l->get_latency(), (int)l->is_on());
    if (g_link_energy && g_energy >= 2)
      printf(" energy=%.17g", sg_link_get_consumed_energy(l));
    printf("\n");
  }
  for (auto* d : disks_v) {
    auto* di = d->get_impl();
    if (g_sample < 2 && di->get_constraint()->get_load() <= 0)
      continue;
    printf("D %s load=%.17g rload=%.17g wload=%.17g rbw=%.17g wbw=%.17g\n", d->get_cname(),
           di->get_constraint()->get_load(), di->get_read_constraint()->get_load(),
           di->get_write_constraint()->get_load(), d->get_read_bandwidth(), d->get_write_bandwidth());
  }
}

static sg4::Host* host_by(const std::string& n)
{
  return sg4::Host::by_name(n);
}

static void start_activity(ActRun& r)
{
  const auto& a = r.spec.args;
  const auto& k = r.spec.kind;
  if (k == "exec") {
    auto e = sg4::Exec::init()->set_flops_amount(num(a[1]))->set_host(host_by(a[0]));
    if (r.spec.opt.count("bound"))
      e->set_bound(num(r.spec.opt["bound"]));
    if (r.spec.opt.count("prio"))
      e->set_priority(num(r.spec.opt["prio"]));
    if (r.spec.opt.count("threads"))
      e->set_thread_count(atoi(r.spec.opt["threads"].c_str()));
    r.act = e;
  } else if (k == "comm") {
    auto c = sg4::Comm::sendto_init(host_by(a[0]), host_by(a[1]))->set_payload_size((uint64_t)num(a[2]));
    if (r.spec.opt.count("rate"))
      c->set_rate(num(r.spec.opt["rate"]));
    r.act = c;
  } else if (k == "io") {
    sg4::Disk* disk = nullptr;
    for (auto* d : disks_v)
      if (d->get_name() == a[0])
        disk = d;
    r.act = disk->io_init((sg_size_t)num(a[2]), a[1] == "read" ? sg4::Io::OpType::READ : sg4::Io::OpType::WRITE);
  } else if (k == "ptask") {
    std::vector<sg4::Host*> hs;
    for (auto const& n : split(a[0], ','))
      hs.push_back(host_by(n));
    std::vector<double> fl;
    for (auto const& f : split(a[1], ','))
      fl.push_back(num(f));
    std::vector<double> by;
    if (r.spec.opt.count("bytes"))
      for (auto const& b : split(r.spec.opt["bytes"], ','))
        by.push_back(num(b));
    auto e = sg4::Exec::init()->set_flops_amounts(fl);
    if (not by.empty())
      e->set_bytes_amounts(by);
    e->set_hosts(hs);
    r.act = e;
  }
  ActRun* rp = &r;
  if (k == "exec" || k == "ptask")
    boost::static_pointer_cast<sg4::Exec>(r.act)->on_this_completion_cb(
        [rp](sg4::Exec const&) { rp->seen_finish = sg4::Engine::get_clock(); });
  else if (k == "comm")
    boost::static_pointer_cast<sg4::Comm>(r.act)->on_this_completion_cb(
        [rp](sg4::Comm const&) { rp->seen_finish = sg4::Engine::get_clock(); });
  else if (k == "io")
    boost::static_pointer_cast<sg4::Io>(r.act)->on_this_completion_cb(
        [rp](sg4::Io const&) { rp->seen_finish = sg4::Engine::get_clock(); });
  r.act->start();
  r.started = true;
}

static void apply_event(const EvSpec& ev)
{
  const auto& op = ev.op;
  if (op == "probe") {
    emit_sample("probe");
  } else if (op == "suspend") {
    auto* r = find_run(ev.args[0]);
    if (r->act && r->started)
      r->act->suspend();
  } else if (op == "resume") {
    auto* r = find_run(ev.args[0]);
    if (r->act && r->started)
      r->act->resume();
  } else if (op == "bound") {
    auto* r  = find_run(ev.args[0]);
    double b = num(ev.args[1]);
    if (r->act && r->started && r->act->get_state() == sg4::Activity::State::STARTED) {
      auto* impl = r->act->get_impl();
      simgrid::kernel::actor::simcall_answered([impl, b] {
        if (impl->model_action_) {
          impl->model_action_->set_user_bound(b);
          impl->model_action_->set_bound(b);
        }
      });
    }
  } else if (op == "prio") {
    auto* r = find_run(ev.args[0]);
    if (r->act && r->started && r->act->get_state() == sg4::Activity::State::STARTED)
      boost::static_pointer_cast<sg4::Exec>(r->act)->update_priority(num(ev.args[1]));
  } else if (op == "pstate") {
    host_by(ev.args[0])->set_pstate(atoi(ev.args[1].c_str()));
  } else if (op == "hoston") {
    host_by(ev.args[0])->turn_on();
  } else if (op == "hostoff") {
    host_by(ev.args[0])->turn_off();
  } else if (op == "linkon") {
    sg4::Link::by_name(ev.args[0])->turn_on();
  } else if (op == "linkoff") {
    sg4::Link::by_name(ev.args[0])->turn_off();
  } else {
    fprintf(stderr, "unknown event %s\n", op.c_str());
    exit(3);
  }
}

static void controller(const Case* c)
{
  // merged timeline: (date, seq) ; starts come before events of the same date when declared first
  struct Item {
    double date;
    int seq;
    int kind; // 0 start, 1 event
    size_t idx;
  };
  std::vector<Item> items;
  int seq = 0;
  for (size_t i = 0; i < runs.size(); i++)
    items.push_back({runs[i].spec.start, seq++, 0, i});
  for (size_t i = 0; i < c->evs.size(); i++)
    items.push_back({c->evs[i].date, seq++, 1, i});
  std::stable_sort(items.begin(), items.end(), [](const Item& a, const Item& b) { return a.date < b.date; });
  for (auto const& it : items) {
    if (it.date > sg4::Engine::get_clock())
      sg4::this_actor::sleep_until(it.date);
    if (it.kind == 0) {
      ActRun& r = runs[it.idx];
      if (r.spec.kind == "sleep") {
        ActRun* rp = &r;
        double d   = num(r.spec.args[1]);
        host_by(r.spec.args[0])->add_actor("sleeper-" + r.spec.id, [rp, d]() {
          rp->sleep_begin = sg4::Engine::get_clock();
          sg4::this_actor::sleep_for(d);
          rp->sleep_end = sg4::Engine::get_clock();
        });
        r.started = true;
      } else {
        start_activity(r);
      }
    } else
      apply_event(c->evs[it.idx]);
    poll_done();
  }
  poll_done();
  for (auto& r : runs) {
    if (not r.act)
      continue;
    try {
      r.act->wait();
      r.wait_result = "ok";
    } catch (const simgrid::HostFailureException&) {
      r.wait_result = "HostFailure";
    } catch (const simgrid::NetworkFailureException&) {
      r.wait_result = "NetworkFailure";
    } catch (const simgrid::StorageFailureException&) {
      r.wait_result = "StorageFailure";
    } catch (const simgrid::CancelException&) {
      r.wait_result = "Cancel";
    } catch (const simgrid::Exception&) {
      r.wait_result = "Exception";
    }
    r.wait_end = sg4::Engine::get_clock();
  }
  if (c->horizon > sg4::Engine::get_clock())
    sg4::this_actor::sleep_until(c->horizon);
  if (g_energy >= 1) {
    for (auto* h : hosts_v)
      if (g_host_energy && h->get_property("wattage_per_state"))
        printf("E host %s %.17g at %.17g\n", h->get_cname(), sg_host_get_consumed_energy(h), sg4::Engine::get_clock());
    for (auto* l : links_v)
      if (g_link_energy)
        printf("E link %s %.17g at %.17g\n", l->get_cname(), sg_link_get_consumed_energy(l), sg4::Engine::get_clock());
  }
}

static int run_case(const Case& c)
{
  std::vector<std::string> args = {"res", "--log=root.thres:error", "--cfg=contexts/stack-size:256", "--cfg=contexts/guard-size:0"};
  for (auto const& k : c.cfg)
    args.push_back("--cfg=" + k);
  std::vector<char*> argv;
  for (auto& a : args)
    argv.push_back(a.data());
  argv.push_back(nullptr);
  int argc = (int)args.size();
  sg4::Engine e(&argc, argv.data());
  for (auto const& p : c.plugins) {
    if (p == "host_energy") {
      sg_host_energy_plugin_init();
      g_host_energy = true;
    } else if (p == "link_energy") {
      sg_link_energy_plugin_init();
      g_link_energy = true;
    }
  }
  g_energy   = c.energy;
  g_sample   = c.sample;
  g_skipavail = c.skipavail;
  auto* zone = e.get_netzone_root();

  std::map<std::string, sg4::Host*> hm;
  std::map<std::string, sg4::Link*> lm;
  for (auto const& h : c.hosts) {
    std::vector<double> speeds;
    for (auto const& s : split(h[2], ','))
      speeds.push_back(num(s));
    auto* host = zone->add_host(h[0], speeds);
    host->set_core_count(atoi(h[1].c_str()));
    int pstate = 0;
    for (size_t i = 3; i < h.size(); i++) {
      if (h[i].rfind("pstate=", 0) == 0)
        pstate = atoi(h[i].c_str() + 7);
      else if (h[i].rfind("prop:", 0) == 0) {
        auto eq = h[i].find('=');
        host->set_property(h[i].substr(5, eq - 5), h[i].substr(eq + 1));
      }
    }
    hm[h[0]] = host;
    hosts_v.push_back(host);
    (void)pstate;
  }
  auto* ctl = zone->add_host("ctl", 1e9);
  for (auto const& l : c.links) {
    auto* link = zone->add_link(l[0], num(l[1]));
    link->set_latency(num(l[2]));
    if (l.size() > 3 && l[3] == "FATPIPE")
      link->set_sharing_policy(sg4::Link::SharingPolicy::FATPIPE);
    for (size_t i = 4; i < l.size(); i++)
      if (l[i].rfind("prop:", 0) == 0) {
        auto eq = l[i].find('=');
        link->set_property(l[i].substr(5, eq - 5), l[i].substr(eq + 1));
      }
    lm[l[0]] = link;
    links_v.push_back(link);
  }
  for (auto const& d : c.disks) {
    auto* disk = hm.at(d[1])->add_disk(d[0], num(d[2]), num(d[3]));
    disks_v.push_back(disk);
  }
  int pcount = 0;
  for (auto const& p : c.profiles) {
    // profile <kind> <resource> <period> <loopafter> <d:v,...>
    std::string text;
    for (auto const& dv : split(p[4], ',')) {
      auto pos = dv.find(':');
      text += dv.substr(0, pos) + " " + dv.substr(pos + 1) + "\n";
    }
    double period = num(p[2]);
    if (num(p[3]) >= 0)
      text += "LOOPAFTER " + p[3] + "\n";
    auto* prof = simgrid::kernel::profile::ProfileBuilder::from_string("prof" + std::to_string(pcount++), text, period);
    if (p[0] == "speed")
      hm.at(p[1])->set_speed_profile(prof);
    else if (p[0] == "hstate")
      hm.at(p[1])->set_state_profile(prof);
    else if (p[0] == "bw")
      lm.at(p[1])->set_bandwidth_profile(prof);
    else if (p[0] == "lat")
      lm.at(p[1])->set_latency_profile(prof);
    else if (p[0] == "lstate")
      lm.at(p[1])->set_state_profile(prof);
    else {
      fprintf(stderr, "unknown profile kind %s\n", p[0].c_str());
      return 3;
    }
  }
  for (auto const& r : c.routes) {
    std::vector<const sg4::Link*> ls;
    for (auto const& n : split(r[2], ','))
      ls.push_back(lm.at(n));
    zone->add_route(hm.at(r[0]), hm.at(r[1]), ls);
  }
  for (auto const& h : c.hosts) {
    for (size_t i = 3; i < h.size(); i++)
      if (h[i].rfind("pstate=", 0) == 0)
        hm.at(h[0])->set_pstate(atoi(h[i].c_str() + 7));
  }
  zone->seal();

  for (auto const& a : c.acts) {
    ActRun r;
    r.spec = a;
    runs.push_back(r);
  }
  if (c.sample)
    sg4::Engine::on_time_advance_cb([](double delta) {
      printf("ADV %.17g\n", delta);
      emit_sample("adv");
    });
  sg4::Engine::on_time_advance_cb([](double) { poll_done(); });
  ctl->add_actor("controller", [&c]() { controller(&c); });
  e.run();

  for (auto& r : runs) {
    if (r.spec.kind == "sleep") {
      printf("A %s sleep start=%.17g finish=%.17g state=%s kdate=%.17g sstate=- wait=-\n", r.spec.id.c_str(), r.sleep_begin,
             r.sleep_end, r.sleep_end >= 0 ? "FINISHED" : "UNFINISHED", r.sleep_end);
      continue;
    }
    if (not r.act) {
      printf("A %s %s start=-1 finish=-1 state=NEVER kdate=-1 sstate=- wait=-\n", r.spec.id.c_str(), r.spec.kind.c_str());
      continue;
    }
    printf("A %s %s start=%.17g finish=%.17g state=%s kdate=%.17g sstate=%s wait=%s waitend=%.17g\n", r.spec.id.c_str(),
           r.spec.kind.c_str(), r.act->get_start_time(), r.act->get_finish_time(),
           r.kstate == "-" ? "UNFINISHED" : r.kstate.c_str(), r.kdate, r.act->get_state_str(), r.wait_result.c_str(),
           r.wait_end);
  }
  printf("CLOCK %.17g\n", sg4::Engine::get_clock());
  fflush(stdout);
  return 0;
}

static bool read_case(std::istream& in, Case& c)
{
  std::string line;
  bool got = false;
  int evseq = 0;
  while (std::getline(in, line)) {
    std::istringstream is(line);
    std::vector<std::string> t((std::istream_iterator<std::string>(is)), std::istream_iterator<std::string>());
    if (t.empty() || t[0][0] == '#')
      continue;
    const std::string& k = t[0];
    if (k == "case") {
      c    = Case();
      c.id = t[1];
      got  = true;
    } else if (k == "end") {
      return got;
    } else if (k == "cfg")
      c.cfg.push_back(t[1]);
    else if (k == "plugin")
      c.plugins.push_back(t[1]);
    else if (k == "host")
      c.hosts.emplace_back(t.begin() + 1, t.end());
    else if (k == "link")
      c.links.emplace_back(t.begin() + 1, t.end());
    else if (k == "disk")
      c.disks.emplace_back(t.begin() + 1, t.end());
    else if (k == "route")
      c.routes.emplace_back(t.begin() + 1, t.end());
    else if (k == "profile")
      c.profiles.emplace_back(t.begin() + 1, t.end());
    else if (k == "act") {
      ActSpec a;
      a.id    = t[1];
      a.kind  = t[2];
      a.start = num(t[3]);
      for (size_t i = 4; i < t.size(); i++) {
        auto eq = t[i].find('=');
        if (eq != std::string::npos && not isdigit(t[i][0]) && t[i][0] != '-')
          a.opt[t[i].substr(0, eq)] = t[i].substr(eq + 1);
        else
          a.args.push_back(t[i]);
      }
      c.acts.push_back(a);
    } else if (k == "ev") {
      EvSpec e;
      e.date = num(t[1]);
      e.op   = t[2];
      e.args.assign(t.begin() + 3, t.end());
      e.seq = evseq++;
      c.evs.push_back(e);
    } else if (k == "sample")
      c.sample = atoi(t[1].c_str());
    else if (k == "energy")
      c.energy = atoi(t[1].c_str());
    else if (k == "skipavail")
      c.skipavail = atoi(t[1].c_str());
    else if (k == "waiters")
      c.waiters = atoi(t[1].c_str());
    else if (k == "horizon")
      c.horizon = num(t[1]);
    else {
      fprintf(stderr, "res: unknown directive '%s'\n", k.c_str());
      exit(3);
    }
  }
  return false;
}

int main(int argc, char** argv)
{
  std::ifstream f;
  std::istream* in = &std::cin;
  if (argc > 1) {
    f.open(argv[1]);
    if (not f) {
      fprintf(stderr, "res: cannot open %s\n", argv[1]);
      return 3;
    }
    in = &f;
  }
  int timeout = getenv("RES_TIMEOUT") ? atoi(getenv("RES_TIMEOUT")) : 20;
  Case c;
  while (read_case(*in, c)) {
    printf("BEGIN %s\n", c.id.c_str());
    fflush(stdout);
    pid_t pid = fork();
    if (pid == 0) {
      dup2(1, 2);
      alarm(timeout);
      int rc = run_case(c);
      fflush(stdout);
      _exit(rc);
    }
    int status = 0;
    waitpid(pid, &status, 0);
    if (WIFEXITED(status))
      printf("END %s exit=%d\n", c.id.c_str(), WEXITSTATUS(status));
    else
      printf("END %s signal=%d\n", c.id.c_str(), WTERMSIG(status));
    fflush(stdout);
  }
  return 0;
}
