/* routex — engine E6 of /verif: build platforms through SimGrid's C++ platform API from a compact textual description,
 * ask Host::route_to for ordered host pairs, print link-name lists and latencies.
 *
 * usage: routex <cases-file>            (results on stdout)
 *
 * One process handles many cases: every case is built in a forked child (fork happens before the Engine exists, so each
 * platform starts from pristine static state: FatTreeZone/DragonflyZone keep static counters). A child that dies prints
 * nothing more; the parent then prints "CRASH <id> <signal> <last stderr bytes>".
 *
 * Case grammar (one directive per line, blank separated):
 *   CASE <id>
 *   zone <name> <parent|-> <kind> [key=value ...]
 *        kinds: full floyd dijkstra dijkstracache star vivaldi empty wifi torus fattree dragonfly
 *        torus: dims=2,3   fattree: lv=2 down=2,3 up=1,2 cnt=1,1   dragonfly: g=2,1 c=2,1 r=2,1 n=2
 *        clusters: pol=D|S|F lat=<s> lb=0|1 lim=0|1 lblat=<s> leaf=host|zone leafn=<hosts per leaf zone> leafgw=<idx>
 *        wifi: ap=<netpoint name>
 *   host <zone> <name> [x,y,z]          router <zone> <name> [x,y,z]      zcoord <zone> x,y,z
 *   link <zone> <name> <latency> <S|D|F|W>
 *   gw <zone> <netpoint>
 *   route <zone> <src|*> <dst|*> <sym 0|1> <l[:U|:D],l,...>          (s4u overloads: Host/Host, NetZone/NetZone, NetPoint)
 *   groute <zone> <src> <dst> <gwsrc> <gwdst> <sym> <links>           (explicit gateways)
 *   bypass <zone> <src> <dst> <gwsrc|-> <gwdst|-> <links>
 *   xml <path>                                                        (Engine::load_platform)
 *   seal <zone>        sealall (= seal the root; implied before the first query)
 *   links                                                             (dump every link: "LK name latency zone"; later routes are printed as indices into that list)
 *   q <src> <dst>      qall [prefix] [desc] [noself]  (all ordered pairs, src==dst included, of hosts whose name starts with prefix,
 *                      sources and destinations in ascending (descending) name order; printed compactly as
 *                      "QA prefix n name..." followed by n*n lines "p latency link..." / "x message" in row-major order)
 *   END
 * Output: "CASE id", then "LK ...", "P src dst latency n link..." or "X src dst message", then "END id".
 */
#include <simgrid/s4u.hpp>
#include "simgrid/kernel/routing/NetPoint.hpp"
#include "simgrid/kernel/routing/NetZoneImpl.hpp"
#include "src/kernel/resource/StandardLinkImpl.hpp"

#include <sys/mman.h>
#include <sys/resource.h>
#include <sys/wait.h>
#include <unistd.h>

#include <algorithm>
#include <cstdio>
#include <cstdlib>
#include <cstring>
#include <fstream>
#include <iostream>
#include <map>
#include <sstream>
#include <string>
#include <vector>

namespace sg4 = simgrid::s4u;
using simgrid::kernel::routing::NetPoint;

static std::string out; // per-case output buffer, flushed by one write()

static void flush_out();
static void emit(const std::string& s)
{
  out += s;
  out += '\n';
  if (out.size() > (1u << 20))
    flush_out();
}
static void flush_out()
{
  size_t off = 0;
  while (off < out.size()) {
    ssize_t w = write(1, out.data() + off, out.size() - off);
    if (w <= 0)
      break;
    off += w;
  }
  out.clear();
}

static std::vector<std::string> split(const std::string& s, char sep)
{
  std::vector<std::string> r;
  std::string cur;
  for (char c : s) {
    if (c == sep) {
      r.push_back(cur);
      cur.clear();
    } else
      cur += c;
  }
  r.push_back(cur);
  return r;
}
static std::vector<unsigned long> ulist(const std::string& s)
{
  std::vector<unsigned long> r;
  for (auto const& t : split(s, ','))
    r.push_back(std::stoul(t));
  return r;
}
static std::vector<unsigned int> uilist(const std::string& s)
{
  std::vector<unsigned int> r;
  for (auto const& t : split(s, ','))
    r.push_back(static_cast<unsigned int>(std::stoul(t)));
  return r;
}
static std::string oneline(std::string s)
{
  for (char& c : s)
    if (c == '\n' || c == '\r')
      c = ' ';
  if (s.size() > 300)
    s.resize(300);
  return s;
}
static std::string coords_str(const std::string& s)
{
  std::string r = s;
  std::replace(r.begin(), r.end(), ',', ' ');
  return r;
}

struct Builder {
  sg4::Engine* e;
  std::map<std::string, sg4::NetZone*> zones;
  std::map<std::string, sg4::Host*> hosts;
  std::map<std::string, NetPoint*> routers;
  std::map<std::string, sg4::Link*> links;              // plain links
  std::map<std::string, sg4::SplitDuplexLink*> sdlinks; // split-duplex links
  bool sealed = false;
  std::vector<std::string> host_names; // sorted, filled by the first qall
  std::map<const sg4::Link*, int> link_index; // filled by the "links" directive; routes are then printed as indices

  NetPoint* np(const std::string& n)
  {
    if (n == "*" || n == "-")
      return nullptr;
    if (auto h = hosts.find(n); h != hosts.end())
      return h->second->get_netpoint();
    if (auto r = routers.find(n); r != routers.end())
      return r->second;
    if (auto z = zones.find(n); z != zones.end())
      return z->second->get_netpoint();
    NetPoint* p = e->netpoint_by_name_or_null(n); // hosts created by cluster callbacks or by XML
    if (not p)
      throw std::invalid_argument("routex: unknown netpoint " + n);
    return p;
  }
  sg4::Host* host(const std::string& n)
  {
    if (auto h = hosts.find(n); h != hosts.end())
      return h->second;
    return e->host_by_name(n);
  }

  std::vector<sg4::LinkInRoute> linklist(const std::string& s)
  {
    std::vector<sg4::LinkInRoute> r;
    if (s == "-" || s.empty())
      return r;
    for (auto const& t : split(s, ',')) {
      auto parts = split(t, ':');
      if (auto sd = sdlinks.find(parts[0]); sd != sdlinks.end()) {
        auto dir = sg4::LinkInRoute::Direction::NONE;
        if (parts.size() > 1)
          dir = parts[1] == "U" ? sg4::LinkInRoute::Direction::UP : sg4::LinkInRoute::Direction::DOWN;
        r.emplace_back(sd->second, dir);
      } else if (auto l = links.find(parts[0]); l != links.end()) {
        r.emplace_back(l->second);
      } else {
        r.emplace_back(e->link_by_name(parts[0]));
      }
    }
    return r;
  }

  void add_zone(const std::vector<std::string>& tok)
  {
    const std::string& name = tok[1];
    sg4::NetZone* parent    = tok[2] == "-" ? e->get_netzone_root() : zones.at(tok[2]);
    const std::string& kind = tok[3];
    std::map<std::string, std::string> kv;
    for (size_t i = 4; i < tok.size(); i++) {
      auto p = tok[i].find('=');
      kv[tok[i].substr(0, p)] = p == std::string::npos ? "" : tok[i].substr(p + 1);
    }
    auto get = [&kv](const std::string& k, const std::string& d) {
      auto it = kv.find(k);
      return it == kv.end() ? d : it->second;
    };
    sg4::NetZone* z = nullptr;
    if (kind == "full")
      z = parent->add_netzone_full(name);
    else if (kind == "floyd")
      z = parent->add_netzone_floyd(name);
    else if (kind == "dijkstra")
      z = parent->add_netzone_dijkstra(name, false);
    else if (kind == "dijkstracache")
      z = parent->add_netzone_dijkstra(name, true);
    else if (kind == "star")
      z = parent->add_netzone_star(name);
    else if (kind == "vivaldi")
      z = parent->add_netzone_vivaldi(name);
    else if (kind == "empty")
      z = parent->add_netzone_empty(name);
    else if (kind == "wifi") {
      z = parent->add_netzone_wifi(name);
      if (kv.count("ap"))
        z->set_property("access_point", kv["ap"]);
    } else if (kind == "torus" || kind == "fattree" || kind == "dragonfly") {
      std::string pol = get("pol", "D");
      auto policy     = pol == "D"   ? sg4::Link::SharingPolicy::SPLITDUPLEX
                        : pol == "S" ? sg4::Link::SharingPolicy::SHARED
                                     : sg4::Link::SharingPolicy::FATPIPE;
      double lat      = std::stod(get("lat", "0.001"));
      if (kind == "torus")
        z = parent->add_netzone_torus(name, ulist(kv.at("dims")), 1e9, lat, policy);
      else if (kind == "fattree")
        z = parent->add_netzone_fatTree(name, static_cast<unsigned int>(std::stoul(kv.at("lv"))), uilist(kv.at("down")),
                                        uilist(kv.at("up")), uilist(kv.at("cnt")), 1e9, lat, policy);
      else {
        auto g = uilist(kv.at("g"));
        auto c = uilist(kv.at("c"));
        auto r = uilist(kv.at("r"));
        z      = parent->add_netzone_dragonfly(name, {g[0], g[1]}, {c[0], c[1]}, {r[0], r[1]},
                                               static_cast<unsigned int>(std::stoul(kv.at("n"))), 1e9, lat, policy);
      }
      bool lb       = get("lb", "0") == "1";
      bool lim      = get("lim", "0") == "1";
      double lblat  = std::stod(get("lblat", "0.0005"));
      double limlat = std::stod(get("limlat", "0"));
      auto cname    = [](const std::vector<unsigned long>& coord, unsigned long id) {
        std::string s;
        for (auto c : coord)
          s += std::to_string(c) + ".";
        return s + "i" + std::to_string(id);
      };
      if (get("leaf", "host") == "host") {
        z->set_host_cb([this, name](sg4::NetZone* zone, const std::vector<unsigned long>&, unsigned long id) {
          auto* h                              = zone->add_host(name + "h" + std::to_string(id), 1e9);
          hosts[name + "h" + std::to_string(id)] = h;
          return h;
        });
      } else {
        // each leaf is a star zone of <leafn> hosts, host 0 is the gateway; host k has private link <leaf>l<k> (split duplex)
        int leafn   = std::stoi(get("leafn", "2"));
        long zonegw = std::stol(get("leafgw", "-1")); // leaf whose host 0 becomes the cluster zone's own gateway
        z->set_netzone_cb([this, name, leafn, zonegw](sg4::NetZone* zone, const std::vector<unsigned long>&,
                                                       unsigned long id) {
          std::string ln = name + "z" + std::to_string(id);
          auto* leaf     = zone->add_netzone_star(ln);
          zones[ln]      = leaf;
          for (int k = 0; k < leafn; k++) {
            std::string hn = ln + "h" + std::to_string(k);
            auto* h        = leaf->add_host(hn, 1e9);
            hosts[hn]      = h;
            if (k == 0)
              leaf->set_gateway(h->get_netpoint());
            auto* l = leaf->add_split_duplex_link(ln + "l" + std::to_string(k), 1e9);
            l->set_latency(0.0001 * (k + 1));
            sdlinks[ln + "l" + std::to_string(k)] = l;
            leaf->add_route(h, nullptr, {{l, sg4::LinkInRoute::Direction::UP}}, true);
          }
          leaf->seal();
          if (zonegw == static_cast<long>(id))
            zone->set_gateway(hosts.at(ln + "h0")->get_netpoint());
          return leaf;
        });
      }
      if (lb)
        z->set_loopback_cb([cname, lblat](sg4::NetZone* zone, const std::vector<unsigned long>& coord, unsigned long id) {
          return zone->add_link(zone->get_name() + "~loop~" + cname(coord, id), 1e9)
              ->set_sharing_policy(sg4::Link::SharingPolicy::FATPIPE)
              ->set_latency(lblat)
              ->seal();
        });
      if (lim)
        z->set_limiter_cb([cname, limlat](sg4::NetZone* zone, const std::vector<unsigned long>& coord, unsigned long id) {
          return zone->add_link(zone->get_name() + "~lim~" + cname(coord, id), 1e9)->set_latency(limlat)->seal();
        });
    } else
      throw std::invalid_argument("routex: unknown zone kind " + kind);
    zones[name] = z;
  }

  void sealall()
  {
    if (not sealed) {
      e->get_netzone_root()->seal();
      sealed = true;
    }
  }

  void query(const std::string& s, const std::string& d)
  {
    sealall();
    std::vector<sg4::Link*> l;
    double lat = 0;
    try {
      host(s)->route_to(host(d), l, &lat);
      char buf[64];
      snprintf(buf, sizeof buf, "%.17g", lat);
      std::string line = "P " + s + " " + d + " " + buf + " " + std::to_string(l.size());
      for (auto const* k : l) {
        if (link_index.empty())
          line += " " + k->get_name();
        else if (auto it = link_index.find(k); it != link_index.end())
          line += " " + std::to_string(it->second);
        else
          line += " ?" + k->get_name();
      }
      emit(line);
    } catch (const std::exception& ex) {
      emit("X " + s + " " + d + " " + oneline(ex.what()));
    }
  }

  void query_compact(sg4::Host* s, sg4::Host* d)
  {
    std::vector<sg4::Link*> l;
    double lat = 0;
    try {
      s->route_to(d, l, &lat);
      char buf[64];
      int n = snprintf(buf, sizeof buf, "p %.17g", lat);
      std::string& o = out;
      o.append(buf, n);
      for (auto const* k : l) {
        if (link_index.empty()) {
          o += ' ';
          o += k->get_name();
        } else if (auto it = link_index.find(k); it != link_index.end()) {
          n = snprintf(buf, sizeof buf, " %d", it->second);
          o.append(buf, n);
        } else {
          o += " ?";
          o += k->get_name();
        }
      }
      o += '\n';
      if (o.size() > (1u << 20))
        flush_out();
    } catch (const std::exception& ex) {
      emit("x " + oneline(ex.what()));
    }
  }

  void directive(const std::vector<std::string>& t)
  {
    const std::string& d = t[0];
    if (d == "zone")
      add_zone(t);
    else if (d == "host") {
      auto* h     = zones.at(t[1])->add_host(t[2], 1e9);
      hosts[t[2]] = h;
      if (t.size() > 3)
        h->set_coordinates(coords_str(t[3]));
    } else if (d == "router") {
      auto* r       = zones.at(t[1])->add_router(t[2]);
      routers[t[2]] = r;
      if (t.size() > 3)
        r->set_coordinates(coords_str(t[3]));
    } else if (d == "zcoord") {
      zones.at(t[1])->get_netpoint()->set_coordinates(coords_str(t[2]));
    } else if (d == "link") {
      double lat = std::stod(t[3]);
      if (t[4] == "D")
      {
        auto* sd = zones.at(t[1])->add_split_duplex_link(t[2], 1e9);
        sd->set_latency(lat);
        sdlinks[t[2]] = sd;
      }
      else if (t[4] == "W")
        links[t[2]] = zones.at(t[1])->add_link(t[2], std::vector<double>{1e7, 2e7})->set_latency(lat);
      else
        links[t[2]] = zones.at(t[1])
                          ->add_link(t[2], 1e9)
                          ->set_latency(lat)
                          ->set_sharing_policy(t[4] == "F" ? sg4::Link::SharingPolicy::FATPIPE
                                                           : sg4::Link::SharingPolicy::SHARED);
    } else if (d == "gw") {
      zones.at(t[1])->set_gateway(np(t[2]));
    } else if (d == "route") {
      auto* z   = zones.at(t[1]);
      bool sym  = t[4] == "1";
      auto ll   = linklist(t[5]);
      bool sh   = t[2] == "*" || hosts.count(t[2]);
      bool dh   = t[3] == "*" || hosts.count(t[3]);
      bool sz   = t[2] == "*" || zones.count(t[2]);
      bool dz   = t[3] == "*" || zones.count(t[3]);
      bool star = t[2] == "*" && t[3] == "*";
      if (sh && dh && not star)
        z->add_route(t[2] == "*" ? nullptr : hosts.at(t[2]), t[3] == "*" ? nullptr : hosts.at(t[3]), ll, sym);
      else if (sz && dz && not star)
        z->add_route(t[2] == "*" ? nullptr : zones.at(t[2]), t[3] == "*" ? nullptr : zones.at(t[3]), ll, sym);
      else if (t[2] != "*" && t[3] != "*" && not np(t[2])->is_netzone() && not np(t[3])->is_netzone())
        z->add_route(np(t[2]), np(t[3]), ll, sym);
      else
        z->get_impl()->add_route(np(t[2]), np(t[3]), nullptr, nullptr, ll, sym);
    } else if (d == "groute") {
      zones.at(t[1])->get_impl()->add_route(np(t[2]), np(t[3]), np(t[4]), np(t[5]), linklist(t[7]), t[6] == "1");
    } else if (d == "bypass") {
      zones.at(t[1])->add_bypass_route(np(t[2]), np(t[3]), np(t[4]), np(t[5]), linklist(t[6]));
    } else if (d == "xml") {
      e->load_platform(t[1]);
      sealed = true;
    } else if (d == "seal") {
      zones.at(t[1])->seal();
    } else if (d == "sealall") {
      sealall();
    } else if (d == "links") {
      sealall();
      auto all = e->get_all_links();
      std::sort(all.begin(), all.end(), [](const sg4::Link* a, const sg4::Link* b) { return a->get_name() < b->get_name(); });
      int n = 0;
      for (auto const* l : all) {
        char buf[64];
        snprintf(buf, sizeof buf, "%.17g", l->get_latency());
        const auto* lz = l->get_impl()->get_englobing_zone(); // null for the model's __loopback__
        emit("LK " + l->get_name() + " " + buf + " " + (lz ? lz->get_name() : std::string("-")));
        link_index[l] = n++; // index = rank of the LK line inside this case
      }
    } else if (d == "q") {
      query(t[1], t[2]);
    } else if (d == "qall") {
      sealall();
      std::string prefix = t.size() > 1 ? t[1] : "";
      bool desc          = false;
      bool noself        = false; // self pairs are answered "p 0" without asking SimGrid
      for (size_t i = 2; i < t.size(); i++) {
        desc   = desc || t[i] == "desc";
        noself = noself || t[i] == "noself";
      }
      if (host_names.empty()) { // Engine::get_all_hosts() sorts all hosts at every call: ask once
        for (auto const* h : e->get_all_hosts())
          host_names.push_back(h->get_name());
        std::sort(host_names.begin(), host_names.end());
      }
      std::vector<std::string> names;
      for (auto it = std::lower_bound(host_names.begin(), host_names.end(), prefix);
           it != host_names.end() && it->compare(0, prefix.size(), prefix) == 0; ++it)
        names.push_back(*it);
      if (desc)
        std::reverse(names.begin(), names.end());
      // compact form: one header, then one "p"/"x" line per ordered pair in row-major order of the header's names
      std::string head = "QA " + prefix + " " + std::to_string(names.size());
      for (auto const& s : names)
        head += " " + s;
      emit(head);
      std::vector<sg4::Host*> hs;
      for (auto const& s : names)
        hs.push_back(host(s));
      for (auto* s : hs)
        for (auto* dd : hs) {
          if (noself && s == dd)
            emit("p 0");
          else
            query_compact(s, dd);
        }
    } else
      throw std::invalid_argument("routex: unknown directive " + d);
  }
};

static int run_case(const std::string& id, const std::vector<std::string>& lines)
{
  int argc           = 2;
  const char* args[] = {"routex", "--log=root.thres:critical", nullptr};
  char** argv        = const_cast<char**>(args);
  sg4::Engine e(&argc, argv);
  Builder b;
  b.e = &e;
  emit("CASE " + id);
  for (auto const& line : lines) {
    std::istringstream is(line);
    std::vector<std::string> tok;
    std::string w;
    while (is >> w)
      tok.push_back(w);
    if (tok.empty())
      continue;
    try {
      b.directive(tok);
    } catch (const std::exception& ex) {
      emit("BUILDERR " + tok[0] + " " + oneline(ex.what()));
      break;
    }
  }
  emit("END " + id);
  flush_out();
  fflush(nullptr);
  _exit(0);
}

int main(int argc, char** argv)
{
  if (argc < 2) {
    fprintf(stderr, "usage: routex <cases-file>\n");
    return 2;
  }
  std::ifstream in(argv[1]);
  if (not in) {
    fprintf(stderr, "routex: cannot read %s\n", argv[1]);
    return 2;
  }
  std::string line;
  std::string id;
  std::vector<std::string> lines;
  bool in_case = false;
  while (std::getline(in, line)) {
    if (line.compare(0, 5, "CASE ") == 0) {
      id      = line.substr(5);
      in_case = true;
      lines.clear();
    } else if (line == "END" && in_case) {
      in_case = false;
      int efd = memfd_create("routex-err", 0);
      pid_t p = fork();
      if (p == 0) {
        const char* to = getenv("ROUTEX_TIMEOUT"); // a case that hangs dies of SIGALRM and is reported as CRASH sig=14
        alarm(to ? atoi(to) : 600);
        if (const char* cpu = getenv("ROUTEX_CPU")) { // CPU-time limit (robust on a loaded machine): SIGXCPU = sig 24
          struct rlimit rl = {static_cast<rlim_t>(atoi(cpu)), static_cast<rlim_t>(atoi(cpu) + 1)};
          setrlimit(RLIMIT_CPU, &rl);
        }
        struct rlimit mem = {3UL << 30, 3UL << 30}; // a route that grows for ever must not eat the machine
        setrlimit(RLIMIT_AS, &mem);
        if (efd >= 0)
          dup2(efd, 2);
        run_case(id, lines);
        _exit(0);
      }
      int st = 0;
      waitpid(p, &st, 0);
      if (not WIFEXITED(st) || WEXITSTATUS(st) != 0) {
        std::string err;
        if (efd >= 0) {
          char buf[4096];
          off_t sz = lseek(efd, 0, SEEK_END);
          off_t from = sz > 600 ? sz - 600 : 0;
          lseek(efd, from, SEEK_SET);
          ssize_t n = read(efd, buf, sizeof buf - 1);
          if (n > 0)
            err.assign(buf, n);
        }
        int sig = WIFSIGNALED(st) ? WTERMSIG(st) : 0;
        emit("CRASH " + id + " sig=" + std::to_string(sig) + " exit=" + std::to_string(WIFEXITED(st) ? WEXITSTATUS(st) : -1) +
             " " + oneline(err));
        flush_out();
      }
      if (efd >= 0)
        close(efd);
    } else if (in_case) {
      lines.push_back(line);
    }
  }
  return 0;
}
