// E1 `vx`: exhaustive explorer of the REAL SimGrid kernel in MC-mode semantics (see DESIGN.md §4 E1).
//
//   vx explore <programs-file> <out-file> [stateless|stateful] [maxstates]
//       every interleaving of every program of the file; one forked child per program (forked before the Engine exists),
//       inside it depth-first search with fork at branch points (the last alternative continues in-process).
//   vx run <programs-file> <index>        plain Engine::run() of one program (application for simgrid-mc / normal mode)
//   vx pairs <programs-file> <out-file>   C39: in every distinct state, every ordered pair of enabled actors, both orders
//
// Program text format (one or more programs per file):
//   P <id>                        start of program
//   O mutex <recursive 0|1> | O sem <cap> | O cv | O bar <n> | O mbox | O mq | O var <init>     objects, ids by kind in order
//   A                             start of a top-level actor (pids 1,2,.. in order);   T   start of a child template
//     <op> <args...>              ops, see do_op()
//   E                             end of program
// Output (explore): per program  "P <id>", then "S <sid> <canonical state>|E:<enabled aid/maxconsider list>" and
//   "T <from> <aid>/<k> <to> <transition text>", "R <paths> <states> <transitions> <status>".
#include <simgrid/s4u.hpp>
#include <simgrid/modelchecker.h>
#include "src/kernel/EngineImpl.hpp"
#include "src/kernel/actor/ActorImpl.hpp"
#include "src/kernel/actor/SimcallObserver.hpp"
#include "src/kernel/actor/SynchroObserver.hpp"
#include "src/kernel/actor/WaitTestObserver.hpp"
#include "src/kernel/actor/CommObserver.hpp"
#include "src/kernel/activity/MutexImpl.hpp"
#include "src/kernel/activity/SemaphoreImpl.hpp"
#include "src/kernel/activity/ConditionVariableImpl.hpp"
#include "src/kernel/activity/BarrierImpl.hpp"
#include "src/kernel/activity/MailboxImpl.hpp"
#include "src/kernel/activity/MessageQueueImpl.hpp"
#include "src/kernel/activity/CommImpl.hpp"
#include "src/kernel/activity/MessImpl.hpp"
#include "src/mc/mc_replay.hpp"
#include "src/mc/mc_config.hpp"
#include "src/mc/remote/Channel.hpp"
#include "src/mc/transition/Transition.hpp"
#include "src/mc/explo/odpor/Execution.hpp"
#include <sys/wait.h>
#include <sys/mman.h>
#include <sys/socket.h>
#include <atomic>
#include <unordered_map>
#include <map>
#include <set>
#include <algorithm>
#include <fstream>
#include <sstream>
#include <cstring>
#include <ctime>

namespace sg4 = simgrid::s4u;
using namespace simgrid;

// ------------------------------------------------------------------------------------------------ program
struct Op { std::string name; std::vector<long> a; };
struct Program {
  std::string id;
  std::vector<int> mutex_rec; std::vector<int> sem_cap; int ncv = 0; std::vector<int> bar_n; int nmbox = 0; int nmq = 0;
  std::vector<long> var_init;
  std::vector<std::vector<Op>> actors, templates;
};
static std::vector<Program> parse(const char* file)
{
  std::vector<Program> res; std::ifstream in(file); std::string line; Program* p = nullptr; std::vector<Op>* cur = nullptr;
  while (std::getline(in, line)) {
    std::istringstream ss(line); std::string w; ss >> w; if (w.empty() || w[0] == '#') continue;
    if (w == "P") { res.emplace_back(); p = &res.back(); ss >> p->id; cur = nullptr; }
    else if (w == "O") { std::string k; long v = 0; ss >> k >> v;
      if (k == "mutex") p->mutex_rec.push_back(v); else if (k == "sem") p->sem_cap.push_back(v); else if (k == "cv") p->ncv++;
      else if (k == "bar") p->bar_n.push_back(v); else if (k == "mbox") p->nmbox++; else if (k == "mq") p->nmq++; else if (k == "var") p->var_init.push_back(v);
      else { fprintf(stderr, "vx: bad object %s\n", k.c_str()); exit(3); } }
    else if (w == "A") { p->actors.emplace_back(); cur = &p->actors.back(); }
    else if (w == "T") { p->templates.emplace_back(); cur = &p->templates.back(); }
    else if (w == "E") { p = nullptr; cur = nullptr; }
    else { Op o; o.name = w; long v; while (ss >> v) o.a.push_back(v); cur->push_back(o); }
  }
  return res;
}

// ------------------------------------------------------------------------------------------------ interpreter state
static const int MAXA = 12, MAXS = 4;
static const Program* PG;
static std::vector<sg4::MutexPtr> mutexes; static std::vector<sg4::SemaphorePtr> sems; static std::vector<sg4::ConditionVariablePtr> cvs;
static std::vector<sg4::BarrierPtr> bars; static std::vector<sg4::Mailbox*> mboxes; static std::vector<sg4::MessageQueue*> mqs;
static std::vector<long> vars;
static sg4::Host* HOST;
struct AState {
  bool used = false, done = false; int pc = 0; int ntrans = 0; long local = 0; std::string log;
  int hold[8] = {0};
  sg4::CommPtr comm[MAXS]; sg4::MessPtr mess[MAXS]; char slot[MAXS] = {'-', '-', '-', '-'};
  long* rbuf[MAXS] = {nullptr, nullptr, nullptr, nullptr};
  char pres = '-';             // result of a CONDVAR_WAIT transition not yet returned to the actor's code (hidden state)
  std::vector<long> children;  // pids of created children, in creation order
  std::vector<sg4::ActorPtr> child_ptr;
  const std::vector<Op>* ops = nullptr;
};
static AState AS[MAXA + 1];
static bool assertion_failed = false, run_mode = false; // run_mode: plain Engine::run() main (application under simgrid-mc)
static long payload_store[256]; static int payload_n = 0; // stable addresses for payloads

static void alog(AState& s, const std::string& e) { if (!s.log.empty()) s.log += ","; s.log += e; }
struct MatchData { long tag; long want; }; // tag of a send; want of a receive (-1: any)
static bool match_fun(void* mine, void* theirs, kernel::activity::CommImpl*)
{ // called as match_fun(this_side_data, other_side_data): a receive that wants tag w accepts only sends with that tag
  auto* m = static_cast<MatchData*>(mine); auto* t = static_cast<MatchData*>(theirs);
  if (m && m->want >= 0) return t && t->tag == m->want;
  if (t && t->want >= 0) return m && m->tag == t->want;
  return true;
}
static MatchData match_store[256]; static int match_n = 0;

static void run_ops(int me);
static void do_op(int me, AState& s, const Op& o)
{
  const std::string& n = o.name; auto A = [&](int i) { return o.a.at(i); };
  if (n == "lock") { mutexes[A(0)]->lock(); s.hold[A(0)]++; }
  else if (n == "trylock") { bool r = mutexes[A(0)]->try_lock(); if (r) s.hold[A(0)]++; alog(s, r ? "t1" : "t0"); }
  else if (n == "unlock") { if (s.hold[A(0)] > 0) { s.hold[A(0)]--; mutexes[A(0)]->unlock(); } }
  else if (n == "owner") { auto* ow = mutexes[A(0)]->get_owner(); alog(s, "o" + std::to_string(ow ? ow->get_pid() : 0)); } // local op
  else if (n == "acq") { sems[A(0)]->acquire(); }
  else if (n == "acqt") { bool to = sems[A(0)]->acquire_timeout(1.0); alog(s, to ? "T1" : "T0"); }
  else if (n == "rel") { sems[A(0)]->release(); }
  else if (n == "cap") { alog(s, "c" + std::to_string(sems[A(0)]->get_capacity())); } // local op
  else if (n == "cwait" || n == "cwaitfor") { // requires the mutex: takes it if not held (well-formed by construction)
    int m = A(1); bool took = false; if (s.hold[m] == 0) { mutexes[m]->lock(); s.hold[m]++; took = true; }
    if (n == "cwait") cvs[A(0)]->wait(mutexes[m]); else { auto r = cvs[A(0)]->wait_for(mutexes[m], 1.0); alog(s, r == std::cv_status::timeout ? "W1" : "W0"); }
    s.pres = '-';
    auto* ow = mutexes[m]->get_owner(); alog(s, (ow && ow->get_pid() == sg4::this_actor::get_pid()) ? "own" : "NOTOWNER");
    if (took) { s.hold[m]--; mutexes[m]->unlock(); } }
  else if (n == "notify") cvs[A(0)]->notify_one();
  else if (n == "notifyall") cvs[A(0)]->notify_all();
  else if (n == "bwait") { int r = bars[A(0)]->wait(); alog(s, r ? "b1" : "b0"); }
  else if (n == "put") { long* p = &payload_store[payload_n++]; *p = A(1); mboxes[A(0)]->put(p, 8); }
  else if (n == "get") { long* p = mboxes[A(0)]->get<long>(); alog(s, "r" + std::to_string(*p)); }
  else if (n == "puta") { long* p = &payload_store[payload_n++]; *p = A(1); s.comm[A(2)] = mboxes[A(0)]->put_async(p, 8); s.slot[A(2)] = 's'; }
  else if (n == "geta") { s.rbuf[A(1)] = nullptr; s.comm[A(1)] = mboxes[A(0)]->get_async<long>(&s.rbuf[A(1)]); s.slot[A(1)] = 'r'; }
  else if (n == "detach") { long* p = &payload_store[payload_n++]; *p = A(1); mboxes[A(0)]->put_init(p, 8)->detach(); }
  else if (n == "wait") { int k = A(0); if (s.slot[k] == 's' || s.slot[k] == 'r') { s.comm[k]->wait(); if (s.slot[k] == 'r') alog(s, "r" + std::to_string(s.rbuf[k] ? *s.rbuf[k] : -1)); s.slot[k] = 'D'; s.comm[k] = nullptr; } }
  else if (n == "test") { int k = A(0); if (s.slot[k] == 's' || s.slot[k] == 'r') { bool r = s.comm[k]->test(); alog(s, r ? "e1" : "e0"); if (r) { if (s.slot[k] == 'r') alog(s, "r" + std::to_string(s.rbuf[k] ? *s.rbuf[k] : -1)); s.slot[k] = 'D'; s.comm[k] = nullptr; } } }
  else if (n == "waitany" || n == "testany") { sg4::ActivitySet set; std::vector<int> ks; for (int k = 0; k < MAXS; k++) if (s.slot[k] == 's' || s.slot[k] == 'r') { set.push(s.comm[k]); ks.push_back(k); }
    if (!ks.empty()) { sg4::ActivityPtr got = n == "waitany" ? set.wait_any() : set.test_any(); int idx = -1;
      for (size_t i = 0; i < ks.size(); i++) if (got && got.get() == s.comm[ks[i]].get()) idx = ks[i];
      alog(s, (n == "waitany" ? "w" : "y") + std::to_string(idx));
      if (idx >= 0) { if (s.slot[idx] == 'r') alog(s, "r" + std::to_string(s.rbuf[idx] ? *s.rbuf[idx] : -1)); s.slot[idx] = 'D'; s.comm[idx] = nullptr; } } }
  else if (n == "iprobe") { // kind 0: is a send pending (as a receiver would see it)? 1: is a receive pending?
    auto* mb = mboxes[A(0)]->get_impl(); auto kind = A(1) == 0 ? sg4::Mailbox::IprobeKind::RECV : sg4::Mailbox::IprobeKind::SEND;
    bool r = mboxes[A(0)]->iprobe(kind, nullptr, nullptr) != nullptr; (void)mb; alog(s, r ? "i1" : "i0"); }
  else if (n == "sendf") { long* p = &payload_store[payload_n++]; *p = A(1); MatchData* md = &match_store[match_n++]; md->tag = A(2); md->want = -1;
    sg4::Comm::send(kernel::actor::ActorImpl::self(), mboxes[A(0)], 8, -1, p, sizeof(long*), match_fun, nullptr, md, -1); }
  else if (n == "recvf") { long* got = nullptr; size_t sz = sizeof(long*); MatchData* md = &match_store[match_n++]; md->tag = -1; md->want = A(1);
    sg4::Comm::recv(kernel::actor::ActorImpl::self(), mboxes[A(0)], &got, &sz, match_fun, nullptr, md, -1, -1); alog(s, "r" + std::to_string(got ? *got : -1)); }
  else if (n == "setrecv") mboxes[A(0)]->set_receiver(sg4::Actor::self());
  else if (n == "mput") { long* p = &payload_store[payload_n++]; *p = A(1); mqs[A(0)]->put(p); }
  else if (n == "mget") { long* p = mqs[A(0)]->get<long>(); alog(s, "r" + std::to_string(*p)); }
  else if (n == "mputa") { long* p = &payload_store[payload_n++]; *p = A(1); s.mess[A(2)] = mqs[A(0)]->put_async(p); s.slot[A(2)] = 'S'; }
  else if (n == "mgeta") { s.rbuf[A(1)] = nullptr; s.mess[A(1)] = mqs[A(0)]->get_async<long>(&s.rbuf[A(1)]); s.slot[A(1)] = 'R'; }
  else if (n == "mwait") { int k = A(0); if (s.slot[k] == 'S' || s.slot[k] == 'R') { s.mess[k]->wait(); if (s.slot[k] == 'R') alog(s, "r" + std::to_string(s.rbuf[k] ? *s.rbuf[k] : -1)); s.slot[k] = 'D'; s.mess[k] = nullptr; } }
  else if (n == "rd") s.local = vars[A(0)];                       // local ops on shared variables
  else if (n == "wr") vars[A(0)] = s.local + A(1);
  else if (n == "set") vars[A(0)] = A(1);
  else if (n == "logv") alog(s, "v" + std::to_string(vars[A(0)]));
  else if (n == "assert") { if (vars[A(0)] != A(1)) { alog(s, "ASSERTFAIL"); assertion_failed = true; if (run_mode) MC_assert(0); } }
  else if (n == "random") { int r = MC_random(A(0), A(1)); alog(s, "n" + std::to_string(r)); }
  else if (n == "sleep") sg4::this_actor::sleep_for(1.0);
  else if (n == "create") { int t = A(0); sg4::ActorPtr c = sg4::Actor::create("c", HOST, [] { run_ops(sg4::this_actor::get_pid()); });
    (void)t; s.children.push_back(c->get_pid()); s.child_ptr.push_back(c); }
  else if (n == "join") { size_t k = A(0); if (k < s.children.size()) { s.child_ptr[k]->join(); alog(s, "j"); } }
  else if (n == "joinp") { auto c = sg4::Actor::by_pid(A(0)); if (c) c->join(); alog(s, "j"); }
  else if (n == "exit") sg4::this_actor::exit();
  else { fprintf(stderr, "vx: unknown op %s\n", n.c_str()); _exit(3); }
}
static int child_template_of[MAXA + 1];
static void run_ops(int me)
{
  AState& s = AS[me];
  s.used = true;
  if (!s.ops) { // a created child: its template index was recorded by the parent right before the create
    s.ops = &PG->templates.at(child_template_of[me]);
  }
  sg4::this_actor::on_exit([me](bool) { AS[me].done = true; });
  for (s.pc = 0; s.pc < (int)s.ops->size(); s.pc++) {
    const Op& o = (*s.ops)[s.pc];
    if (o.name == "create") child_template_of[kernel::actor::ActorImpl::get_maxpid()] = o.a.at(0);
    do_op(me, s, o);
  }
  s.pc = -1;
}

// ------------------------------------------------------------------------------------------------ kernel driving
static kernel::EngineImpl* EI;
static void quiesce()
{
  while (EI->has_actors_to_run()) {
    EI->run_all_actors();
    for (auto const& actor : EI->get_actors_that_ran()) {
      const kernel::actor::Simcall* req = &actor->simcall_;
      if (req->call_ != kernel::actor::Simcall::Type::NONE && !(req->observer_ && req->observer_->is_visible()))
        actor->simcall_handle(0);
    }
  }
}
static void handle(kernel::actor::ActorImpl* a, int k)
{ // execute one visible transition of actor a (as AppSide::handle_simcall_execute does), recording hidden results
  long pid = a->get_pid();
  AS[pid].ntrans++;
  a->simcall_handle(k);
  if (auto* o = dynamic_cast<kernel::actor::ConditionVariableObserver*>(a->simcall_.observer_); o && o->get_type() == mc::Transition::Type::CONDVAR_WAIT)
    AS[pid].pres = o->get_result() ? '1' : '0';
}
struct En { kernel::actor::ActorImpl* a; int maxc; };
static std::vector<En> enabled_list()
{ // exactly as AppSide::send_actor_status: once per quiescent state, in pid order (is_enabled has side effects)
  std::vector<En> r;
  for (auto& [pid, a] : EI->get_actor_list()) {
    auto* req = &a->simcall_; bool en; int mc = 1;
    if (req->observer_) { en = req->observer_->is_enabled(); mc = req->observer_->get_max_consider(); }
    else en = req->call_ != kernel::actor::Simcall::Type::NONE;
    if (en && mc > 0) r.push_back({a, mc});
  }
  return r;
}
static std::string pidlist_mutex(kernel::activity::MutexImpl* m)
{
  std::string s = "[";
  bool first = true;
  for (auto& acq : m->ongoing_acquisitions_) { if (!first) s += ","; first = false; s += std::to_string(acq->issuer_->get_pid()); if (m->is_recursive_) s += "/" + std::to_string(acq->recursive_depth_); if (acq->granted_) s += "g"; }
  return s + "]";
}
template <class Q, class F> static std::string qstr(Q& q, F f) { std::string s = "["; bool first = true; for (auto& e : q) { if (!first) s += ","; first = false; s += f(e); } return s + "]"; }
static std::string comm_entry(const kernel::activity::CommImplPtr& c)
{
  std::string s;
  if (c->get_type() == kernel::activity::CommImplType::SEND) {
    s = "S" + std::to_string(c->src_actor_ ? c->src_actor_->get_pid() : 0) + "=" + std::to_string(c->src_buff_ ? *reinterpret_cast<long*>(c->src_buff_) : -1);
    auto* md = static_cast<MatchData*>(c->src_match_data_); if (md) s += "t" + std::to_string(md->tag);
    if (c->detached_) s += "d";
  } else {
    s = "R" + std::to_string(c->dst_actor_ ? c->dst_actor_->get_pid() : 0);
    auto* md = static_cast<MatchData*>(c->dst_match_data_); if (md && md->want >= 0) s += "f" + std::to_string(md->want);
  }
  return s;
}
static std::string comm_peer(kernel::activity::CommImpl* ci)
{
  if (!((ci->src_actor_ && ci->dst_actor_) || ci->get_state() == kernel::activity::State::DONE)) return "U";
  return "M" + std::to_string(ci->src_actor_ ? ci->src_actor_->get_pid() : 0) + ">" + std::to_string(ci->dst_actor_ ? ci->dst_actor_->get_pid() : 0) + "=" + std::to_string(ci->src_buff_ ? *reinterpret_cast<long*>(ci->src_buff_) : -1);
}
static std::string mess_peer(kernel::activity::MessImpl* mi)
{
  if (!((mi->src_actor_ && mi->dst_actor_) || mi->get_state() == kernel::activity::State::DONE)) return "U";
  return "M" + std::to_string(mi->src_actor_ ? mi->src_actor_->get_pid() : 0) + ">" + std::to_string(mi->dst_actor_ ? mi->dst_actor_->get_pid() : 0) + "=" + std::to_string(mi->payload_ ? *static_cast<long*>(mi->payload_) : -1);
}
static std::string canonical()
{
  std::string s;
  int maxpid = kernel::actor::ActorImpl::get_maxpid();
  for (int pid = 1; pid < maxpid && pid <= MAXA; pid++) {
    AState& a = AS[pid];
    bool alive = EI->get_actor_by_pid(pid) != nullptr;
    s += "A" + std::to_string(pid) + ":" + (alive ? std::to_string(a.pc) : std::string("X")) + ":" + std::to_string(a.ntrans) + ":" + a.log + ":l" + std::to_string(a.local) + ":k";
    for (int k = 0; k < MAXS; k++) { char c = a.slot[k];
      if (c == 's' || c == 'r') s += comm_peer(static_cast<kernel::activity::CommImpl*>(a.comm[k]->get_impl()));
      else if (c == 'S' || c == 'R') s += mess_peer(static_cast<kernel::activity::MessImpl*>(a.mess[k]->get_impl()));
      else s += c; }
    // the communication a blocking put/get is waiting for (which peer was matched is part of the state)
    if (alive) if (auto* act = EI->get_actor_by_pid(pid); act->simcall_.observer_)
      if (auto* w = dynamic_cast<kernel::actor::ActivityWaitSimcall*>(act->simcall_.observer_)) {
        bool in_slot = false;
        for (int k = 0; k < MAXS; k++) if ((a.comm[k] && a.comm[k]->get_impl() == w->get_activity()) || (a.mess[k] && a.mess[k]->get_impl() == w->get_activity())) in_slot = true;
        if (!in_slot) { if (auto* ci = dynamic_cast<kernel::activity::CommImpl*>(w->get_activity())) s += ":w" + comm_peer(ci); else if (auto* mi = dynamic_cast<kernel::activity::MessImpl*>(w->get_activity())) s += ":w" + mess_peer(mi); }
      }
    s += std::string(":p") + a.pres + ";";
  }
  if (!vars.empty()) { s += "V:"; for (size_t i = 0; i < vars.size(); i++) s += (i ? "," : "") + std::to_string(vars[i]); s += ";"; }
  for (size_t i = 0; i < mutexes.size(); i++) { auto* m = mutexes[i]->pimpl_;
    s += "M" + std::to_string(i) + ":o" + std::to_string(m->owner_ ? m->owner_->get_pid() : 0) + ":" + pidlist_mutex(m) + ";"; }
  for (size_t i = 0; i < sems.size(); i++) { auto* m = sems[i]->pimpl_;
    s += "S" + std::to_string(i) + ":v" + std::to_string(m->value_) + ":" + qstr(m->ongoing_acquisitions_, [](auto& q) { return std::to_string(q->get_issuer()->get_pid()) + (q->granted_ ? "g" : ""); }) + ";"; }
  for (size_t i = 0; i < cvs.size(); i++) { auto* m = cvs[i]->pimpl_;
    s += "C" + std::to_string(i) + ":" + qstr(m->ongoing_acquisitions_, [](auto& q) { return std::to_string(q->get_issuer()->get_pid()) + (q->granted_ ? "g" : ""); }) + ";"; }
  for (size_t i = 0; i < bars.size(); i++) { auto* m = bars[i]->pimpl_;
    s += "B" + std::to_string(i) + ":" + qstr(m->ongoing_acquisitions_, [](auto& q) { return std::to_string(q->get_issuer()->get_pid()) + (q->granted_ ? "g" : ""); }) + ";"; }
  for (size_t i = 0; i < mboxes.size(); i++) { auto* m = mboxes[i]->get_impl();
    s += "X" + std::to_string(i) + ":r" + std::to_string(m->permanent_receiver_ ? m->permanent_receiver_->get_pid() : 0) + ":q" + qstr(m->comm_queue_, comm_entry) + ":d" + qstr(m->done_comm_queue_, comm_entry) + ";"; }
  for (size_t i = 0; i < mqs.size(); i++) { auto* m = mqs[i]->get_impl();
    s += "Q" + std::to_string(i) + ":q" + qstr(m->queue_, [](auto& c) { return c->get_type() == kernel::activity::MessImplType::PUT ? "S" + std::to_string(c->src_actor_ ? c->src_actor_->get_pid() : 0) + "=" + std::to_string(c->payload_ ? *static_cast<long*>(c->payload_) : -1) : "R" + std::to_string(c->dst_actor_ ? c->dst_actor_->get_pid() : 0); }) + ";"; }
  if (assertion_failed) s += "ASSERTFAIL;";
  return s;
}
static std::string hidden()
{ // implementation fields that no reference state mentions but that may influence the future: part of the de-duplication key only
  std::string s = "|H:";
  for (size_t i = 0; i < mutexes.size(); i++) s += std::to_string(mutexes[i]->pimpl_->recursive_depth) + ",";
  return s;
}

// ------------------------------------------------------------------------------------------------ exploration by re-execution
// No fork per transition (fork is pathologically slow in this sandbox): a state is reached by re-creating the Engine inside the
// same process and re-executing the choice prefix that leads to it (engine set-up + tear-down ~2 ms).  One child process per
// *program* only, so that a crash of the kernel under test is confined to that program.
static int SOCK[2]; static mc::Channel *APP, *CHK;
static std::string transition_text(kernel::actor::ActorImpl* a, int k = 0)
{
  if (!a->simcall_.observer_) return "-";
  if (!getenv("VX_DECODE_MESS") && (dynamic_cast<kernel::actor::MessIputSimcall*>(a->simcall_.observer_) || dynamic_cast<kernel::actor::MessIgetSimcall*>(a->simcall_.observer_)))
    return "Mess(" + a->simcall_.observer_->to_string() + ")"; // decoding these hangs on the unchanged tree (C43): only done on request
  a->simcall_.observer_->serialize(*APP); a->get_memory_trace()->serialize(*APP); APP->send();
  mc::TransitionPtr t = mc::deserialize_transition((unsigned)a->get_pid(), k, *CHK); t->deserialize_memory_tracker(*CHK);
  return t->to_string(false);
}
static bool want_ttext = false, stateful = true; static long maxstates = 2000000;
static sg4::Engine* ENG = nullptr;
static std::vector<sg4::MutexPtr> g_mutexes; static std::vector<sg4::SemaphorePtr> g_sems; static std::vector<sg4::ConditionVariablePtr> g_cvs; static std::vector<sg4::BarrierPtr> g_bars;

static void setup(const Program& p, int* argc, char** argv)
{
  PG = &p;
  kernel::actor::ActorIDTrait::maxpid_ = 0;
  kernel::activity::MutexImpl::next_id_ = 0; kernel::activity::SemaphoreImpl::next_id_ = 0; kernel::activity::ConditionVariableImpl::next_id_ = 0;
  kernel::activity::BarrierImpl::next_id_ = 0; kernel::activity::MailboxImpl::next_id_ = 0; kernel::activity::CommImpl::next_id_ = 0;
  for (auto& a : AS) a = AState();
  assertion_failed = false; payload_n = 0; match_n = 0;
  for (auto& c : child_template_of) c = 0;
  mutexes.clear(); sems.clear(); cvs.clear(); bars.clear(); mboxes.clear(); mqs.clear();
  ENG = new sg4::Engine(argc, argv);
  auto* zone = ENG->get_netzone_root()->add_netzone_full("z");
  HOST = zone->add_host("h", 1e9);
  zone->seal();
  for (int r : p.mutex_rec) mutexes.push_back(sg4::Mutex::create(r != 0));
  for (int c : p.sem_cap) sems.push_back(sg4::Semaphore::create(c));
  for (int i = 0; i < p.ncv; i++) cvs.push_back(sg4::ConditionVariable::create());
  for (int n : p.bar_n) bars.push_back(sg4::Barrier::create(n));
  for (int i = 0; i < p.nmbox; i++) mboxes.push_back(sg4::Mailbox::by_name("b" + std::to_string(i)));
  for (int i = 0; i < p.nmq; i++) mqs.push_back(sg4::MessageQueue::by_name("q" + std::to_string(i)));
  vars = p.var_init;
  for (size_t i = 0; i < p.actors.size(); i++) { AS[i + 1].ops = &p.actors[i]; HOST->add_actor("a" + std::to_string(i + 1), [i] { run_ops(i + 1); }); }
  EI = kernel::EngineImpl::get_instance();
}
static void teardown()
{ // kill whatever is left (blocked actors), then destroy the engine; objects with pending acquisitions are leaked on purpose
  EI->get_maestro()->kill_all(); EI->run_all_actors(); EI->empty_trash();
  static std::vector<sg4::CommPtr> g_comms; static std::vector<sg4::MessPtr> g_mess; // leaked: no destructor path is exercised by the harness itself
  for (auto& a : AS) { for (auto& c : a.comm) if (c) { g_comms.push_back(c); c = nullptr; } for (auto& m : a.mess) if (m) { g_mess.push_back(m); m = nullptr; } }
  static std::vector<kernel::activity::CommImplPtr> g_ci; static std::vector<kernel::activity::MessImplPtr> g_mi;
  for (auto* mb : mboxes) { auto* m = mb->get_impl(); for (auto& c : m->comm_queue_) { c->mbox_ = nullptr; g_ci.push_back(c); } for (auto& c : m->done_comm_queue_) { c->mbox_ = nullptr; g_ci.push_back(c); } m->comm_queue_.clear(); m->done_comm_queue_.clear(); }
  for (auto* q : mqs) { auto* m = q->get_impl(); for (auto& c : m->queue_) { c->queue_ = nullptr; g_mi.push_back(c); } m->queue_.clear(); }
  for (auto& m : mutexes) g_mutexes.push_back(m); for (auto& m : sems) g_sems.push_back(m); for (auto& m : cvs) g_cvs.push_back(m); for (auto& m : bars) g_bars.push_back(m);
  if (g_mutexes.size() > 100000) _exit(5);
  delete ENG; ENG = nullptr;
}

typedef std::vector<std::pair<long, int>> Path;
static FILE* OUT; static FILE* OUT_AGREE; static bool agree_mode = false;
static void agree_check(kernel::actor::ActorImpl* a, int k, const std::vector<std::pair<long, int>>& cur, FILE* fo);
static std::unordered_map<std::string, long> seen;
static long n_states, n_trans, n_paths, n_exec, next_sid; static int aborted;
static char* CURPATH; // shared page: the prefix being executed, so that the parent can name the schedule of a crash
static std::string path_str(const Path& p) { std::string s; for (auto& [a, k] : p) { if (!s.empty()) s += ";"; s += std::to_string(a); if (k) s += "/" + std::to_string(k); } return s; }
struct Work { Path prefix; long from; };
struct PairTask { Path prefix; std::pair<long, int> a, b; };
static std::vector<PairTask> pair_tasks; static bool collect_pairs = false;

static std::string enabled_str(const std::vector<En>& en)
{ std::string es = "|E:"; if (assertion_failed) return es; /* a failed assertion ends the execution */ for (size_t i = 0; i < en.size(); i++) es += (i ? "," : "") + std::to_string(en[i].a->get_pid()) + "/" + std::to_string(en[i].maxc); return es; }

static void explore_program(const Program& p, char* argv0)
{
  std::vector<Work> stack; stack.push_back({{}, -1});
  while (!stack.empty() && !aborted) {
    Work w = stack.back(); stack.pop_back();
    char logopt[] = "--log=root.thres:critical"; int ac = 2; char* av[] = {argv0, logopt, nullptr};
    setup(p, &ac, av); n_exec++;
    quiesce();
    Path cur; long from = -1; std::pair<long, int> lab{0, 0}; std::string tt;
    // 1. re-execute the prefix (all but its last transition lead through states already emitted)
    bool ok = true;
    for (size_t i = 0; i < w.prefix.size() && ok; i++) {
      auto en = enabled_list();
      if (i + 1 == w.prefix.size()) { // determinism check: the state we branch from must be the one recorded
        if (stateful) { auto it = seen.find(canonical() + hidden() + enabled_str(en)); if (it == seen.end() || it->second != w.from) { fprintf(OUT, "X replay-divergence %s\n", path_str(w.prefix).c_str()); aborted = 5; ok = false; break; } }
        from = w.from; lab = w.prefix[i];
      }
      kernel::actor::ActorImpl* a = nullptr; for (auto& e : en) if (e.a->get_pid() == w.prefix[i].first && w.prefix[i].second < e.maxc) a = e.a;
      if (!a) { fprintf(OUT, "X replay-not-enabled %s\n", path_str(w.prefix).c_str()); aborted = 5; ok = false; break; }
      cur.push_back(w.prefix[i]); strncpy(CURPATH, path_str(cur).c_str(), 4000);
      handle(a, w.prefix[i].second);
      if (i + 1 == w.prefix.size()) { n_trans++; if (agree_mode) agree_check(a, w.prefix[i].second, cur, OUT_AGREE); if (want_ttext) tt = transition_text(a, w.prefix[i].second); }
      quiesce();
    }
    // 2. walk on with the first choice until a known state or a terminal one
    while (ok) {
      auto en = enabled_list();
      std::string st = canonical(), es = enabled_str(en);
      bool is_new = true; long sid;
      if (stateful) { auto [it, ins] = seen.emplace(st + hidden() + es, next_sid); is_new = ins; sid = it->second; if (ins) next_sid++; } else sid = next_sid++;
      if (from >= 0) fprintf(OUT, "T %ld %ld/%d %ld %s\n", from, lab.first, lab.second, sid, tt.empty() ? "-" : tt.c_str());
      if (!is_new) break;
      n_states++;
      fprintf(OUT, "S %ld %s%s\n", sid, st.c_str(), es.c_str());
      if (n_states > maxstates) { aborted = 2; break; }
      if (en.empty() || assertion_failed) { n_paths++; break; }
      std::vector<std::pair<kernel::actor::ActorImpl*, int>> ch;
      for (auto& e : en) for (int k = 0; k < e.maxc; k++) ch.push_back({e.a, k});
      if (collect_pairs) for (size_t i = 0; i < ch.size(); i++) for (size_t j = i + 1; j < ch.size(); j++) if (ch[i].first != ch[j].first)
          pair_tasks.push_back({cur, {ch[i].first->get_pid(), ch[i].second}, {ch[j].first->get_pid(), ch[j].second}});
      for (size_t i = ch.size(); i-- > 1;) { Work nw; nw.prefix = cur; nw.prefix.push_back({ch[i].first->get_pid(), ch[i].second}); nw.from = sid; stack.push_back(std::move(nw)); }
      from = sid; lab = {ch[0].first->get_pid(), ch[0].second};
      cur.push_back(lab); strncpy(CURPATH, path_str(cur).c_str(), 4000);
      handle(ch[0].first, ch[0].second); n_trans++;
      if (agree_mode) agree_check(ch[0].first, ch[0].second, cur, OUT_AGREE);
      tt = want_ttext ? transition_text(ch[0].first, ch[0].second) : std::string();
      quiesce();
    }
    teardown();
  }
}

// ------------------------------------------------------------------------------------------------ complete executions (C40, C42)
static mc::TransitionPtr transition_obj_unguarded(kernel::actor::ActorImpl* a, int k)
{
  a->simcall_.observer_->serialize(*APP); a->get_memory_trace()->serialize(*APP); APP->send();
  mc::TransitionPtr t = mc::deserialize_transition((unsigned)a->get_pid(), k, *CHK); t->deserialize_memory_tracker(*CHK);
  return t;
}
static mc::TransitionPtr transition_obj(kernel::actor::ActorImpl* a, int k)
{
  if (dynamic_cast<kernel::actor::MessIputSimcall*>(a->simcall_.observer_) || dynamic_cast<kernel::actor::MessIgetSimcall*>(a->simcall_.observer_)) {
    fprintf(stderr, "vx: message-queue transitions cannot be decoded (C43): not usable in this mode\n"); _exit(7); }
  a->simcall_.observer_->serialize(*APP); a->get_memory_trace()->serialize(*APP); APP->send();
  mc::TransitionPtr t = mc::deserialize_transition((unsigned)a->get_pid(), k, *CHK); t->deserialize_memory_tracker(*CHK);
  return t;
}
struct ExecStats { long nexec = 0, hb_pairs = 0, hb_bad = 0, race_sets = 0, race_bad = 0, asym = 0; std::vector<std::string> notes; };
// Foata normal form of a sequence under the checker's own dependency relation: two sequences are Mazurkiewicz-equivalent iff equal forms
static std::string foata(const std::vector<mc::TransitionPtr>& ts, const Path& labels)
{
  size_t n = ts.size(); std::vector<int> level(n, 0); std::vector<int> idx_in_actor(n, 0); std::map<long, int> cnt;
  for (size_t j = 0; j < n; j++) { idx_in_actor[j] = cnt[labels[j].first]++;
    for (size_t i = 0; i < j; i++) if (ts[i]->dispatch_depends(ts[j].get())) level[j] = std::max(level[j], level[i] + 1); }
  std::vector<std::string> ev(n);
  for (size_t j = 0; j < n; j++) { char b[64]; snprintf(b, sizeof b, "%03d:%ld.%d/%d", level[j], labels[j].first, idx_in_actor[j], labels[j].second); ev[j] = b; }
  std::sort(ev.begin(), ev.end()); std::string r; for (auto& e : ev) r += e + " "; return r;
}
static void check_execution(const std::vector<mc::TransitionPtr>& ts, const Path& labels, ExecStats& st)
{
  size_t n = ts.size(); if (n == 0) return;
  std::vector<std::vector<char>> dep(n, std::vector<char>(n, 0)), hb(n, std::vector<char>(n, 0));
  for (size_t i = 0; i < n; i++) for (size_t j = i + 1; j < n; j++) { bool d = ts[i]->dispatch_depends(ts[j].get()), d2 = ts[j]->dispatch_depends(ts[i].get());
      if (d != d2) { st.asym++; if (st.notes.size() < 5) st.notes.push_back("asymmetric depends " + ts[i]->to_string(false) + " / " + ts[j]->to_string(false)); }
      dep[i][j] = d; hb[i][j] = d; }
  for (size_t j = 0; j < n; j++) for (size_t k = 0; k < j; k++) if (hb[k][j]) for (size_t i = 0; i < k; i++) if (hb[i][k]) hb[i][j] = 1; // closure (indices increase along chains)
  // closure needs a fixpoint in general; chains i<k<j are covered by iterating j upward with all k<j already closed
  mc::odpor::Execution E;
  for (auto& t : ts) E.push_transition(t);
  for (size_t i = 0; i < n; i++) for (size_t j = 0; j < n; j++) { st.hb_pairs++;
      bool got = E.happens_before(i, j), exp = i < j && hb[i][j];
      if (got != exp) { st.hb_bad++; if (st.notes.size() < 5) st.notes.push_back("happens_before(" + std::to_string(i) + "," + std::to_string(j) + ")=" + std::to_string(got) + " expected " + std::to_string(exp) + " in " + path_str(labels)); } }
  for (size_t j = 0; j < n; j++) {
    long aj = labels[j].first; long prev = -1; for (long q = (long)j - 1; q >= 0; q--) if (labels[q].first == aj) { prev = q; break; }
    std::set<unsigned> exp;
    for (size_t i = 0; i < j; i++) { if (labels[i].first == aj || !hb[i][j]) continue; bool mid = false; for (size_t k = i + 1; k < j; k++) if (hb[i][k] && hb[k][j]) mid = true;
      if (mid) continue; if (prev >= 0 && (long)i < prev && hb[i][prev]) continue; exp.insert(i); }
    auto gotl = E.get_racing_events_of(j); std::set<unsigned> got(gotl.begin(), gotl.end()); st.race_sets++;
    if (got != exp) { st.race_bad++; if (st.notes.size() < 5) { std::string g, e; for (auto x : got) g += std::to_string(x) + ","; for (auto x : exp) e += std::to_string(x) + ",";
        st.notes.push_back("racing_events_of(" + std::to_string(j) + ")={" + g + "} expected {" + e + "} in " + path_str(labels)); } }
  }
}
// all complete executions of one program (no de-duplication), each handed to f(transitions, labels); returns false if maxexec was hit
template <class F> static bool all_executions(const Program& p, char* argv0, long maxexec, F f)
{
  std::vector<Path> stack; stack.push_back({}); long nexec = 0;
  while (!stack.empty()) {
    if (nexec >= maxexec) return false;
    Path prefix = stack.back(); stack.pop_back();
    char logopt[] = "--log=root.thres:critical"; int ac = 2; char* av[] = {argv0, logopt, nullptr};
    setup(p, &ac, av); quiesce(); nexec++;
    Path cur; std::vector<mc::TransitionPtr> ts;
    for (size_t step = 0;; step++) {
      auto en = enabled_list();
      if (en.empty() || assertion_failed) break;
      std::vector<std::pair<kernel::actor::ActorImpl*, int>> ch;
      for (auto& e : en) for (int k = 0; k < e.maxc; k++) ch.push_back({e.a, k});
      size_t pick = 0;
      if (step < prefix.size()) { pick = ch.size(); for (size_t i = 0; i < ch.size(); i++) if (ch[i].first->get_pid() == prefix[step].first && ch[i].second == prefix[step].second) pick = i;
        if (pick == ch.size()) { fprintf(stderr, "vx: replay divergence in all_executions\n"); _exit(6); } }
      else for (size_t i = ch.size(); i-- > 1;) { Path np = cur; np.push_back({ch[i].first->get_pid(), ch[i].second}); stack.push_back(np); }
      cur.push_back({ch[pick].first->get_pid(), ch[pick].second}); strncpy(CURPATH, path_str(cur).c_str(), 4000);
      handle(ch[pick].first, ch[pick].second); ts.push_back(transition_obj(ch[pick].first, ch[pick].second)); quiesce();
    }
    f(ts, cur);
    teardown();
  }
  return true;
}
static void classes_program(const Program& p, char* argv0, long maxexec, FILE* fo)
{
  std::set<std::string> classes; ExecStats st; long maxlen = 0;
  bool complete = all_executions(p, argv0, maxexec, [&](const std::vector<mc::TransitionPtr>& ts, const Path& labels) {
    st.nexec++; maxlen = std::max<long>(maxlen, ts.size()); classes.insert(foata(ts, labels)); check_execution(ts, labels, st); });
  fprintf(fo, "C %ld %zu %d %ld %ld %ld %ld %ld %ld %ld\n", st.nexec, classes.size(), complete ? 1 : 0, st.hb_pairs, st.hb_bad, st.race_sets, st.race_bad, st.asym, maxlen, 0L);
  for (auto& n : st.notes) fprintf(fo, "N %s\n", n.c_str());
  for (auto& c : classes) fprintf(fo, "K %zx\n", std::hash<std::string>{}(c));
}

// ------------------------------------------------------------------------------------------------ encoder / decoder agreement (C43)
#include "src/mc/transition/TransitionSynchro.hpp"
#include "src/mc/transition/TransitionComm.hpp"
#include "src/mc/transition/TransitionActor.hpp"
#include "src/mc/transition/TransitionAny.hpp"
#include "src/mc/transition/TransitionRandom.hpp"
static std::map<std::string, long> agree_types; static long agree_bad = 0, agree_n = 0;
static std::string T(mc::Transition::Type t) { return mc::Transition::to_c_str(t); }
static std::string describe_comm(const char* what, kernel::activity::CommImpl* c, bool timeout)
{ return std::string(what) + " comm=" + std::to_string(c->get_id()) + " mbox=" + std::to_string(c->get_mailbox_id()) + " src=" + std::to_string(c->src_actor_ ? c->src_actor_->get_pid() : -1) +
         " dst=" + std::to_string(c->dst_actor_ ? c->dst_actor_->get_pid() : -1) + (timeout ? " timeout" : ""); }
// what the application encoded: read from the observer object itself (never through serialize())
static std::string describe_obs(kernel::actor::SimcallObserver* o, int k)
{
  using namespace kernel::actor;
  if (auto* x = dynamic_cast<MutexObserver*>(o)) return T(x->type_) + " mutex=" + std::to_string(x->mutex_->get_id());
  if (auto* x = dynamic_cast<MutexAcquisitionObserver*>(o)) return T(x->type_) + " mutex=" + std::to_string(x->acquisition_->get_mutex()->get_id());
  if (auto* x = dynamic_cast<SemaphoreObserver*>(o)) return T(x->type_) + " sem=" + std::to_string(x->sem_->get_id());
  if (auto* x = dynamic_cast<SemaphoreAcquisitionObserver*>(o)) return T(x->type_) + " sem=" + std::to_string(x->acquisition_->semaphore_->get_id()) + (x->acquisition_->granted_ ? " granted" : "");
  if (auto* x = dynamic_cast<BarrierObserver*>(o)) return T(x->type_) + " bar=" + std::to_string(x->barrier_ ? x->barrier_->get_id() : x->acquisition_->barrier_->get_id());
  if (auto* x = dynamic_cast<ConditionVariableObserver*>(o)) { std::string r = T(x->type_) + " cond=" + std::to_string(x->cond_->get_id());
    if (x->type_ == mc::Transition::Type::CONDVAR_ASYNC_LOCK || x->type_ == mc::Transition::Type::CONDVAR_WAIT) r += " mutex=" + std::to_string(x->mutex_->get_id());
    if (x->type_ == mc::Transition::Type::CONDVAR_WAIT) r += std::string(x->acquisition_->granted_ ? " granted" : "") + (x->timeout_ > 0 ? " timeout" : "");
    return r; }
  if (auto* x = dynamic_cast<CommIsendSimcall*>(o)) return "COMM_ASYNC_SEND comm=" + std::to_string(x->comm_ ? x->comm_->get_id() : 0) + " mbox=" + std::to_string(x->mbox_->get_id());
  if (auto* x = dynamic_cast<CommIrecvSimcall*>(o)) return "COMM_ASYNC_RECV comm=" + std::to_string(x->comm_ ? x->comm_->get_id() : 0) + " mbox=" + std::to_string(x->mbox_->get_id());
  if (auto* x = dynamic_cast<ActivityWaitSimcall*>(o)) { if (auto* c = dynamic_cast<kernel::activity::CommImpl*>(x->activity_)) return describe_comm("COMM_WAIT", c, x->timeout_ > 0); return "WAIT-ON-NON-COMM"; }
  if (auto* x = dynamic_cast<ActivityTestSimcall*>(o)) { if (auto* c = dynamic_cast<kernel::activity::CommImpl*>(x->activity_)) return describe_comm("COMM_TEST", c, false); return "TEST-ON-NON-COMM"; }
  if (auto* x = dynamic_cast<ActivityWaitanySimcall*>(o)) { std::string r = "WAITANY n=" + std::to_string(x->activities_.size());
    if (k < (int)x->indexes_.size()) if (auto* c = dynamic_cast<kernel::activity::CommImpl*>(x->activities_[x->indexes_[k]])) r += " current={" + describe_comm("COMM_WAIT", c, false) + "}"; return r; }
  if (auto* x = dynamic_cast<ActivityTestanySimcall*>(o)) { std::string r = "TESTANY n=" + std::to_string(x->activities_.size());
    if (k < (int)x->indexes_.size()) if (auto* c = dynamic_cast<kernel::activity::CommImpl*>(x->activities_[x->indexes_[k]])) r += " current={" + describe_comm("COMM_TEST", c, false) + "}"; return r; }
  if (auto* x = dynamic_cast<ActorJoinSimcall*>(o)) return "ACTOR_JOIN target=" + std::to_string(x->other_->get_pid()) + (x->timeout_ > 0 ? " timeout" : "");
  if (auto* x = dynamic_cast<ActorCreateSimcall*>(o)) return "ACTOR_CREATE child=" + std::to_string(x->child_);
  if (dynamic_cast<ActorSleepSimcall*>(o)) return "ACTOR_SLEEP";
  if (dynamic_cast<ActorExitSimcall*>(o)) return "ACTOR_EXIT";
  if (auto* x = dynamic_cast<RandomSimcall*>(o)) return "RANDOM min=" + std::to_string(x->min_) + " max=" + std::to_string(x->max_);
  if (auto* x = dynamic_cast<MessIputSimcall*>(o)) return "MESS_ASYNC_PUT queue=" + x->queue_->get_name();
  if (auto* x = dynamic_cast<MessIgetSimcall*>(o)) return "MESS_ASYNC_GET queue=" + x->queue_->get_name();
  return "?" + o->to_string();
}
static std::string describe_sub(const mc::Transition* t)
{
  if (auto* x = dynamic_cast<const mc::CommWaitTransition*>(t)) return "COMM_WAIT comm=" + std::to_string(x->comm_) + " mbox=" + std::to_string(x->mbox_) + " src=" + std::to_string((long)x->sender_.c_val()) + " dst=" + std::to_string((long)x->receiver_.c_val()) + (x->timeout_ ? " timeout" : "");
  if (auto* x = dynamic_cast<const mc::CommTestTransition*>(t)) return "COMM_TEST comm=" + std::to_string(x->comm_) + " mbox=" + std::to_string(x->mbox_) + " src=" + std::to_string((long)x->sender_.c_val()) + " dst=" + std::to_string((long)x->receiver_.c_val());
  return "?" + t->to_string(false);
}
// what the checker decoded: read from the fields of the deserialised Transition
static std::string describe_tr(const mc::Transition* t)
{
  using Ty = mc::Transition::Type;
  if (auto* x = dynamic_cast<const mc::MutexTransition*>(t)) return T(x->type_) + " mutex=" + std::to_string(x->mutex_);
  if (auto* x = dynamic_cast<const mc::SemaphoreTransition*>(t)) return T(x->type_) + " sem=" + std::to_string(x->sem_) + (x->type_ == Ty::SEM_WAIT && x->granted_ ? " granted" : "");
  if (auto* x = dynamic_cast<const mc::BarrierTransition*>(t)) return T(x->type_) + " bar=" + std::to_string(x->bar_);
  if (auto* x = dynamic_cast<const mc::CondvarTransition*>(t)) { std::string r = T(x->type_) + " cond=" + std::to_string(x->condvar_);
    if (x->type_ == Ty::CONDVAR_ASYNC_LOCK || x->type_ == Ty::CONDVAR_WAIT) r += " mutex=" + std::to_string(x->mutex_);
    if (x->type_ == Ty::CONDVAR_WAIT) r += std::string(x->granted_ ? " granted" : "") + (x->timeout_ ? " timeout" : "");
    return r; }
  if (auto* x = dynamic_cast<const mc::CommSendTransition*>(t)) return "COMM_ASYNC_SEND comm=" + std::to_string(x->comm_) + " mbox=" + std::to_string(x->mbox_);
  if (auto* x = dynamic_cast<const mc::CommRecvTransition*>(t)) return "COMM_ASYNC_RECV comm=" + std::to_string(x->comm_) + " mbox=" + std::to_string(x->mbox_);
  if (dynamic_cast<const mc::CommWaitTransition*>(t) || dynamic_cast<const mc::CommTestTransition*>(t)) return describe_sub(t);
  if (auto* x = dynamic_cast<const mc::WaitAnyTransition*>(t)) return "WAITANY n=" + std::to_string(x->transitions_.size()) + " current={" + describe_sub(x->get_current_transition()) + "}";
  if (auto* x = dynamic_cast<const mc::TestAnyTransition*>(t)) { std::string r = "TESTANY n=" + std::to_string(x->transitions_.size());
    if (x->times_considered_ < (int)x->transitions_.size()) r += " current={" + describe_sub(x->transitions_.at(x->times_considered_)) + "}"; return r; }
  if (auto* x = dynamic_cast<const mc::ActorJoinTransition*>(t)) return "ACTOR_JOIN target=" + std::to_string(x->target_.value()) + (x->timeout_ ? " timeout" : "");
  if (auto* x = dynamic_cast<const mc::ActorCreateTransition*>(t)) return "ACTOR_CREATE child=" + std::to_string(x->child_.value());
  if (dynamic_cast<const mc::ActorSleepTransition*>(t)) return "ACTOR_SLEEP";
  if (dynamic_cast<const mc::ActorExitTransition*>(t)) return "ACTOR_EXIT";
  if (auto* x = dynamic_cast<const mc::RandomTransition*>(t)) return "RANDOM min=" + std::to_string(x->min_) + " max=" + std::to_string(x->max_);
  return "?" + T(t->type_) + " " + t->to_string(false);
}
// decode in a child process under a watchdog: a decoder that blocks or crashes must not take the explorer down
static std::string guarded_decode(kernel::actor::ActorImpl* a, int k)
{
  int pfd[2]; if (pipe(pfd)) return "pipe-failed";
  pid_t c = fork();
  if (c == 0) { close(pfd[0]); alarm(3); mc::TransitionPtr t = transition_obj_unguarded(a, k); std::string d = describe_tr(t.get()) + " aid=" + std::to_string(t->aid_.value()); (void)!write(pfd[1], d.data(), d.size()); _exit(0); }
  close(pfd[1]); std::string d; char buf[512]; ssize_t n; while ((n = read(pfd[0], buf, sizeof buf)) > 0) d.append(buf, n); close(pfd[0]);
  int st; waitpid(c, &st, 0);
  if (WIFSIGNALED(st)) return WTERMSIG(st) == SIGALRM ? "DECODER-HANGS (killed after 3 s)" : "DECODER-CRASHES (signal " + std::to_string(WTERMSIG(st)) + ")";
  if (!WIFEXITED(st) || WEXITSTATUS(st)) return "DECODER-FAILS (status " + std::to_string(st) + ")";
  return d;
}
static void agree_check(kernel::actor::ActorImpl* a, int k, const Path& cur, FILE* fo)
{
  if (!a->simcall_.observer_) return;
  std::string od = describe_obs(a->simcall_.observer_, k) + " aid=" + std::to_string(a->get_pid());
  bool risky = dynamic_cast<kernel::actor::MessIputSimcall*>(a->simcall_.observer_) || dynamic_cast<kernel::actor::MessIgetSimcall*>(a->simcall_.observer_) || getenv("VX_GUARD_ALL");
  std::string td;
  if (risky) td = guarded_decode(a, k);   // a decoder known to block: tried in a child under a watchdog
  else { mc::TransitionPtr t = transition_obj_unguarded(a, k); td = describe_tr(t.get()) + " aid=" + std::to_string(t->aid_.value()); }
  std::string ty = od.substr(0, od.find(' ')); agree_types[ty]++; agree_n++;
  if (od != td) { agree_bad++; fprintf(fo, "V disagree|%s|%s|%s\n", path_str(cur).c_str(), od.c_str(), td.c_str()); }
}

// ------------------------------------------------------------------------------------------------ commutation of independent pairs (C39)
struct PairRun { bool ok = false, second_enabled = false; mc::TransitionPtr t1, t2; std::string fp; };
static PairRun run_pair(const Program& p, char* argv0, const Path& prefix, std::pair<long, int> x, std::pair<long, int> y)
{
  PairRun r; char logopt[] = "--log=root.thres:critical"; int ac = 2; char* av[] = {argv0, logopt, nullptr};
  setup(p, &ac, av); quiesce();
  auto find = [](std::pair<long, int> c) -> kernel::actor::ActorImpl* { for (auto& e : enabled_list()) if (e.a->get_pid() == c.first && c.second < e.maxc) return e.a; return nullptr; };
  for (auto& st : prefix) { auto* a = find(st); if (!a) { teardown(); return r; } handle(a, st.second); quiesce(); }
  auto* ax = find(x); if (!ax || !find(y)) { teardown(); return r; }
  r.ok = true;
  handle(ax, x.second); r.t1 = transition_obj(ax, x.second); quiesce();
  auto* ay = find(y);
  if (ay) { r.second_enabled = true; handle(ay, y.second); r.t2 = transition_obj(ay, y.second); quiesce(); auto en = enabled_list(); r.fp = canonical() + hidden() + enabled_str(en); }
  teardown();
  return r;
}
static void pairs_program(const Program& p, char* argv0, FILE* fo)
{
  collect_pairs = true; pair_tasks.clear();
  explore_program(p, argv0);   // stateful walk; every new state queues its co-enabled pairs
  collect_pairs = false;
  long indep = 0, dep = 0, bad = 0, asym = 0; std::map<std::string, long> cells;
  for (auto& t : pair_tasks) {
    PairRun ab = run_pair(p, argv0, t.prefix, t.a, t.b), ba = run_pair(p, argv0, t.prefix, t.b, t.a);
    if (!ab.ok || !ba.ok) { fprintf(fo, "X pair-replay-failed %s\n", path_str(t.prefix).c_str()); continue; }
    bool d1 = ab.t1->dispatch_depends(ba.t1.get()), d2 = ba.t1->dispatch_depends(ab.t1.get());
    std::string ta = mc::Transition::to_c_str(ab.t1->type_), tb = mc::Transition::to_c_str(ba.t1->type_);
    if (d1 != d2) { asym++; fprintf(fo, "V asymmetric|%s|%ld/%d|%ld/%d|%s|%s|depends(a,b)=%d depends(b,a)=%d\n", path_str(t.prefix).c_str(), t.a.first, t.a.second, t.b.first, t.b.second, ab.t1->to_string(false).c_str(), ba.t1->to_string(false).c_str(), d1, d2); }
    std::string cell = (ta < tb ? ta + "/" + tb : tb + "/" + ta) + (d1 ? ":dep" : ":indep"); cells[cell]++;
    if (d1 || d2) { dep++; continue; }
    indep++;
    const char* what = nullptr;
    if (!ab.second_enabled) what = "b is disabled by a"; else if (!ba.second_enabled) what = "a is disabled by b"; else if (ab.fp != ba.fp) what = "a.b and b.a lead to different states";
    if (what && getenv("VX_PAIRS_VERBOSE")) fprintf(fo, "D ab %s\nD ba %s\n", ab.fp.c_str(), ba.fp.c_str());
    if (what) { bad++; fprintf(fo, "V not-commuting|%s|%ld/%d|%ld/%d|%s|%s|%s\n", path_str(t.prefix).c_str(), t.a.first, t.a.second, t.b.first, t.b.second, ab.t1->to_string(false).c_str(), ba.t1->to_string(false).c_str(), what); }
  }
  fprintf(fo, "I %ld %ld %ld %ld %zu\n", indep, dep, bad, asym, pair_tasks.size());
  for (auto& [c, n] : cells) fprintf(fo, "L %s %ld\n", c.c_str(), n);
}

extern "C" const char* simgrid_verif_fingerprint(void)
{ // H1 hook (AppSide) calls this through dlsym to log the application-level state under simgrid-mc
  static std::string s; s = canonical(); return s.c_str();
}

int main(int argc, char** argv)
{
  if (argc < 3) { fprintf(stderr, "usage: vx explore|run|replay ...\n"); return 2; }
  std::string mode = argv[1];
  auto progs = parse(argv[2]);
  run_mode = mode == "run";
  if (mode == "run") { // normal main: used under simgrid-mc, with --cfg=model-check/replay, and in plain (non-MC) runs
    int idx = atoi(argv[3]); int ac = argc - 3; char** av = argv + 3; av[0] = argv[0];
    setup(progs.at(idx), &ac, av);
    sg4::Engine::on_deadlock_cb([] { printf("DEADLOCK %s\n", canonical().c_str()); fflush(stdout); });
    sg4::Engine::get_instance()->run();
    printf("FINAL %s\n", canonical().c_str()); fflush(stdout);
    _exit(0);
  }
  MC_record_path() = "verif";
  simgrid::mc::set_model_checking_mode(simgrid::mc::ModelCheckingMode::REPLAY);
  socketpair(AF_UNIX, SOCK_STREAM, 0, SOCK); APP = new mc::Channel(SOCK[0]); CHK = new mc::Channel(SOCK[1]);
  if (mode == "replay") { // vx replay <file> <index> <aid/k;aid/k;...> : one schedule, state printed after each step
    int ac = 1; char* av[] = {argv[0], nullptr};
    setup(progs.at(atoi(argv[3])), &ac, av);
    quiesce();
    std::string sched = argc > 4 ? argv[4] : ""; size_t pos = 0; int step = 0;
    for (;;) {
      auto en = enabled_list();
      printf("S %d %s%s\n", step, canonical().c_str(), enabled_str(en).c_str()); fflush(stdout);
      if (pos >= sched.size()) break;
      size_t e = sched.find(';', pos); std::string tok = sched.substr(pos, e == std::string::npos ? std::string::npos : e - pos); pos = e == std::string::npos ? sched.size() : e + 1;
      long aid = atol(tok.c_str()); int k = tok.find('/') != std::string::npos ? atoi(tok.c_str() + tok.find('/') + 1) : 0;
      kernel::actor::ActorImpl* a = nullptr; for (auto& x : en) if (x.a->get_pid() == aid && k < x.maxc) a = x.a;
      if (!a) { printf("NOT-ENABLED %s\n", tok.c_str()); fflush(stdout); _exit(4); }
      handle(a, k); std::string tt = transition_text(a, k); quiesce(); step++;
      printf("T %s %s\n", tok.c_str(), tt.c_str()); fflush(stdout);
    }
    fflush(stdout); _exit(0);
  }
  if (mode == "fnf") { // vx fnf <file> <index> <schedules-file>: Foata normal form hash of each schedule (one per line)
    CURPATH = (char*)mmap(nullptr, 8192, PROT_READ | PROT_WRITE, MAP_SHARED | MAP_ANONYMOUS, -1, 0);
    std::ifstream in(argv[4]); std::string sched;
    while (std::getline(in, sched)) {
      char logopt[] = "--log=root.thres:critical"; int ac = 2; char* av[] = {argv[0], logopt, nullptr};
      setup(progs.at(atoi(argv[3])), &ac, av); quiesce();
      Path cur; std::vector<mc::TransitionPtr> ts; size_t pos = 0; bool ok = true;
      while (pos < sched.size() && ok) {
        size_t e = sched.find(';', pos); std::string tok = sched.substr(pos, e == std::string::npos ? std::string::npos : e - pos); pos = e == std::string::npos ? sched.size() : e + 1;
        if (tok.empty()) continue;
        long aid = atol(tok.c_str()); int k = tok.find('/') != std::string::npos ? atoi(tok.c_str() + tok.find('/') + 1) : 0;
        auto en = enabled_list(); kernel::actor::ActorImpl* a = nullptr;
        for (auto& x : en) if (x.a->get_pid() == aid) { if (x.maxc == 1) k = 0; /* a transition without alternatives ignores the value the checker sends along */ if (k < x.maxc) a = x.a; }
        if (!a) { ok = false; break; }
        cur.push_back({aid, k}); handle(a, k); ts.push_back(transition_obj(a, k)); quiesce();
      }
      bool terminal = enabled_list().empty();
      printf("%s %zx %d %zu\n", ok ? "OK" : "NOT-ENABLED", std::hash<std::string>{}(foata(ts, cur)), terminal ? 1 : 0, ts.size()); fflush(stdout);
      teardown();
    }
    _exit(0);
  }
  bool classes_mode = mode == "classes", pairs_mode = mode == "pairs"; agree_mode = mode == "agree";
  // explore
  const char* out = argv[3];
  if (argc > 4) stateful = std::string(argv[4]) != "stateless";
  if (argc > 5) maxstates = atol(argv[5]);
  want_ttext = getenv("VX_TTEXT") != nullptr;
  double deadline = getenv("VX_DEADLINE") ? atof(getenv("VX_DEADLINE")) : 0;
  CURPATH = (char*)mmap(nullptr, 8192, PROT_READ | PROT_WRITE, MAP_SHARED | MAP_ANONYMOUS, -1, 0);
  long* progress = (long*)(CURPATH + 4096); // index of the program being explored by the worker child
  FILE* fo = fopen(out, "w");
  size_t start = 0;
  while (start < progs.size()) { // one worker child for as many programs as it survives: a crash only loses the program it occurred in
    *progress = start; fflush(fo);
    pid_t c = fork();
    if (c == 0) {
      OUT = fo;
      for (size_t i = start; i < progs.size(); i++) {
        *progress = i; CURPATH[0] = 0;
        fprintf(fo, "P %s\n", progs[i].id.c_str()); fflush(fo);
        if (deadline > 0 && (double)time(nullptr) > deadline) { fprintf(fo, "R 0 0 0 SKIP\n"); continue; }
        seen.clear(); n_states = n_trans = n_paths = n_exec = next_sid = 0; aborted = 0;
        if (classes_mode) { classes_program(progs[i], argv[0], maxstates, fo); fprintf(fo, "R 0 0 0 OK 0\n"); fflush(fo); continue; }
        if (agree_mode) { FILE* keep = OUT; OUT = fopen("/dev/null", "w"); OUT_AGREE = fo; agree_types.clear(); agree_bad = agree_n = 0; explore_program(progs[i], argv[0]); fclose(OUT); OUT = keep;
          fprintf(fo, "I %ld %ld\n", agree_n, agree_bad); for (auto& [t, n] : agree_types) fprintf(fo, "L %s %ld\n", t.c_str(), n); }
        else if (pairs_mode) { FILE* keep = OUT; OUT = fopen("/dev/null", "w"); pairs_program(progs[i], argv[0], fo); fclose(OUT); OUT = keep; }
        else explore_program(progs[i], argv[0]);
        fprintf(fo, "R %ld %ld %ld %s %ld\n", n_paths, n_states, n_trans, aborted ? ("ABORT" + std::to_string(aborted)).c_str() : "OK", n_exec);
        fflush(fo);
      }
      fflush(fo); _exit(0);
    }
    int status; waitpid(c, &status, 0);
    fseek(fo, 0, SEEK_END);
    if (WIFEXITED(status) && WEXITSTATUS(status) == 0) break;
    fprintf(fo, "\nX crash status=%d schedule=%s\nR 0 0 0 CRASH\n", status, CURPATH); fflush(fo);
    start = *progress + 1;
  }
  fclose(fo);
  return 0;
}
