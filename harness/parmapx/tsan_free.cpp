// E8 parmapx -- free-running pass of the same bodies under -fsanitize=thread (no scheduler, unmodified parmap.hpp).
//
// The controlled scheduler of parmapx.cpp serialises the threads and would give ThreadSanitizer happens-before edges that the
// code under test does not have.  Here the threads run freely on the real std::atomic/std::mutex/std::condition_variable/futex,
// so every access to worker_fun / common_data / destroying / the per-element counters that is not ordered by Parmap's own
// synchronisation is reported as a data race.  The exactly-once oracle is checked as well (exit code 3).
//
//   tsan_free MODE REPS      one line "RUNS n" on stdout; TSan reports on stderr; exit 66 if TSan reported anything
#include "src/xbt/parmap.hpp"
#include <cstdio>
#include <cstring>
#include <simgrid/s4u.hpp>

static int cnt[2][16]; // plain on purpose: two concurrent calls on the same element are a race TSan sees

int main(int argc, char** argv)
{
  if (argc < 3) return 2;
  e_xbt_parmap_mode_t mode;
  if (!strcmp(argv[1], "posix")) mode = XBT_PARMAP_POSIX;
  else if (!strcmp(argv[1], "futex")) mode = XBT_PARMAP_FUTEX;
  else if (!strcmp(argv[1], "busy_wait")) mode = XBT_PARMAP_BUSY_WAIT;
  else return 2;
  int reps = atoi(argv[2]);
  int one = 1;
  char* eargv[] = {argv[0], nullptr};
  simgrid::s4u::Engine e(&one, eargv);
  long runs = 0;
  for (int rep = 0; rep < reps; rep++)
    for (int workers : {2, 3, 4})
      for (int n : {0, 1, 2, 3, 8}) {
        memset(cnt, 0, sizeof cnt);
        std::vector<int> data[2];
        for (int r = 0; r < 2; r++)
          for (int i = 0; i < n; i++) data[r].push_back(i);
        {
          simgrid::xbt::Parmap<int> pm(workers, mode);
          for (int r = 0; r < 2; r++) {
            pm.apply([r](int v) { cnt[r][v]++; }, data[r]);
            for (int q = 0; q < 2; q++)
              for (int i = 0; i < 16; i++)
                if (cnt[q][i] != ((q <= r && i < n) ? 1 : 0)) {
                  printf("WRONGCOUNT mode=%s workers=%d n=%d apply=%d: function %d ran %d times on element %d\n", argv[1], workers, n, r + 1,
                         q + 1, cnt[q][i], i);
                  fflush(stdout);
                  _exit(3);
                }
          }
        }
        runs++;
      }
  printf("RUNS %ld\n", runs);
  fflush(stdout);
  return 0;
}
