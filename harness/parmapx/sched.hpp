// E8 parmapx -- cooperative scheduler + scheduler-aware shims for the synchronisation vocabulary of src/xbt/parmap.hpp.
//
// Real std::threads, exactly one of which runs at any time.  The running thread announces every visible operation
// (shimmed atomic op, mutex lock/unlock, condvar wait/notify, futex wait/wake, thread create/join, yield) with pre(); the
// scheduler then decides who performs the next operation (that is a *scheduling point*, recorded as a Pt), hands the CPU over
// with a raw futex hand-off and the chosen thread performs its announced operation atomically together with all the plain code
// that follows it up to its next announcement.
//
// Choice at a point: the set `mask` of enabled threads.  Continuing the running thread is free; switching away from a running
// thread that is still enabled is a *preemption* (cost 1); switching because the running thread blocked, parked or ended is free.
//
// Blocking model
//   mutex.lock      blocks while owned; unlock makes every waiter runnable again (they re-contend: no FIFO assumed)
//   cv.wait(l,p)    while(!p()) { unlock + block atomically; relock }   woken only by notify on the same condvar
//   futex_wait(a,v) blocks iff *a==v (checked atomically with blocking), woken only by futex_wake on the same address
//   join            blocks until the target has ended
//   yield           Each thread keeps the set R of objects it touched since its current spin iteration began (= since its last
//                   yield or its own last modifying operation) and a flag `stale` = another thread modified an object of R after it was touched (or modified the
//                   plain control fields destroying/common_data/worker_fun, or was created/ended).  yield with stale set is an
//                   ordinary operation: what was read may be out of date, the thread goes round again.  Otherwise the thread
//                   PARKS until another thread modifies an object of R: a spin iteration that re-reads unchanged values is a
//                   stutter step, and removing stutter steps keeps the schedule space finite.  The underlying assumption (the
//                   outcome of a spin iteration depends only on the values it reads) is CHECKED whenever it matters: when only
//                   parked threads remain, each is run for one more iteration; if all park again without modifying anything
//                   the verdict is LIVELOCK, if one modifies state the run is aborted as a harness error (STATEFUL-SPIN).
//   no enabled thread, none parked, not everybody ended  =>  DEADLOCK (lost wake-ups are therefore real deadlocks)
// Not modelled: spurious wake-ups of condvars/futexes, memory orders weaker than sequential consistency.
#pragma once
#include <atomic>
#include <climits>
#include <cstdint>
#include <cstdio>
#include <cstring>
#include <string>
#include <thread>
#include <vector>
#include <linux/futex.h>
#include <sys/syscall.h>
#include <unistd.h>
#include <functional>
#include <ucontext.h>

namespace px {
enum St : uint8_t { UNBORN, RUNNABLE, BLK_MUTEX, BLK_CV, BLK_FUTEX, BLK_JOIN, PARKED, DONE };
enum Kind : uint8_t { K_NONE, K_LOAD, K_STORE, K_RMW, K_LOCK, K_UNLOCK, K_CVBLOCK, K_NOTIFY, K_FWAIT, K_FWAKE, K_SPAWN, K_JOIN,
                      K_YIELD, K_EXIT, K_CALL, K_START };
static const char* const kind_name[] = {"-", "load", "store", "rmw", "lock", "unlock", "cvwait", "notify", "futex_wait",
                                        "futex_wake", "spawn", "join", "yield", "exit", "call", "start"};
inline bool modifies(Kind k) { return k != K_LOAD && k != K_YIELD && k != K_NONE && k != K_CALL && k != K_JOIN; }

constexpr int MAXT = 8;
constexpr int MAXO = 32;
enum OKind : uint8_t { O_ATOMIC, O_MUTEX, O_CV };
struct Obj { const void* addr; OKind kind; bool live; };
struct Th {
  St st = UNBORN;
  int on = -1;          // object id blocked on / joined thread
  Kind pend = K_NONE;   // announced operation
  int pend_obj = -1;
  uint64_t h1 = 0, h2 = 0; // hash of everything this thread has observed so far
  unsigned rset = 0;       // objects touched since the current spin iteration of this thread began
  bool stale = false;      // one of them was modified by somebody else since
  void* tls = nullptr;     // fibers backend: the thread-local value swapped at every switch
  bool confirmed = false;  // livelock confirmation: re-ran one more iteration over unchanged state and parked again
  int pre_obj = -1;        // object of the operation this thread was preempted in front of (-1: not preempted)
  Kind pre_kind = K_NONE;
  std::atomic<int> go{0};
};
struct Pt { // one scheduling point
  int8_t from, to;   // running thread before / thread chosen
  uint8_t mask;      // enabled threads
  uint8_t cur_en;    // was `from` still enabled (then to!=from is a preemption)
  uint8_t kind;      // operation `to` is about to perform
  int8_t obj;
  uint64_t h1, h2;   // hash of the global state before the choice
};

// ------------------------------------------------------------------ global state of the current execution
static Th th[MAXT];
static int nth = 0, cur = 0;
#ifdef PX_FIBERS
static int me = 0;
#else
static thread_local int me = 0;
#endif
static Obj objs[MAXO];
static int nobj = 0;
static std::vector<Pt> pts;
static std::vector<int8_t> prefix; // thread to run at point i (i < prefix.size()), afterwards: default choice
static long steps = 0;
static uint64_t last_ctl = 0;
static int preemptions = 0;
static int contended = 0;            // preemptions after which a conflicting operation on the same object overtook the victim
static unsigned contended_objs = 0;  // bitmask of the objects on which that happened
static bool confirm_livelock = false;
static uint64_t (*ctl_digest)() = nullptr;   // digest of the plain (non-shimmed) fields of the object under test (evaluated once per operation)
static uint64_t (*plain_digest)() = nullptr; // digest of the rest of the plain memory shared between the threads (cheap)
static void* (*tls_get)() = nullptr;         // fibers backend: read / write the thread-local state of the code under test
static void (*tls_set)(void*) = nullptr;
[[noreturn]] static void fail(const char* verdict, const char* detail); // defined by the driver
constexpr long STEP_LIMIT = 20000;

inline uint64_t mix(uint64_t h, uint64_t x)
{
  h ^= x + 0x9e3779b97f4a7c15ULL + (h << 6) + (h >> 2);
  h *= 0xff51afd7ed558ccdULL;
  h ^= h >> 32;
  return h;
}
inline uint64_t mix2(uint64_t h, uint64_t x)
{
  h = (h ^ x) * 0xc4ceb9fe1a85ec53ULL;
  h ^= h >> 29;
  return h + 0x165667b19e3779f9ULL;
}

#ifdef PX_FIBERS
// Backend 1 (exploration): the "threads" are ucontext fibers of one OS thread; a switch costs well under a microsecond.  The one
// thread-local variable of the code under test (the current simgrid Context) is swapped by hand through tls_get/tls_set.
constexpr size_t FIBER_STACK = 256 * 1024;
static char* fstack[MAXT];
static std::function<void()> fbody[MAXT];
static void fiber_main()
{
  fbody[me]();
  abort(); // not reached: the body ends in reschedule() and is never resumed
}
#if defined(__x86_64__)
// callee-saved registers + stack pointer; no signal-mask system call per switch (swapcontext makes two)
extern "C" void px_switch(void** save_sp, void* new_sp);
__asm__(".text\n.globl px_switch\n.type px_switch,@function\npx_switch:\n"
        "  pushq %rbp\n  pushq %rbx\n  pushq %r12\n  pushq %r13\n  pushq %r14\n  pushq %r15\n"
        "  movq %rsp, (%rdi)\n  movq %rsi, %rsp\n"
        "  popq %r15\n  popq %r14\n  popq %r13\n  popq %r12\n  popq %rbx\n  popq %rbp\n  ret\n"
        ".size px_switch,.-px_switch\n");
static void* fsp[MAXT];
static void backend_spawn(int id, std::function<void()> body)
{
  if (!fstack[id]) fstack[id] = static_cast<char*>(malloc(FIBER_STACK));
  fbody[id] = std::move(body);
  uintptr_t top = (reinterpret_cast<uintptr_t>(fstack[id]) + FIBER_STACK) & ~uintptr_t(15);
  void** sp = reinterpret_cast<void**>(top);
  *--sp = nullptr;                              // return address of fiber_main (never used), keeps the ABI alignment
  *--sp = reinterpret_cast<void*>(&fiber_main); // popped by the ret of px_switch
  for (int i = 0; i < 6; i++) *--sp = nullptr;  // rbp rbx r12 r13 r14 r15
  fsp[id] = sp;
}
static void backend_join(int) {}
static void handoff(int prev, int next, bool)
{
  if (tls_get) { th[prev].tls = tls_get(); tls_set(th[next].tls); }
  me = next;
  px_switch(&fsp[prev], fsp[next]);
}
#else
static ucontext_t fctx[MAXT];
static void backend_spawn(int id, std::function<void()> body)
{
  if (!fstack[id]) fstack[id] = static_cast<char*>(malloc(FIBER_STACK));
  fbody[id] = std::move(body);
  getcontext(&fctx[id]);
  fctx[id].uc_stack.ss_sp = fstack[id];
  fctx[id].uc_stack.ss_size = FIBER_STACK;
  fctx[id].uc_link = nullptr;
  makecontext(&fctx[id], fiber_main, 0);
}
static void backend_join(int) {}
static void handoff(int prev, int next, bool)
{
  if (tls_get) { th[prev].tls = tls_get(); tls_set(th[next].tls); }
  me = next;
  swapcontext(&fctx[prev], &fctx[next]);
}
#endif
#else
// Backend 2 (cross-validation and replay): real std::threads, exactly one of which is not asleep in a futex.
static std::thread rthread[MAXT];
static void fwait(std::atomic<int>* a);
static void fwake(std::atomic<int>* a);
static void backend_spawn(int id, std::function<void()> body)
{
  rthread[id] = std::thread([id, body] { me = id; fwait(&th[id].go); body(); });
}
static void backend_join(int id) { rthread[id].join(); } // the real thread has handed the CPU over and is leaving
static void handoff(int prev, int next, bool prev_ended)
{
  fwake(&th[next].go);
  if (!prev_ended) // a thread that has ended must not touch anything any more
    fwait(&th[prev].go);
}
#endif
static void fwait(std::atomic<int>* a)
{
  while (a->load() == 0)
    ::syscall(SYS_futex, a, FUTEX_WAIT_PRIVATE, 0, nullptr, nullptr, 0);
  a->store(0);
}
static void fwake(std::atomic<int>* a)
{
  a->store(1);
  ::syscall(SYS_futex, a, FUTEX_WAKE_PRIVATE, 1, nullptr, nullptr, 0);
}

static int obj_id(const void* p)
{
  for (int i = 0; i < nobj; i++)
    if (objs[i].live && objs[i].addr == p)
      return i;
  fail("HARNESS", "operation on an unregistered synchronisation object");
}
static int obj_new(const void* p, OKind k)
{
  if (nobj >= MAXO)
    fail("HARNESS", "too many synchronisation objects");
  objs[nobj] = {p, k, true};
  return nobj++;
}
static void obj_del(const void* p)
{
  for (int i = 0; i < nobj; i++)
    if (objs[i].live && objs[i].addr == p)
      objs[i].live = false;
}
static uint64_t obj_value(int i); // defined after the shims

static void reset()
{
  for (auto& t : th) {
    t.st = UNBORN; t.on = -1; t.pend = K_NONE; t.pend_obj = -1; t.h1 = t.h2 = 0; t.rset = 0; t.stale = false; t.tls = nullptr; t.confirmed = false; t.pre_obj = -1;
    t.pre_kind = K_NONE; t.go.store(0);
  }
  nth = 1; cur = 0; me = 0; th[0].st = RUNNABLE; nobj = 0; pts.clear(); steps = 0; last_ctl = ctl_digest ? ctl_digest() : 0; preemptions = 0;
  contended = 0; contended_objs = 0; confirm_livelock = false;
}

// hash of the global state at a scheduling point.  Every thread's local state is a function of what it has observed (h1,h2: the
// results of its shim operations and a digest of the plain shared memory taken at each of them, see post()); the shared state is
// the value of every shim object, the status of every thread and the plain digest.
static void state_hash(uint64_t& a, uint64_t& b)
{
  a = 0x1234567 + cur; b = 0x7654321 + cur;
  for (int i = 0; i < nth; i++) {
    uint64_t s = (uint64_t)th[i].st | ((uint64_t)(th[i].on + 1) << 8) | ((uint64_t)th[i].pend << 16) | ((uint64_t)(th[i].pend_obj + 1) << 24) |
                 ((uint64_t)th[i].stale << 31) | ((uint64_t)th[i].rset << 32);
    a = mix(mix(a, s), th[i].h1);
    b = mix2(mix2(b, s), th[i].h2);
  }
  for (int i = 0; i < nobj; i++) {
    uint64_t v = objs[i].live ? obj_value(i) + 1 : 0;
    a = mix(a, v); b = mix2(b, v);
  }
  uint64_t d = mix(last_ctl, plain_digest ? plain_digest() : 0); // last_ctl is current: refreshed by every pre()
  a = mix(a, d); b = mix2(b, d);
}

// The running thread (me == cur) has updated its own status; decide who performs the next operation.
static void reschedule()
{
  if (++steps > STEP_LIMIT)
    fail("LIVELOCK", "step limit reached (spinning without yield?)");
  uint8_t mask = 0;
  for (int i = 0; i < nth; i++)
    if (th[i].st == RUNNABLE)
      mask |= 1u << i;
  bool cur_en = mask & (1u << cur);
  if (mask == 0) {
    bool parked = false, all_done = true;
    for (int i = 0; i < nth; i++) {
      if (th[i].st == PARKED) parked = true;
      if (th[i].st != DONE) all_done = false;
    }
    if (all_done)
      fail("HARNESS", "reschedule() with every thread ended");
    if (!parked)
      fail("DEADLOCK", "");
    // Only spinners are left and nothing changed since each of them parked.  Confirm: run each for one more iteration.
    confirm_livelock = true;
    int pick = -1;
    for (int i = 0; i < nth && pick < 0; i++)
      if (th[i].st == PARKED && !th[i].confirmed)
        pick = i;
    if (pick < 0)
      fail("LIVELOCK", "only spinning threads left, none of them changes the state");
    th[pick].st = RUNNABLE;
    th[pick].confirmed = true;
    mask = 1u << pick;
  }
  int next;
  size_t pos = pts.size();
  if (pos < prefix.size()) {
    next = prefix[pos];
    if (next < 0 || next >= nth || !(mask & (1u << next)))
      fail("DIVERGED", "the schedule names a thread that is not enabled at this point");
  } else if (cur_en)
    next = cur;
  else
    next = __builtin_ctz(mask);
  Pt p;
  p.from = (int8_t)cur; p.to = (int8_t)next; p.mask = mask; p.cur_en = cur_en; p.kind = th[next].pend; p.obj = (int8_t)th[next].pend_obj;
  state_hash(p.h1, p.h2);
  pts.push_back(p);
  if (cur_en && next != cur) { // preemption of cur in front of its announced operation
    preemptions++;
    th[cur].pre_obj = th[cur].pend_obj;
    th[cur].pre_kind = th[cur].pend;
  }
  int prev = cur;
  cur = next;
  if (next != prev) {
    handoff(prev, next, th[prev].st == DONE);
  }
}

// the calling thread modifies object obj (-1: something every waiting loop might depend on)
static void disturb(int obj)
{
  for (int i = 0; i < nth; i++)
    if (i != me && (obj < 0 || (th[i].rset & (1u << obj)))) {
      th[i].stale = true;
      if (th[i].st == PARKED)
        th[i].st = RUNNABLE;
    }
}
// announce an operation; returns when this thread has been chosen to perform it
static void pre(Kind k, int obj)
{
  th[me].pend = k; th[me].pend_obj = obj;
  if (ctl_digest) { // plain control fields written since the caller's previous operation become visible to the others now
    uint64_t c = ctl_digest();
    if (c != last_ctl) {
      last_ctl = c;
      disturb(-1);
    }
  }
  reschedule();
  // --- chosen: the operation happens now
  th[me].pre_obj = -1;
  if (obj >= 0) // did we overtake a preempted thread on the same object with a conflicting operation?
    for (int i = 0; i < nth; i++)
      if (i != me && th[i].pre_obj == obj && (modifies(k) || modifies(th[i].pre_kind))) {
        contended++; contended_objs |= 1u << obj; th[i].pre_obj = -1;
      }
  if (modifies(k)) {
    if (confirm_livelock)
      fail("STATEFUL-SPIN", "a spin iteration over unchanged state modified the state: the yield model does not apply");
    disturb(obj);
    th[me].rset = 0; // a waiting loop does not modify anything: whatever loop comes next starts after this operation
  } else if (obj >= 0)
    th[me].rset |= 1u << obj;
}
// record what the operation returned (and what plain memory looked like when it was performed)
static void post(uint64_t result)
{
  Th& t = th[me];
  uint64_t x = ((uint64_t)t.pend << 56) ^ ((uint64_t)(t.pend_obj + 1) << 48) ^ result;
  uint64_t d = mix(last_ctl, plain_digest ? plain_digest() : 0); // last_ctl is current: refreshed by every pre()
  t.h1 = mix(mix(t.h1, x), d);
  t.h2 = mix2(mix2(t.h2, x), d);
  t.pend = K_NONE; t.pend_obj = -1;
}
// block the calling thread (status already decided by the caller) until somebody makes it runnable and it is chosen again
static void block(St s, int on)
{
  th[me].st = s; th[me].on = on;
  reschedule();
  th[me].on = -1;
}
static void wake_all(St s, int on)
{
  for (int i = 0; i < nth; i++)
    if (th[i].st == s && th[i].on == on)
      th[i].st = RUNNABLE;
}
static int count_blocked(St s, int on)
{
  int n = 0;
  for (int i = 0; i < nth; i++)
    if (th[i].st == s && th[i].on == on)
      n++;
  return n;
}
// an event of the calling thread that is not a scheduling point (call of the user function)
static void event(Kind k, uint64_t v)
{
  Th& t = th[me];
  t.h1 = mix(t.h1, ((uint64_t)k << 56) ^ v);
  t.h2 = mix2(t.h2, ((uint64_t)k << 56) ^ v);
}
} // namespace px

// ------------------------------------------------------------------ the shims (named so that `#define mutex vx_mutex` etc. work)
namespace std {
struct vx_atomic_uint {
  unsigned v;
  int id;
  vx_atomic_uint(unsigned i = 0) : v(i), id(px::obj_new(this, px::O_ATOMIC)) {}
  vx_atomic_uint(const vx_atomic_uint&) = delete;
  ~vx_atomic_uint() { px::obj_del(this); }
  unsigned load(std::memory_order = std::memory_order_seq_cst) { px::pre(px::K_LOAD, id); unsigned r = v; px::post(r); return r; }
  void store(unsigned x, std::memory_order = std::memory_order_seq_cst) { px::pre(px::K_STORE, id); v = x; px::post(x); }
  unsigned exchange(unsigned x, std::memory_order = std::memory_order_seq_cst) { px::pre(px::K_RMW, id); unsigned o = v; v = x; px::post(o); return o; }
  unsigned fetch_add(unsigned x, std::memory_order = std::memory_order_seq_cst) { px::pre(px::K_RMW, id); unsigned o = v; v += x; px::post(o); return o; }
  unsigned fetch_sub(unsigned x, std::memory_order = std::memory_order_seq_cst) { px::pre(px::K_RMW, id); unsigned o = v; v -= x; px::post(o); return o; }
  bool compare_exchange_strong(unsigned& e, unsigned d, std::memory_order = std::memory_order_seq_cst, std::memory_order = std::memory_order_seq_cst)
  {
    px::pre(px::K_RMW, id);
    unsigned o = v; bool ok = (o == e);
    if (ok) v = d; else e = o;
    px::post(((uint64_t)ok << 32) | o);
    return ok;
  }
  bool compare_exchange_weak(unsigned& e, unsigned d, std::memory_order a = std::memory_order_seq_cst, std::memory_order b = std::memory_order_seq_cst) { return compare_exchange_strong(e, d, a, b); }
  unsigned operator++(int) { return fetch_add(1); }
  unsigned operator++() { return fetch_add(1) + 1; }
  unsigned operator--(int) { return fetch_sub(1); }
  unsigned operator--() { return fetch_sub(1) - 1; }
  unsigned operator+=(unsigned x) { return fetch_add(x) + x; }
  unsigned operator-=(unsigned x) { return fetch_sub(x) - x; }
  unsigned operator=(unsigned x) { store(x); return x; }
  operator unsigned() { return load(); }
};
struct vx_mutex {
  int owner = -1;
  int id;
  vx_mutex() : id(px::obj_new(this, px::O_MUTEX)) {}
  vx_mutex(const vx_mutex&) = delete;
  ~vx_mutex() { px::obj_del(this); }
  void lock()
  {
    px::pre(px::K_LOCK, id);
    while (owner != -1)
      px::block(px::BLK_MUTEX, id);
    owner = px::me;
    px::post(0);
  }
  bool try_lock()
  {
    px::pre(px::K_LOCK, id);
    bool ok = owner == -1;
    if (ok) owner = px::me;
    px::post(ok);
    return ok;
  }
  void unlock_nopoint()
  {
    if (owner != px::me)
      px::fail("HARNESS", "mutex unlocked by a thread that does not own it");
    owner = -1;
    px::wake_all(px::BLK_MUTEX, id);
  }
  void unlock() { px::pre(px::K_UNLOCK, id); unlock_nopoint(); px::post(0); }
};
struct vx_condvar {
  int id;
  vx_condvar() : id(px::obj_new(this, px::O_CV)) {}
  vx_condvar(const vx_condvar&) = delete;
  ~vx_condvar() { px::obj_del(this); }
  template <class L> void wait(L& l)
  {
    px::pre(px::K_CVBLOCK, id); // releasing the mutex and starting to wait is one atomic operation
    px::disturb(l.mutex()->id);
    l.mutex()->unlock_nopoint();
    px::post(0);
    px::block(px::BLK_CV, id);
    l.mutex()->lock();
  }
  template <class L, class P> void wait(L& l, P p)
  {
    while (!p())
      wait(l);
  }
  void notify_all() { px::pre(px::K_NOTIFY, id); px::wake_all(px::BLK_CV, id); px::post(0); }
  void notify_one()
  {
    px::pre(px::K_NOTIFY, id);
    if (px::count_blocked(px::BLK_CV, id) > 1)
      px::fail("UNMODELLED", "notify_one with several waiters (which one wakes is a choice the harness does not enumerate)");
    px::wake_all(px::BLK_CV, id);
    px::post(0);
  }
};
struct vx_thread {
  int tid;
  template <class F, class A> vx_thread(F f, A a)
  {
    px::pre(px::K_SPAWN, -1);
    if (px::nth >= px::MAXT)
      px::fail("HARNESS", "too many threads");
    tid = px::nth++;
    px::th[tid].st = px::RUNNABLE;
    px::th[tid].pend = px::K_START;
    px::post(tid);
    int id = tid;
    px::backend_spawn(id, [id, f, a] {
      px::post(0); // K_START: what plain memory looks like when the thread begins
      px::th[id].rset = 0; // it has read nothing yet
      px::th[id].stale = false;
      f(a);
      px::pre(px::K_EXIT, -1);
      px::post(0);
      px::th[id].st = px::DONE;
      for (int i = 0; i < px::nth; i++)
        if (px::th[i].st == px::BLK_JOIN && px::th[i].on == id)
          px::th[i].st = px::RUNNABLE;
      px::reschedule();
    });
  }
  vx_thread(const vx_thread&) = delete;
  void join()
  {
    px::pre(px::K_JOIN, -1);
    while (px::th[tid].st != px::DONE)
      px::block(px::BLK_JOIN, tid);
    px::post(tid);
    px::backend_join(tid);
  }
  bool joinable() { return true; }
  pthread_t native_handle() { return pthread_self(); }
  static unsigned hardware_concurrency() { return 16; }
};
namespace vx_this_thread {
inline void yield()
{
  px::pre(px::K_YIELD, -1);
  px::post(0);
  px::Th& t = px::th[px::me];
  if (!t.stale) // nothing it has touched changed since this spin iteration began: wait for a change
    px::block(px::PARKED, -1);
  t.rset = 0; // a new iteration begins
  t.stale = false;
}
} // namespace vx_this_thread
} // namespace std

namespace px {
static uint64_t obj_value(int i)
{
  switch (objs[i].kind) {
    case O_ATOMIC: return static_cast<const std::vx_atomic_uint*>(objs[i].addr)->v;
    case O_MUTEX: return (uint64_t)(static_cast<const std::vx_mutex*>(objs[i].addr)->owner + 1);
    default: return 0;
  }
}
} // namespace px

// syscall(SYS_futex, uaddr, FUTEX_WAIT_PRIVATE|FUTEX_WAKE_PRIVATE, val, nullptr, nullptr, 0)
static long vx_syscall(long nr, std::vx_atomic_uint* uaddr, int op, unsigned val, void*, void*, int)
{
  if (nr != SYS_futex)
    px::fail("UNMODELLED", "syscall other than futex");
  int id = px::obj_id(uaddr);
  if (op == FUTEX_WAIT_PRIVATE || op == FUTEX_WAIT) {
    px::pre(px::K_FWAIT, id);
    bool sleep = uaddr->v == val; // compared and put to sleep atomically, like the kernel does
    px::post(sleep);
    if (sleep)
      px::block(px::BLK_FUTEX, id);
    return 0;
  }
  if (op == FUTEX_WAKE_PRIVATE || op == FUTEX_WAKE) {
    px::pre(px::K_FWAKE, id);
    int n = px::count_blocked(px::BLK_FUTEX, id);
    if ((unsigned)n > val && val != 0)
      px::fail("UNMODELLED", "futex_wake of fewer threads than are waiting (which ones is a choice the harness does not enumerate)");
    if (val != 0)
      px::wake_all(px::BLK_FUTEX, id);
    px::post(n);
    return n;
  }
  px::fail("UNMODELLED", "futex operation other than WAIT/WAKE");
}
