// E8 parmapx -- preemption-bounded stateless exploration of the real simgrid::xbt::Parmap<int> (C49).
//
//   parmapx explore MODE W N APPLIES STEAL BOUND[,BOUND..] SHARD NSHARDS PRUNE OBSFILE   -> one JSON line per bound on stdout
//   parmapx explorelist FILE      several explore tasks in one process, one per line: ID MODE W N ... OBSFILE
//   parmapx replay  MODE W N APPLIES STEAL SCHEDULE [-v]                      -> trace + "VERDICT ..." on stdout
//   parmapx merge   FILE...                                                   -> number of distinct 64-bit words in the files
//
// MODE posix|futex|busy_wait, W workers (the caller of apply() is worker 0), N elements per apply ("n" or "n1,n2"), STEAL=1: the applied function
// also drains Parmap::next() like SwappedContext does.  SCHEDULE = "t/k;t/k;..." : thread t performs the next k operations.
//
// All standard headers that parmap.hpp needs are included BEFORE the macros, so only parmap.hpp's own text is re-pointed.
#include <algorithm>
#include <array>
#include <atomic>
#include <condition_variable>
#include <csignal>
#include <functional>
#include <limits>
#include <map>
#include <memory>
#include <mutex>
#include <sstream>
#include <string>
#include <thread>
#include <unordered_map>
#include <unordered_set>
#include <vector>
#include <boost/optional.hpp>
#include <linux/futex.h>
#include <sys/syscall.h>
#include <sys/time.h>
#include <unistd.h>
#include "src/internal_config.h"
#include "src/kernel/EngineImpl.hpp"
#include "src/kernel/context/Context.hpp"
#include <simgrid/s4u.hpp>
#include <xbt/log.h>
#include <xbt/parmap.h>

#include "sched.hpp"

#define atomic_uint vx_atomic_uint
#define mutex vx_mutex
#define condition_variable vx_condvar
#define thread vx_thread
#define this_thread vx_this_thread
#define syscall vx_syscall
#define pthread_setaffinity_np(a, b, c) 0
#include "src/xbt/parmap.hpp"
#undef atomic_uint
#undef mutex
#undef condition_variable
#undef thread
#undef this_thread
#undef syscall
#undef pthread_setaffinity_np

using Pm = simgrid::xbt::Parmap<int>;

// ------------------------------------------------------------------ configuration and per-execution observation
static e_xbt_parmap_mode_t g_mode;
static const char* g_mode_name;
static int g_workers, g_n[4], g_applies, g_steal; // g_n[r]: size of the vector of apply r
constexpr int MAXA = 4, MAXN = 8;
static std::vector<int> g_data[MAXA];  // element i of apply r is the value r*MAXN+i
static int cnt[MAXA][MAXA * MAXN];     // cnt[r][v]: how often the function of apply r was called on value v
static int8_t who[MAXA][MAXA * MAXN];  // which thread did it last
static int phase;                      // 0: constructing, 1+r: in apply r, 100: destroying (master's progress, for messages)
alignas(Pm) static char pm_buf[sizeof(Pm)];
static Pm* const pm = reinterpret_cast<Pm*>(pm_buf);
static bool pm_live = false;

static void cnt_changed();
struct Fn {
  int r;
  void operator()(int v) const
  {
    px::event(px::K_CALL, ((uint64_t)r << 32) | (unsigned)v);
    if (v >= 0 && v < MAXA * MAXN) { cnt[r][v]++; who[r][v] = (int8_t)px::me; cnt_changed(); }
    else px::fail("WRONGVALUE", "the function was called on a value that is in no input vector");
    if (g_steal)
      while (auto nx = pm->next()) {
        int u = *nx;
        px::event(px::K_CALL, ((uint64_t)r << 32) | (unsigned)u);
        if (u >= 0 && u < MAXA * MAXN) { cnt[r][u]++; who[r][u] = (int8_t)px::me; cnt_changed(); }
        else px::fail("WRONGVALUE", "next() returned a value that is in no input vector");
      }
  }
};

// everything the threads can see of each other outside the shimmed objects
static uint64_t ctl_digest()
{
  uint64_t h = 17;
  if (pm_live) {
    h = px::mix(h, pm->destroying);
    int di = -1;
    for (int r = 0; r < g_applies; r++)
      if (pm->common_data == &g_data[r]) di = r;
    if (pm->common_data != nullptr && di < 0) di = 99;
    h = px::mix(h, (uint64_t)(di + 2));
    const Fn* f = pm->worker_fun ? pm->worker_fun.template target<Fn>() : nullptr;
    h = px::mix(h, (uint64_t)(f ? f->r + 2 : 1));
  }
  return h;
}
static uint64_t cnt_digest_v = 0; // digest of cnt/who, recomputed whenever they change
static void cnt_changed()
{
  uint64_t h = 5;
  for (int r = 0; r < g_applies; r++)
    for (int v = 0; v < g_applies * MAXN; v++)
      if (cnt[r][v]) h = px::mix(h, ((uint64_t)r << 40) ^ ((uint64_t)v << 24) ^ ((uint64_t)cnt[r][v] << 8) ^ (uint8_t)who[r][v]);
  cnt_digest_v = h;
}
static uint64_t plain_digest() { return cnt_digest_v; }

static std::string schedule_string(const std::vector<px::Pt>& pts, size_t upto)
{
  std::string s;
  size_t i = 0;
  while (i < upto) {
    size_t j = i;
    while (j < upto && pts[j].to == pts[i].to) j++;
    if (!s.empty()) s += ';';
    s += std::to_string((int)pts[i].to) + "/" + std::to_string(j - i);
    i = j;
  }
  return s;
}
static std::vector<int8_t> parse_schedule(const char* s)
{
  std::vector<int8_t> v;
  while (*s) {
    int t = 0, k = 1;
    if (sscanf(s, "%d/%d", &t, &k) < 1) { fprintf(stderr, "bad schedule\n"); _exit(2); }
    for (int i = 0; i < k; i++) v.push_back((int8_t)t);
    while (*s && *s != ';') s++;
    if (*s == ';') s++;
  }
  return v;
}
static std::string outcome_string()
{
  std::string s;
  for (int r = 0; r < g_applies; r++) {
    if (r) s += '|';
    for (int i = 0; i < g_n[r]; i++) {
      int v = r * MAXN + i;
      s += cnt[r][v] == 1 ? (char)('0' + who[r][v]) : (cnt[r][v] == 0 ? '-' : '#');
    }
  }
  return s;
}

// ------------------------------------------------------------------ statistics of an explore run / failure reporting
static bool g_replay = false, g_verbose = false;
static int g_bound, g_shard, g_nshards;
static const char* g_task = "";
static long st_exec = 0, st_points = 0, st_maxlen = 0, st_pruned = 0, st_nontrivial = 0, st_preempted = 0, st_maxpre = 0;
static long st_contended_obj[px::MAXO];
static std::map<std::string, long> st_outcomes;
static std::unordered_set<uint64_t> st_obs;
// visited states: open addressing, key h1, value (h2 with its low byte replaced by the least number of preemptions used)
struct Visited {
  std::vector<uint64_t> k, v;
  size_t n = 0, mask = 0;
  void clear() { k.assign(1 << 12, 0); v.assign(1 << 12, 0); n = 0; mask = (1 << 12) - 1; }
  size_t size() const { return n; }
  void grow()
  {
    std::vector<uint64_t> ok, ov;
    ok.swap(k); ov.swap(v);
    k.assign(ok.size() * 2, 0); v.assign(ok.size() * 2, 0); mask = k.size() - 1;
    for (size_t i = 0; i < ok.size(); i++)
      if (ok[i]) { size_t j = ok[i] & mask; while (k[j]) j = (j + 1) & mask; k[j] = ok[i]; v[j] = ov[i]; }
  }
  // true if (h1,h2) was already expanded with at most `cost` preemptions used; records (h1,h2,cost) otherwise
  bool seen_or_insert(uint64_t h1, uint64_t h2, int cost)
  {
    if (k.empty()) clear();
    if (h1 == 0) h1 = 1;
    uint64_t tag = h2 & ~uint64_t(0xff);
    size_t j = h1 & mask;
    while (k[j] && k[j] != h1) j = (j + 1) & mask;
    if (k[j] == h1 && (v[j] & ~uint64_t(0xff)) == tag) {
      if ((int)(v[j] & 0xff) <= cost) return true;
      v[j] = tag | (unsigned)cost;
      return false;
    }
    if (!k[j]) n++;
    k[j] = h1; v[j] = tag | (unsigned)cost; // (a different h2 under the same h1 is overwritten: conservative)
    if (n * 10 > k.size() * 6) grow();
    return false;
  }
};
static Visited visited;
static std::vector<std::string> st_samples;
static double now() { timespec t; clock_gettime(CLOCK_MONOTONIC, &t); return t.tv_sec + t.tv_nsec * 1e-9; }
static double t_start;
// per-execution watchdog on the CPU time of the process (not wall time: the machine may be overloaded)
static void watchdog(int seconds)
{
  itimerval t{};
  t.it_value.tv_sec = seconds;
  setitimer(ITIMER_PROF, &t, nullptr);
}

static std::string g_objname[px::MAXO];
static const char* obj_name_live(int id);
static void capture_names()
{
  for (int i = 0; i < px::nobj; i++)
    if (g_objname[i].empty()) g_objname[i] = obj_name_live(i);
}
static const char* obj_name(int id)
{
  if (id < 0 || id >= px::MAXO) return "-";
  if (g_objname[id].empty()) { static char buf[16]; snprintf(buf, sizeof buf, "obj%d", id); return buf; }
  return g_objname[id].c_str();
}
static const char* obj_name_live(int id)
{
  const void* a = px::objs[id].addr;
  if (a == &pm->work_round) return "work_round";
  if (a == &pm->thread_counter) return "thread_counter";
  if (a == &pm->common_index) return "common_index";
  if (g_mode == XBT_PARMAP_POSIX && pm_live) {
    auto* ps = static_cast<Pm::PosixSynchro*>(pm->synchro);
    if (a == &ps->ready_cond) return "ready_cond";
    if (a == &ps->ready_mutex) return "ready_mutex";
    if (a == &ps->done_cond) return "done_cond";
    if (a == &ps->done_mutex) return "done_mutex";
  }
  static char buf[16];
  snprintf(buf, sizeof buf, "obj%d", id);
  return buf;
}
static void print_trace()
{
  for (size_t i = 0; i < px::pts.size(); i++) {
    const px::Pt& p = px::pts[i];
    printf("P %zu run=%d enabled=", i, p.to);
    for (int t = 0; t < px::MAXT; t++) if (p.mask & (1u << t)) printf("%d", t);
    printf(" %s%s %s\n", (p.cur_en && p.to != p.from) ? "PREEMPT " : "", px::kind_name[p.kind], obj_name(p.obj));
  }
}
static std::string json_escape(const std::string& s)
{
  std::string o;
  for (char c : s) { if (c == '"' || c == '\\') o += '\\'; if (c == '\n') o += "\\n"; else o += c; }
  return o;
}
static void print_summary(const char* verdict, const char* detail)
{
  std::ostringstream o;
  o << "{\"task\":\"" << g_task << "\",\"bound\":" << g_bound << ",\"executions\":" << st_exec << ",\"points\":" << st_points << ",\"maxlen\":" << st_maxlen << ",\"pruned\":" << st_pruned
    << ",\"states\":" << visited.size() << ",\"nontrivial\":" << st_nontrivial << ",\"preempted\":" << st_preempted
    << ",\"max_preemptions\":" << st_maxpre << ",\"distinct_obs\":" << st_obs.size() << ",\"wall\":" << (now() - t_start);
  o << ",\"contended\":{";
  bool first = true;
  for (int i = 0; i < px::MAXO; i++)
    if (st_contended_obj[i]) { o << (first ? "" : ",") << "\"" << obj_name(i) << "\":" << st_contended_obj[i]; first = false; }
  o << "},\"outcomes\":{";
  first = true;
  for (auto& [k, n] : st_outcomes) { o << (first ? "" : ",") << "\"" << k << "\":" << n; first = false; }
  o << "},\"samples\":[";
  for (size_t i = 0; i < st_samples.size(); i++) o << (i ? "," : "") << st_samples[i];
  o << "]";
  if (verdict) {
    o << ",\"violation\":{\"verdict\":\"" << verdict << "\",\"detail\":\"" << json_escape(detail) << "\",\"schedule\":\""
      << schedule_string(px::pts, px::pts.size()) << "\",\"preemptions\":" << px::preemptions << ",\"phase\":" << phase
      << ",\"outcome\":\"" << outcome_string() << "\"}";
  }
  o << "}\n";
  fputs(o.str().c_str(), stdout);
  fflush(stdout);
}
static const char* phase_name()
{
  static char b[32];
  if (phase == 0) return "construction";
  if (phase == 100) return "destruction";
  if (phase == 101) return "end";
  snprintf(b, sizeof b, "apply%d", phase);
  return b;
}
namespace px {
[[noreturn]] static void fail(const char* verdict, const char* detail)
{
  watchdog(0);
  if (g_replay) {
    if (g_verbose) print_trace();
    printf("VERDICT %s phase=%s outcome=%s %s\nSCHEDULE %s\n", verdict, phase_name(), outcome_string().c_str(), detail,
           schedule_string(pts, pts.size()).c_str());
    fflush(stdout);
    _exit(0);
  }
  print_summary(verdict, detail);
  _exit(0);
}
} // namespace px
static void on_signal(int sig);
static void on_signal(int sig)
{
  char b[64];
  snprintf(b, sizeof b, sig == SIGPROF ? "TIMEOUT" : "CRASH-signal-%d", sig);
  px::fail(b, sig == SIGPROF ? "an execution used 20 s of CPU time without ending (loop without any synchronisation operation?)" : "");
}

// ------------------------------------------------------------------ one execution of the body under a given schedule prefix
struct Result { uint64_t obs; int contended; unsigned contended_objs; int preemptions; };

static void check_counts(int applied)
{
  for (int r = 0; r < g_applies; r++)
    for (int v = 0; v < g_applies * MAXN; v++) {
      int want = (r < applied && v / MAXN == r && v % MAXN < g_n[r]) ? 1 : 0;
      if (cnt[r][v] != want) {
        char d[200];
        snprintf(d, sizeof d, "after apply %d returned: function of apply %d ran %d time(s) on element %d of vector %d (expected %d)",
                 applied, r + 1, cnt[r][v], v % MAXN, v / MAXN + 1, want);
        px::fail("WRONGCOUNT", d);
      }
    }
}
static Result run_exec(const std::vector<int8_t>& prefix)
{
  px::reset();
  px::prefix = prefix;
  memset(cnt, 0, sizeof cnt);
  memset(who, -1, sizeof who);
  cnt_changed();
  phase = 0;
  if ((st_exec & 63) == 0) watchdog(20); // re-armed every 64 executions (each takes microseconds)
  pm_live = true;
  new (pm_buf) Pm(g_workers, g_mode);
  capture_names();
  for (int r = 0; r < g_applies; r++) {
    phase = r + 1;
    pm->apply(std::function<void(int)>(Fn{r}), g_data[r]);
    check_counts(r + 1);
  }
  phase = 100;
  pm->~Parmap();
  pm_live = false;
  phase = 101;
  px::th[0].st = px::DONE;
  for (int i = 1; i < px::nth; i++)
    if (px::th[i].st != px::DONE)
      px::fail("LEAKED-THREAD", "the destructor returned while a worker thread was still alive");
  if (px::nth != g_workers)
    px::fail("WRONG-THREADS", "the number of threads created is not workers-1");
  check_counts(g_applies);
  if (px::pts.size() < prefix.size())
    px::fail("DIVERGED", "the execution ended before the schedule was consumed");
  Result res;
  uint64_t h = 99;
  for (int i = 0; i < px::nth; i++) h = px::mix(h, px::th[i].h1);
  res.obs = h; res.contended = px::contended; res.contended_objs = px::contended_objs; res.preemptions = px::preemptions;
  return res;
}

// ------------------------------------------------------------------ DFS over schedules, bounded by the number of preemptions
// explore(prefix) runs ONE complete execution: the prefix, then the default continuation (never preempts).  Every scheduling point
// behind the prefix is a branching point: each other enabled thread whose choice keeps the preemption count within the bound is
// explored recursively with the extended prefix.  So every schedule with <= bound preemptions is the default continuation of
// exactly one explored prefix: complete and without repetition.
//
// Pruning (g_prune).  Pt::h1/h2 hash the global state in front of a point: for each thread its status, what it is blocked on, its
// announced operation, its spin bookkeeping and a hash of EVERYTHING IT HAS OBSERVED (the result of each of its operations and a
// digest of the plain shared memory -- destroying, common_data, worker_fun, the counters -- at each of them: between two of its
// operations no other thread runs, so that is all it can have read); the value of every shim object; the plain digest; who is
// running.  Thread code is deterministic, so two prefixes that reach the same hash have the same local states and the same shared
// state, hence the same set of continuations and verdicts.  If the state was already expanded having used no more preemptions,
// every continuation within the bound from here was (or is being: the recursion is depth-first and histories only grow, so there is
// no cycle) explored from there, and this execution is not expanded further.  The check re-runs a low bound without pruning in
// every run and requires the same set of final observations.
static bool g_prune;
static long subtree_no = 0;

static void explore(const std::vector<int8_t>& prefix, int cost_of_prefix, int depth, const std::vector<px::Pt>* parent)
{
  Result r = run_exec(prefix);
  std::vector<px::Pt> pts = px::pts; // this execution's points (px::pts is overwritten by the recursive calls)
  if (parent) // replaying a prefix must lead through exactly the same states
    for (size_t i = 0; i < prefix.size(); i++)
      if (pts[i].h1 != (*parent)[i].h1 || pts[i].h2 != (*parent)[i].h2 || pts[i].mask != (*parent)[i].mask)
        px::fail("NONDETERMINISM", "replaying a schedule prefix led to a different state: harness or code under test is not deterministic");
  st_exec++;
  st_points += (long)pts.size();
  st_maxlen = std::max(st_maxlen, (long)pts.size());
  if (r.contended) {
    st_nontrivial++;
    for (int i = 0; i < px::MAXO; i++) if (r.contended_objs & (1u << i)) st_contended_obj[i]++;
  }
  if (r.preemptions) st_preempted++;
  st_maxpre = std::max(st_maxpre, (long)r.preemptions);
  st_outcomes[outcome_string()]++;
  st_obs.insert(r.obs);
  if ((st_exec & (st_exec - 1)) == 0 && st_samples.size() < 24) { // executions number 1,2,4,8,...
    std::ostringstream o;
    o << "{\"schedule\":\"" << schedule_string(pts, pts.size()) << "\",\"obs\":\"" << std::hex << r.obs << std::dec << "\",\"outcome\":\""
      << outcome_string() << "\",\"preemptions\":" << r.preemptions << ",\"contended\":" << r.contended << "}";
    st_samples.push_back(o.str());
  }
  int cost = cost_of_prefix;
  for (size_t i = prefix.size(); i < pts.size(); i++) {
    const px::Pt& p = pts[i];
    if (g_prune) {
      if (visited.seen_or_insert(p.h1, p.h2, cost)) {
        st_pruned++;
        break; // the rest of this execution and all its alternatives were (or are being) expanded from the same state
      }
    }
    for (int t = 0; t < px::MAXT; t++) {
      if (!(p.mask & (1u << t)) || t == p.to) continue;
      int c2 = cost + ((p.cur_en && t != p.from) ? 1 : 0);
      if (c2 > g_bound) continue;
      if (depth == 0 && (subtree_no++ % g_nshards) != g_shard) continue;
      std::vector<int8_t> np(i + 1);
      for (size_t k = 0; k < i; k++) np[k] = pts[k].to;
      np[i] = (int8_t)t;
      explore(np, c2, depth + 1, &pts);
    }
    // the default continuation never preempts: cost unchanged
  }
}

static void parse_config(char** a)
{
  g_mode_name = a[0];
  if (!strcmp(a[0], "posix")) g_mode = XBT_PARMAP_POSIX;
  else if (!strcmp(a[0], "futex")) g_mode = XBT_PARMAP_FUTEX;
  else if (!strcmp(a[0], "busy_wait")) g_mode = XBT_PARMAP_BUSY_WAIT;
  else { fprintf(stderr, "unknown mode %s\n", a[0]); _exit(2); }
  g_workers = atoi(a[1]); g_applies = atoi(a[3]); g_steal = atoi(a[4]);
  if (g_workers < 1 || g_workers >= px::MAXT || g_applies < 1 || g_applies > MAXA) { fprintf(stderr, "configuration out of range\n"); _exit(2); }
  const char* p = a[2]; // "n" (every apply) or "n1,n2,..." (one size per apply)
  for (int r = 0; r < g_applies; r++) {
    g_n[r] = atoi(p);
    if (g_n[r] < 0 || g_n[r] > MAXN) { fprintf(stderr, "configuration out of range\n"); _exit(2); }
    if (strchr(p, ',')) p = strchr(p, ',') + 1;
    g_data[r].resize(g_n[r]);
    for (int i = 0; i < g_n[r]; i++) g_data[r][i] = r * MAXN + i;
  }
  px::plain_digest = plain_digest;
  px::ctl_digest = ctl_digest;
  px::tls_get = [] { return static_cast<void*>(simgrid::kernel::context::Context::self()); };
  px::tls_set = [](void* c) { simgrid::kernel::context::Context::set_current(static_cast<simgrid::kernel::context::Context*>(c)); };
}

// a = MODE W N APPLIES STEAL BOUNDS SHARD NSHARDS PRUNE OBSFILE
static void do_explore(char** a)
{
  parse_config(a);
  for (auto& n : g_objname) n.clear();
  g_shard = atoi(a[6]); g_nshards = atoi(a[7]); g_prune = atoi(a[8]);
  for (const char* p = a[5]; p && *p; p = strchr(p, ',') ? strchr(p, ',') + 1 : nullptr) { // BOUNDS may be a list "0,1,2"
    g_bound = atoi(p);
    st_exec = st_points = st_maxlen = st_pruned = st_nontrivial = st_preempted = st_maxpre = 0;
    memset(st_contended_obj, 0, sizeof st_contended_obj);
    st_outcomes.clear(); st_obs.clear(); visited.clear(); st_samples.clear(); subtree_no = 0;
    t_start = now();
    explore({}, 0, 0, nullptr);
    watchdog(0);
    if (strcmp(a[9], "-")) { // OBSFILE.b<bound>
      FILE* f = fopen((std::string(a[9]) + ".b" + std::to_string(g_bound)).c_str(), "wb");
      for (uint64_t x : st_obs) fwrite(&x, 8, 1, f);
      fclose(f);
    }
    print_summary(nullptr, nullptr);
  }
}

int main(int argc, char** argv)
{
  if (argc >= 3 && !strcmp(argv[1], "merge")) {
    std::vector<uint64_t> all;
    for (int i = 2; i < argc; i++) {
      FILE* f = fopen(argv[i], "rb");
      if (!f) continue;
      uint64_t x;
      while (fread(&x, 8, 1, f) == 1) all.push_back(x);
      fclose(f);
    }
    std::sort(all.begin(), all.end());
    printf("%zu\n", (size_t)(std::unique(all.begin(), all.end()) - all.begin()));
    return 0;
  }
  int one = 1;
  char* eargv[] = {argv[0], nullptr};
  simgrid::s4u::Engine e(&one, eargv);
  for (int s : {SIGSEGV, SIGABRT, SIGBUS, SIGFPE, SIGILL, SIGPROF}) signal(s, on_signal);
  t_start = now();
  if (argc >= 8 && !strcmp(argv[1], "replay")) {
    parse_config(argv + 2);
    g_replay = true;
    g_verbose = argc > 8;
    Result r = run_exec(parse_schedule(argv[7]));
    watchdog(0);
    if (g_verbose) print_trace();
    printf("VERDICT OK phase=end outcome=%s obs=%llx points=%zu preemptions=%d contended=%d\nSCHEDULE %s\n", outcome_string().c_str(),
           (unsigned long long)r.obs, px::pts.size(), r.preemptions, r.contended, schedule_string(px::pts, px::pts.size()).c_str());
    fflush(stdout);
    _exit(0);
  }
  if (argc >= 12 && !strcmp(argv[1], "explore")) {
    do_explore(argv + 2);
    _exit(0);
  }
  if (argc >= 3 && !strcmp(argv[1], "explorelist")) { // FILE: one task per line "ID MODE W N APPLIES STEAL BOUNDS SHARD NSHARDS PRUNE OBSFILE"
    FILE* f = fopen(argv[2], "r");
    if (!f) { fprintf(stderr, "cannot read %s\n", argv[2]); return 2; }
    static char line[1024];
    while (fgets(line, sizeof line, f)) {
      char* a[16]; int n = 0;
      for (char* t = strtok(line, " \n"); t && n < 16; t = strtok(nullptr, " \n")) a[n++] = t;
      if (n < 11) continue;
      g_task = a[0];
      do_explore(a + 1);
    }
    _exit(0);
  }
  fprintf(stderr, "usage: see the head of parmapx.cpp\n");
  return 2;
}
