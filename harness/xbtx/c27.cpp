/* C27 — driver for xbt_parse_get_{time,size,bandwidth,speed} (+ the two list variants).
 * stdin : one case per line, "<kind>\t<string>"  (kind: time size bandwidth speed bandwidths speeds; the string may
 *         contain spaces, never tabs or newlines)
 * stdout: one line per case: "ok <v>[ <v>…]" with values as C99 hex floats, or "err <exception type>: <message>"
 */
#include <cstdio>
#include <exception>
#include <iostream>
#include <simgrid/Exception.hpp>
#include <string>
#include <typeinfo>
#include <vector>
#include <xbt/log.h>
#include <xbt/parse_units.hpp>

int main()
{
  xbt_log_control_set("root.thres:critical"); // the deprecation warning for unit-less values is not the subject
  std::string line;
  while (std::getline(std::cin, line)) {
    size_t tab = line.find('\t');
    if (tab == std::string::npos) {
      puts("err harness: no tab");
      continue;
    }
    std::string kind = line.substr(0, tab), s = line.substr(tab + 1);
    std::string ent = "";
    if (not kind.empty() && kind.back() == '!') { // same call with an entity kind (warning path for unit-less values)
      kind.pop_back();
      ent = "entity";
    }
    try {
      std::vector<double> v;
      if (kind == "time")
        v.push_back(xbt_parse_get_time("f.xml", 1, s, ent));
      else if (kind == "size")
        v.push_back(xbt_parse_get_size("f.xml", 1, s, ent));
      else if (kind == "bandwidth")
        v.push_back(xbt_parse_get_bandwidth("f.xml", 1, s, ent));
      else if (kind == "speed")
        v.push_back(xbt_parse_get_speed("f.xml", 1, s, ent));
      else if (kind == "bandwidths")
        v = xbt_parse_get_bandwidths("f.xml", 1, s, ent);
      else if (kind == "speeds")
        v = xbt_parse_get_all_speeds("f.xml", 1, s, ent);
      else {
        puts("err harness: unknown kind");
        continue;
      }
      printf("ok");
      for (double d : v)
        printf(" %a", d);
      printf("\n");
    } catch (const simgrid::ParseError& e) {
      std::string m = e.what();
      for (auto& c : m)
        if (c == '\n' || c == '\t')
          c = ' ';
      printf("err ParseError: %s\n", m.c_str());
    } catch (const std::exception& e) {
      printf("err %s: %s\n", typeid(e).name(), e.what());
    }
  }
  fflush(stdout);
  return 0;
}
