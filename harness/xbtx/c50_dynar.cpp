/* C50 — xbt_dynar against std::vector<bytes>, every operation history up to a length bound.
 *
 * usage: c50_dynar <mode> <prefill> enum|one ...      mode: b1 | b12 (scalar elements of 1 / 12 bytes, no free_f)
 *                                                            | ptr    (elements are Obj*, free_f counts frees)
 * With -DC50_INLINE_SOURCES the file under test is compiled into this (ASan-instrumented) binary.
 */
#include "c50_common.hpp"
#include <xbt/dynar.h>
#ifdef C50_INLINE_SOURCES
#include "src/xbt/dynar.cpp"
#endif

struct Obj {
  int id;
  int val;
  int freed;
};

static int g_E;
static bool g_ptr;
static void free_cb(void* slot)
{
  Obj* o = *static_cast<Obj**>(slot);
  if (o)
    o->freed++;
}
static void map_cb(void* slot)
{
  if (g_ptr) {
    Obj* o = *static_cast<Obj**>(slot);
    if (o)
      o->val++;
  } else
    for (int j = 0; j < g_E; j++)
      static_cast<unsigned char*>(slot)[j]++;
}
static int objval(const void* slot)
{
  const Obj* o = *static_cast<Obj* const*>(slot);
  return o ? o->val : -1;
}
static int cmp_cb(const void* a, const void* b)
{
  if (g_ptr)
    return objval(a) - objval(b);
  return memcmp(a, b, g_E);
}

struct DynarModel {
  struct Op {
    uint8_t k;
    int8_t a;
  };
  enum K { PUSH, PUSHP, UNSHIFT, INS, RM, RMF, POP, POPP, SHIFT, SET, SORT, FE, RESET, MAP, NK };
  enum F { F_EXPAND, F_SHIFTMID, F_ZEROFILL, F_SORTCHG, F_FEPART, F_FREED, F_DUPVAL };
  int E;
  bool ptr;
  int prefill;
  const char* flag_name(unsigned b)
  {
    static const char* n[] = {"expand", "moved_elements", "zero_fill", "sort_changed_order", "foreach_partial_removal",
                              "free_f_called", "duplicate_values_present"};
    return b < 7 ? n[b] : "?";
  }
  static const char* kname(int k)
  {
    static const char* n[] = {"push", "pushp", "unshift", "ins", "rm",    "rmf", "pop",
                              "popp", "shift", "set",     "sort", "fe", "reset", "map"};
    return n[k];
  }
  static bool has_arg(int k) { return k == INS || k == RM || k == RMF || k == SET || k == FE; }
  std::string op_name(Op o)
  {
    std::string s = kname(o.k);
    if (has_arg(o.k))
      s += "@" + std::to_string((int)o.a);
    return s;
  }
  bool parse_op(const std::string& s, Op* o)
  {
    size_t at        = s.find('@');
    std::string name = s.substr(0, at);
    for (int k = 0; k < NK; k++)
      if (name == kname(k)) {
        o->k = k;
        o->a = 0;
        if (has_arg(k)) {
          if (at == std::string::npos)
            return false;
          o->a = atoi(s.c_str() + at + 1);
        }
        return true;
      }
    return false;
  }

  /* per-run state */
  std::vector<Obj> arena;
  std::vector<int> expval, expfreed;
  std::string mk(int val)
  {
    std::string e(E, '\0');
    if (ptr) {
      arena.push_back({(int)arena.size(), val, 0});
      expval.push_back(val);
      expfreed.push_back(0);
      Obj* p = &arena.back();
      memcpy(&e[0], &p, sizeof p);
    } else
      for (int j = 0; j < E; j++)
        e[j] = (char)(val + 37 * j);
    return e;
  }
  Obj* obj(const std::string& e)
  {
    static Obj bad{-1, -999, 0};
    Obj* p;
    memcpy(&p, e.data(), sizeof p);
    if (p && (p < arena.data() || p >= arena.data() + arena.size()))
      return &bad; // the implementation handed back something that was never stored
    return p;
  }
  std::string show(const std::string& e)
  {
    if (ptr) {
      Obj* p = obj(e);
      if (p && p->id < 0)
        return "garbage";
      return p ? "o" + std::to_string(p->id) + ":" + std::to_string(p->val) : std::string("null");
    }
    std::string s;
    char b[4];
    for (unsigned char c : e) {
      snprintf(b, sizeof b, "%02x", c);
      s += b;
    }
    return s;
  }
  std::string showv(const std::vector<std::string>& v)
  {
    std::string s = "[";
    for (size_t i = 0; i < v.size(); i++)
      s += (i ? ",\"" : "\"") + show(v[i]) + "\"";
    return s + "]";
  }
  bool pred(int which, size_t visit, const std::string& e)
  {
    if (which == 1)
      return true;
    if (which == 2)
      return visit == 0;
    if (ptr) {
      Obj* p = obj(e);
      return p && p->id >= 0 && (expval[p->id] & 1);
    }
    return (unsigned char)e[0] & 1;
  }
  void expect_free(const std::string& e)
  {
    if (ptr && obj(e) && obj(e)->id >= 0)
      expfreed[obj(e)->id]++;
  }

  /* full observable state of the implementation against the reference */
  std::string snapshot(xbt_dynar_t d, const std::vector<std::string>& ref, Info* info, std::vector<std::string>* seen)
  {
    char buf[64];
    size_t L = ref.size();
    info->impl_ops += 2;
    if (seen) // what the implementation shows, whatever the reference thinks
      for (size_t i = 0; i < xbt_dynar_length(d) && i < 40; i++) {
        xbt_dynar_get_cpy(d, i, buf);
        seen->push_back(std::string(buf, E));
      }
    if (xbt_dynar_length(d) != L)
      return "length " + std::to_string(xbt_dynar_length(d)) + " != " + std::to_string(L);
    if (xbt_dynar_is_empty(d) != (L == 0))
      return "is_empty wrong";
    for (size_t i = 0; i < L; i++) {
      memset(buf, 0xAA, sizeof buf);
      xbt_dynar_get_cpy(d, i, buf);
      info->impl_ops += 2;
      if (memcmp(buf, ref[i].data(), E) != 0)
        return "get_cpy(" + std::to_string(i) + ")=" + show(std::string(buf, E)) + " expected " + show(ref[i]);
      if ((unsigned char)buf[E] != 0xAA)
        return "get_cpy wrote past elmsize";
      if (memcmp(xbt_dynar_get_ptr(d, i), ref[i].data(), E) != 0)
        return "get_ptr(" + std::to_string(i) + ") differs";
    }
    unsigned cur;
    size_t n = 0;
    for (cur = 0; _xbt_dynar_cursor_get(d, cur, buf); cur++) { // == xbt_dynar_foreach(d, cur, buf)
      if (n >= L || memcmp(buf, ref[n].data(), E) != 0)
        return "foreach yields a wrong element at position " + std::to_string(n);
      n++;
    }
    info->impl_ops += n + 1;
    if (n != L)
      return "foreach visited " + std::to_string(n) + " elements, expected " + std::to_string(L);
    for (size_t i = 0; i < L; i++) {
      info->impl_ops++;
      if (not xbt_dynar_member(d, ref[i].data()))
        return "member(element " + std::to_string(i) + ") is false";
    }
    std::string absent(E, (char)0xEE);
    info->impl_ops++;
    if (xbt_dynar_member(d, absent.data()))
      return "member(absent) is true";
    if (ptr)
      for (auto const& o : arena) {
        if (o.freed != expfreed[o.id])
          return "object o" + std::to_string(o.id) + " freed " + std::to_string(o.freed) + " time(s), expected " +
                 std::to_string(expfreed[o.id]);
        if (o.val != expval[o.id])
          return "object o" + std::to_string(o.id) + " has value " + std::to_string(o.val) + ", expected " +
                 std::to_string(expval[o.id]);
      }
    return "";
  }

  std::string run(const std::vector<Op>& hist, int check_from, std::vector<Op>* next, Info* info, FILE* verbose)
  {
    static const int PAL[] = {5, 3, 9, 3, 1, 7, 2, 8, 6, 4};
    static const int PRE[] = {4, 6, 0, 6, 2, 10, 12, 14};
    g_E   = E;
    g_ptr = ptr;
    arena.clear();
    expval.clear();
    expfreed.clear();
    arena.reserve(prefill + hist.size() + 4);
    std::vector<std::string> ref;
    std::string err;
    xbt_dynar_t d = xbt_dynar_new(E, ptr ? free_cb : nullptr);
    for (int j = 0; j < prefill; j++) {
      std::string e = mk(PRE[j % 8]);
      xbt_dynar_push(d, e.data());
      ref.push_back(e);
    }
    if (check_from < 0) {
      err = snapshot(d, ref, info, nullptr);
      if (verbose)
        fprintf(verbose, "{\"step\":-1,\"op\":\"start\",\"ret\":\"\",\"snap\":%s}\n", showv(ref).c_str());
    }
    char out[64];
    for (size_t s = 0; s < hist.size() && err.empty(); s++) {
      Op o             = hist[s];
      bool check       = (int)s >= check_from;
      bool last        = s + 1 == hist.size();
      size_t L         = ref.size();
      unsigned long sz = d->size;
      std::string ret, expret;
      unsigned fl = 0;
      size_t a    = o.a;
      info->ref_ops++;
      info->impl_ops++;
      memset(out, 0xAA, sizeof out);
      switch (o.k) {
        case PUSH: {
          std::string e = mk(PAL[s % 10]);
          xbt_dynar_push(d, e.data());
          ref.push_back(e);
        } break;
        case PUSHP: {
          std::string e = mk(PAL[s % 10]);
          memcpy(xbt_dynar_push_ptr(d), e.data(), E);
          ref.push_back(e);
        } break;
        case UNSHIFT: {
          std::string e = mk(PAL[s % 10]);
          xbt_dynar_unshift(d, e.data());
          ref.insert(ref.begin(), e);
          if (L)
            fl |= 1u << F_SHIFTMID;
        } break;
        case INS: {
          std::string e = mk(PAL[s % 10]);
          xbt_dynar_insert_at(d, o.a, e.data());
          ref.insert(ref.begin() + a, e);
          if (a < L)
            fl |= 1u << F_SHIFTMID;
        } break;
        case RM:
          xbt_dynar_remove_at(d, o.a, out);
          ret    = show(std::string(out, E));
          expret = show(ref[a]);
          ref.erase(ref.begin() + a);
          if (a + 1 < L)
            fl |= 1u << F_SHIFTMID;
          break;
        case RMF:
          xbt_dynar_remove_at(d, o.a, nullptr);
          expect_free(ref[a]);
          if (ptr && obj(ref[a]))
            fl |= 1u << F_FREED;
          ref.erase(ref.begin() + a);
          if (a + 1 < L)
            fl |= 1u << F_SHIFTMID;
          break;
        case POP:
          xbt_dynar_pop(d, out);
          ret    = show(std::string(out, E));
          expret = show(ref.back());
          ref.pop_back();
          break;
        case POPP:
          memcpy(out, xbt_dynar_pop_ptr(d), E);
          ret    = show(std::string(out, E));
          expret = show(ref.back());
          ref.pop_back();
          break;
        case SHIFT:
          xbt_dynar_shift(d, out);
          ret    = show(std::string(out, E));
          expret = show(ref.front());
          ref.erase(ref.begin());
          if (L > 1)
            fl |= 1u << F_SHIFTMID;
          break;
        case SET: {
          std::string e = mk(PAL[s % 10]);
          memcpy(xbt_dynar_set_at_ptr(d, a), e.data(), E); // == xbt_dynar_set_as
          if (a < L)
            ref[a] = e;
          else {
            while (ref.size() < a) {
              ref.push_back(std::string(E, '\0'));
              fl |= 1u << F_ZEROFILL;
            }
            ref.push_back(e);
          }
        } break;
        case SORT: {
          xbt_dynar_sort(d, cmp_cb);
          std::vector<std::string> before = ref;
          if (ptr) {
            std::stable_sort(ref.begin(), ref.end(), [this](const std::string& x, const std::string& y) {
              return (obj(x) ? expval[obj(x)->id] : -1) < (obj(y) ? expval[obj(y)->id] : -1);
            });
            /* qsort is not stable: the order among objects of equal value is left open. Accept any sorted permutation
             * of the same objects, and continue from the order the implementation chose. */
            if (xbt_dynar_length(d) == L) {
              std::vector<std::string> got;
              for (size_t i = 0; i < L; i++)
                got.push_back(std::string(static_cast<char*>(d->data) + i * E, E));
              bool okv = true;
              for (size_t i = 0; i < L && okv; i++)
                okv = objval(got[i].data()) == objval(ref[i].data());
              std::vector<std::string> g2 = got, r2 = ref;
              std::sort(g2.begin(), g2.end());
              std::sort(r2.begin(), r2.end());
              if (okv && g2 == r2)
                ref = got;
            }
          } else
            std::sort(ref.begin(), ref.end(),
                      [this](const std::string& x, const std::string& y) { return memcmp(x.data(), y.data(), E) < 0; });
          if (ref != before)
            fl |= 1u << F_SORTCHG;
        } break;
        case FE: {
          std::vector<std::string> visited, keep;
          unsigned cur;
          for (cur = 0; _xbt_dynar_cursor_get(d, cur, out); cur++) { // xbt_dynar_foreach(d, cur, out)
            std::string e(out, E);
            info->impl_ops++;
            if (visited.size() > L + 2)
              break;
            if (pred(o.a, visited.size(), e)) {
              xbt_dynar_remove_at(d, cur, nullptr); // the documented "fix the counter yourself" idiom
              cur--;
            }
            visited.push_back(e);
          }
          for (size_t i = 0; i < L; i++)
            if (pred(o.a, i, ref[i])) {
              expect_free(ref[i]);
              if (ptr && obj(ref[i]))
                fl |= 1u << F_FREED;
            } else
              keep.push_back(ref[i]);
          ret    = showv(visited);
          expret = showv(ref);
          if (not keep.empty() && keep.size() < L)
            fl |= 1u << F_FEPART;
          ref = keep;
        } break;
        case RESET:
          xbt_dynar_reset(d);
          for (auto const& e : ref) {
            expect_free(e);
            if (ptr && obj(e))
              fl |= 1u << F_FREED;
          }
          ref.clear();
          break;
        case MAP:
          xbt_dynar_map(d, map_cb);
          for (auto& e : ref)
            if (ptr) {
              if (obj(e))
                expval[obj(e)->id]++;
            } else
              for (auto& c : e)
                c++;
          break;
      }
      if (d->size != sz)
        fl |= 1u << F_EXPAND;
      {
        std::vector<std::string> srt = ref;
        std::sort(srt.begin(), srt.end());
        if (std::adjacent_find(srt.begin(), srt.end()) != srt.end())
          fl |= 1u << F_DUPVAL;
      }
      if (last)
        info->flags = fl;
      if (check || verbose) {
        if (ret != expret)
          err = "step " + std::to_string(s) + " " + op_name(o) + " returned " + ret + ", expected " + expret;
        std::vector<std::string> seen;
        if (not err.empty())
          snapshot(d, ref, info, &seen);
        else {
          err = snapshot(d, ref, info, verbose ? &seen : nullptr);
          if (not err.empty())
            err = "after step " + std::to_string(s) + " " + op_name(o) + ": " + err;
        }
        if (verbose)
          fprintf(verbose, "{\"step\":%zu,\"op\":\"%s\",\"ret\":\"%s\",\"snap\":%s}\n", s, op_name(o).c_str(),
                  json_escape(ret).c_str(), showv(seen).c_str());
      }
    }
    /* state = what the reference holds now */
    uint64_t h = fnv(&prefill, sizeof prefill);
    for (auto const& e : ref) {
      if (ptr) {
        int v = obj(e) ? expval[obj(e)->id] : -1;
        h     = fnv(&v, sizeof v, h);
      } else
        h = fnv(e.data(), E, h);
      h = fnv("|", 1, h);
    }
    info->state_hash = h;
    /* enabled operations in the final state (well-formed by construction: no index out of range, no pop on empty) */
    next->clear();
    int L = ref.size();
    auto add = [&](int k, int a) { next->push_back({(uint8_t)k, (int8_t)a}); };
    add(PUSH, 0);
    add(PUSHP, 0);
    add(UNSHIFT, 0);
    for (int i = 0; i <= L; i++)
      add(INS, i);
    for (int i = 0; i < L; i++)
      add(RM, i);
    for (int i = 0; i < L; i++)
      add(RMF, i);
    if (L > 0) {
      add(POP, 0);
      add(POPP, 0);
      add(SHIFT, 0);
    }
    for (int i = 0; i <= L + 1; i++)
      add(SET, i);
    add(SORT, 0);
    for (int i = 0; i < 3; i++)
      add(FE, i);
    add(RESET, 0);
    add(MAP, 0);
    /* destruction: every element still inside is handed to free_f exactly once */
    xbt_dynar_free(&d);
    info->impl_ops++;
    if (check_from != NOCHECK && err.empty()) {
      if (d != nullptr)
        err = "xbt_dynar_free did not reset the handle";
      for (auto const& e : ref)
        expect_free(e);
      for (auto const& o : arena)
        if (err.empty() && o.freed != expfreed[o.id])
          err = "after xbt_dynar_free: object o" + std::to_string(o.id) + " freed " + std::to_string(o.freed) +
                " time(s), expected " + std::to_string(expfreed[o.id]);
    }
    return err;
  }
};

int main(int argc, char** argv)
{
  if (argc < 4) {
    fprintf(stderr, "usage: c50_dynar b1|b12|ptr <prefill> enum|one ...\n");
    return 2;
  }
  DynarModel m;
  std::string mode = argv[1];
  m.ptr            = mode == "ptr";
  m.E              = m.ptr ? (int)sizeof(void*) : atoi(argv[1] + 1);
  m.prefill        = atoi(argv[2]);
  if (m.E < 1 || m.E > 32)
    return 2;
  return driver_main(m, argc, argv, 3);
}
