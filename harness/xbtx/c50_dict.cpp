/* C50 — xbt_dict against std::map<string, Obj*>, every operation history up to a length bound.
 *
 * usage: c50_dict <mode> <prefill> enum|one ...   mode: free (free_f counts frees) | plain (no free_f)
 *                                                 prefill: keys p0,p1,… are set until the table has that many
 *                                                 occupied cells (0; 102 = one new cell away from the first rehash;
 *                                                 204 = one away from the second)
 * The ASan flavour of this harness is linked with /repo's dict.cpp, dict_cursor.c and dict_elm.c themselves.
 */
#include "c50_common.hpp"
#include "src/xbt/dict_private.h"
#include <stdexcept>
#include <xbt/dict.h>
#include <xbt/str.h>

struct Obj {
  int id;
  int freed;
};
static void free_cb(void* p)
{
  static_cast<Obj*>(p)->freed++;
}

struct DictModel {
  struct Op {
    uint8_t k;
    int8_t a;
  };
  enum K { SET, SETN, SETE, RM, RME, NK };
  enum F { F_CHAIN, F_REHASH, F_REPLACE, F_ABSENT, F_FREED, F_NULLDATA };
  bool use_free;
  int prefill;
  std::vector<std::string> keys; // the key alphabet
  const char* flag_name(unsigned b)
  {
    static const char* n[] = {"collision_chain_touched", "rehash", "replaced_existing", "remove_absent_throws",
                              "free_f_called", "null_data_stored"};
    return b < 6 ? n[b] : "?";
  }
  static const char* kname(int k)
  {
    static const char* n[] = {"set", "setnull", "set_ext_ab1", "rm", "rm_ext_ab1"};
    return n[k];
  }
  static bool has_arg(int k) { return k == SET || k == SETN || k == RM; }
  std::string op_name(Op o)
  {
    std::string s = kname(o.k);
    if (has_arg(o.k))
      s += "@k" + std::to_string((int)o.a);
    return s;
  }
  bool parse_op(const std::string& s, Op* o)
  {
    size_t at        = s.find('@');
    std::string name = s.substr(0, at);
    for (int k = 0; k < NK; k++)
      if (name == kname(k)) {
        o->k = k;
        o->a = 0;
        if (has_arg(k)) {
          if (at == std::string::npos || s.size() < at + 3)
            return false;
          o->a = atoi(s.c_str() + at + 2);
          if (o->a < 0 || o->a >= (int)keys.size())
            return false;
        }
        return true;
      }
    return false;
  }

  void choose_keys()
  {
    /* "", "a", "b", "ab" + two keys that really collide with "a": k4 shares its cell in the 128-cell table only,
     * k5 also in the 256- and 512-cell tables (found by plain search; the hash is only used to pick the alphabet) */
    keys               = {"", "a", "b", "ab"};
    unsigned ha        = xbt_str_hash("a");
    std::string k4, k5;
    const char* alpha = "cdefghijklmnopqrstuvwxyz";
    for (int len = 2; len <= 4 && (k4.empty() || k5.empty()); len++) {
      std::vector<int> idx(len, 0);
      while (true) {
        std::string s;
        for (int i : idx)
          s += alpha[i];
        unsigned h = xbt_str_hash(s.c_str());
        if (k4.empty() && (h & 127) == (ha & 127) && (h & 128) != (ha & 128))
          k4 = s;
        if (k5.empty() && (h & 511) == (ha & 511) && h != ha)
          k5 = s;
        int p = len - 1;
        while (p >= 0 && ++idx[p] == 24)
          idx[p--] = 0;
        if (p < 0 || (not k4.empty() && not k5.empty()))
          break;
      }
    }
    keys.push_back(k4);
    keys.push_back(k5);
  }

  std::vector<Obj> arena;
  std::vector<int> expfreed;
  Obj* mk()
  {
    arena.push_back({(int)arena.size(), 0});
    expfreed.push_back(0);
    return &arena.back();
  }
  std::string show(void* p)
  {
    if (not p)
      return "null";
    Obj* o = static_cast<Obj*>(p);
    if (o < arena.data() || o >= arena.data() + arena.size())
      return "garbage";
    return "o" + std::to_string(o->id);
  }
  using Ref = std::map<std::string, Obj*>;
  std::string showm(const std::vector<std::pair<std::string, std::string>>& v)
  {
    std::string s = "{";
    for (size_t i = 0; i < v.size(); i++)
      s += (i ? ",\"" : "\"") + json_escape(v[i].first) + "\":\"" + v[i].second + "\"";
    return s + "}";
  }
  void expect_free(Obj* o)
  {
    if (use_free && o)
      expfreed[o->id]++;
  }
  static size_t chain_len(xbt_dict_t d, const std::string& key)
  {
    size_t n = 0;
    for (xbt_dictelm_t e = d->table[xbt_str_hash(key.c_str()) & d->table_size]; e; e = e->next)
      n++;
    return n;
  }

  std::string snapshot(xbt_dict_t d, const Ref& ref, const std::vector<std::string>& probe, Info* info,
                       std::vector<std::pair<std::string, std::string>>* seen)
  {
    /* traversal: every (key, data) pair exactly once, in any order */
    std::vector<std::pair<std::string, std::string>> walk, want;
    xbt_dict_cursor_t cursor = nullptr;
    char* key;
    void* data;
    std::string err;
    xbt_dict_foreach (d, cursor, key, data) {
      info->impl_ops += 3;
      if (xbt_dict_cursor_get_key(cursor) != key || xbt_dict_cursor_get_data(cursor) != data)
        err = "cursor_get_key/data disagree with cursor_get_or_free";
      walk.emplace_back(key, show(data));
      if (walk.size() > ref.size() + 8) { // a cycle in a chain would never end
        xbt_dict_cursor_free(&cursor);
        break;
      }
    }
    if (cursor != nullptr && walk.size() <= ref.size() + 8)
      err = "foreach left a cursor behind";
    std::sort(walk.begin(), walk.end());
    if (seen)
      *seen = walk;
    if (not err.empty())
      return err;
    for (auto const& [k, o] : ref)
      want.emplace_back(k, show(o));
    info->impl_ops += 3;
    if (xbt_dict_length(d) != (int)ref.size())
      return "length " + std::to_string(xbt_dict_length(d)) + " != " + std::to_string(ref.size());
    if (xbt_dict_size(d) != ref.size())
      return "size " + std::to_string(xbt_dict_size(d)) + " != " + std::to_string(ref.size());
    if (xbt_dict_is_empty(d) != ref.empty())
      return "is_empty wrong";
    if (walk != want) {
      for (size_t i = 0; i < std::max(walk.size(), want.size()); i++)
        if (i >= walk.size() || i >= want.size() || walk[i] != want[i])
          return "traversal differs from the reference map: " +
                 (i < walk.size() ? "saw " + walk[i].first + "=" + walk[i].second : std::string("missing")) + ", " +
                 (i < want.size() ? "expected " + want[i].first + "=" + want[i].second : std::string("nothing more"));
    }
    for (auto const& k : probe) {
      auto it        = ref.find(k);
      bool in        = it != ref.end();
      void* expected = in ? it->second : nullptr;
      info->impl_ops += 3;
      if (xbt_dict_get_or_null(d, k.c_str()) != expected)
        return "get_or_null(" + k + ")=" + show(xbt_dict_get_or_null(d, k.c_str())) + " expected " + show(expected);
      std::string padded = k + "#tail"; // _ext must look at key_len bytes only
      if (xbt_dict_get_or_null_ext(d, padded.c_str(), k.size()) != expected)
        return "get_or_null_ext(" + k + ") wrong";
      xbt_dictelm_t e = xbt_dict_get_elm_or_null(d, k.c_str());
      if ((e != nullptr) != in)
        return "get_elm_or_null(" + k + ") is " + (e ? "an element" : "null") + " but the key is " +
               (in ? "present" : "absent");
      if (e && (k != e->key || e->content != expected || e->key_len != (int)k.size()))
        return "get_elm_or_null(" + k + ") returns a wrong element";
    }
    for (auto const& o : arena)
      if (o.freed != expfreed[o.id])
        return "object o" + std::to_string(o.id) + " freed " + std::to_string(o.freed) + " time(s), expected " +
               std::to_string(expfreed[o.id]);
    return "";
  }

  std::string run(const std::vector<Op>& hist, int check_from, std::vector<Op>* next, Info* info, FILE* verbose)
  {
    arena.clear();
    expfreed.clear();
    arena.reserve(prefill * 3 + hist.size() + 8);
    Ref ref;
    std::string err;
    xbt_dict_t d                   = xbt_dict_new_homogeneous(use_free ? free_cb : nullptr);
    std::vector<std::string> probe = keys;
    probe.push_back("zz~absent");
    for (int j = 0; d->fill < prefill && j < 3 * prefill; j++) {
      std::string k = "p" + std::to_string(j);
      Obj* o        = mk();
      xbt_dict_set(d, k.c_str(), o);
      ref[k] = o;
      if (j % 16 == 0)
        probe.push_back(k);
    }
    std::vector<std::pair<std::string, std::string>> seen;
    if (check_from < 0) {
      err = snapshot(d, ref, probe, info, &seen);
      if (verbose) {
        std::string ks;
        for (size_t i = 0; i < keys.size(); i++)
          ks += (i ? ",\"" : "\"") + json_escape(keys[i]) + "\"";
        fprintf(verbose, "{\"step\":-1,\"op\":\"start\",\"keys\":[%s],\"ret\":\"\",\"snap\":%s}\n", ks.c_str(),
                showm(seen).c_str());
      }
    }
    for (size_t s = 0; s < hist.size() && err.empty(); s++) {
      Op o         = hist[s];
      bool check   = (int)s >= check_from;
      bool last    = s + 1 == hist.size();
      int old_size = d->table_size;
      unsigned fl  = 0;
      std::string ret, expret;
      std::string key = o.k == SETE || o.k == RME ? "a" : keys[o.a];
      if (chain_len(d, key) > 1)
        fl |= 1u << F_CHAIN;
      info->ref_ops++;
      info->impl_ops++;
      auto old    = ref.find(key);
      bool had    = old != ref.end();
      switch (o.k) {
        case SET:
        case SETN:
        case SETE: {
          Obj* v = o.k == SETN ? nullptr : mk();
          if (o.k == SETE)
            xbt_dict_set_ext(d, "ab", 1, v);
          else
            xbt_dict_set(d, key.c_str(), v);
          if (had) {
            fl |= 1u << F_REPLACE;
            if (use_free && old->second)
              fl |= 1u << F_FREED;
            expect_free(old->second);
          }
          if (not v)
            fl |= 1u << F_NULLDATA;
          ref[key] = v;
        } break;
        case RM:
        case RME:
          try {
            if (o.k == RME)
              xbt_dict_remove_ext(d, "ab", 1);
            else
              xbt_dict_remove_ext(d, key.c_str(), key.size());
            ret = "removed";
          } catch (const std::out_of_range&) {
            ret = "out_of_range";
          }
          expret = had ? "removed" : "out_of_range";
          if (had) {
            if (use_free && old->second)
              fl |= 1u << F_FREED;
            expect_free(old->second);
            ref.erase(old);
          } else
            fl |= 1u << F_ABSENT;
          break;
      }
      if (chain_len(d, key) > 1)
        fl |= 1u << F_CHAIN;
      if (d->table_size != old_size)
        fl |= 1u << F_REHASH;
      if (last)
        info->flags = fl;
      if (check || verbose) {
        if (ret != expret)
          err = "step " + std::to_string(s) + " " + op_name(o) + ": " + ret + ", expected " + expret;
        seen.clear();
        std::string e2 = snapshot(d, ref, probe, info, &seen);
        if (err.empty() && not e2.empty())
          err = "after step " + std::to_string(s) + " " + op_name(o) + ": " + e2;
        if (verbose)
          fprintf(verbose, "{\"step\":%zu,\"op\":\"%s\",\"ret\":\"%s\",\"snap\":%s}\n", s, op_name(o).c_str(),
                  ret.c_str(), showm(seen).c_str());
      }
    }
    uint64_t h = fnv(&prefill, sizeof prefill);
    for (auto const& [k, o] : ref) {
      int id = o ? o->id : -1;
      h      = fnv(k.data(), k.size() + 1, h);
      h      = fnv(&id, sizeof id, h);
    }
    info->state_hash = h;
    next->clear();
    for (int k = 0; k < (int)keys.size(); k++)
      next->push_back({SET, (int8_t)k});
    next->push_back({SETN, 1});
    next->push_back({SETN, 4});
    next->push_back({SETE, 0});
    for (int k = 0; k < (int)keys.size(); k++)
      next->push_back({RM, (int8_t)k});
    next->push_back({RME, 0});
    xbt_dict_free(&d);
    info->impl_ops++;
    if (check_from != NOCHECK && err.empty()) {
      if (d != nullptr)
        err = "xbt_dict_free did not reset the handle";
      for (auto const& [k, o] : ref)
        expect_free(o);
      for (auto const& o : arena)
        if (err.empty() && o.freed != expfreed[o.id])
          err = "after xbt_dict_free: object o" + std::to_string(o.id) + " freed " + std::to_string(o.freed) +
                " time(s), expected " + std::to_string(expfreed[o.id]);
    }
    return err;
  }
};

int main(int argc, char** argv)
{
  if (argc < 4) {
    fprintf(stderr, "usage: c50_dict free|plain <prefill> enum|one ...\n");
    return 2;
  }
  DictModel m;
  m.use_free = std::string(argv[1]) == "free";
  m.prefill  = atoi(argv[2]);
  m.choose_keys();
  if (m.keys[4].empty() || m.keys[5].empty()) {
    fprintf(stderr, "no colliding keys found\n");
    return 2;
  }
  return driver_main(m, argc, argv, 3);
}
