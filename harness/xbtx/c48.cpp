/* C48 — configuration items: one forked child per case, on top of an initialised Engine.
 *
 *   c48 [--cfg=… | --help | --help-aliases …] list         -> (with --help / --help-aliases on the command line the
 *                                                              library prints the registry and exits by itself)
 *   c48 [--cfg=name:value …] show <type> <name> [<type> <name>…] -> values stored after the REAL command-line parsing
 *   (environment C48_MC_REPLAY=1: the Engine is created with a record/replay path set, which unlocks the MC items)
 *   c48 cases [K]                                          -> stdin: one case per line, tab separated (K: batch size)
 *         <route> \t <name> \t <type> \t <value> \t <readname>
 *       route: parse   simgrid::config::set_parse("name:value")   (what sg_config_cmd_line does with --cfg=)
 *              string  simgrid::config::set_as_string(name, value)
 *              typed   simgrid::config::set_value<T>(name, T(value))  (value converted by the harness)
 *              capi    sg_cfg_set_int/double/boolean/string(name, …)
 *              get     nothing is set: reports the current value
 *       output, one line per case: "<idx> ok <stored value> default=<0|1> before=<value> side=<…>"
 *                                  "<idx> exc <what kind>: <first line of the message>"
 *                                  "<idx> sig <signal>"        (xbt_die / uncaught exception in a callback)
 */
#include <cmath>
#include <csignal>
#include <cstdio>
#include <cstring>
#include <fcntl.h>
#include <iostream>
#include <simgrid/s4u/Engine.hpp>
#include <sstream>
#include <stdexcept>
#include <string>
#include <algorithm>
#include <sys/mman.h>
#include <sys/resource.h>
#include <sys/wait.h>
#include <typeinfo>
#include <unistd.h>
#include <vector>
#include <xbt/config.h>
#include <xbt/config.hpp>

#include "src/kernel/context/Context.hpp"
#include "src/kernel/lmm/System.hpp"
#include "src/mc/mc_config.hpp"
#include "src/mc/mc_replay.hpp"

namespace cfg = simgrid::config;
using simgrid::kernel::context::Context;

static std::string show(const std::string& type, const std::string& name)
{
  char buf[64];
  if (type == "int")
    return std::to_string(cfg::get_value<int>(name));
  if (type == "double") {
    snprintf(buf, sizeof buf, "%a", cfg::get_value<double>(name));
    return buf;
  }
  if (type == "boolean")
    return cfg::get_value<bool>(name) ? "true" : "false";
  return "[" + cfg::get_value<std::string>(name) + "]";
}

/* what the item's callback is known to do besides storing: observed, not trusted */
static std::string side(const std::string& name)
{
  char buf[96];
  if (name == "precision/timing")
    snprintf(buf, sizeof buf, "%a", sg_precision_timing);
  else if (name == "precision/work-amount")
    snprintf(buf, sizeof buf, "%a", sg_precision_workamount);
  else if (name == "maxmin/concurrency-limit")
    snprintf(buf, sizeof buf, "%d", sg_concurrency_limit);
  else if (name == "contexts/stack-size")
    snprintf(buf, sizeof buf, "%u", Context::stack_size);
  else if (name == "contexts/guard-size")
    snprintf(buf, sizeof buf, "%u/%d", Context::guard_size, xbt_pagesize);
  else if (name == "contexts/nthreads")
    snprintf(buf, sizeof buf, "%d", Context::get_nthreads());
  else if (name == "contexts/synchro")
    snprintf(buf, sizeof buf, "%d", (int)Context::parallel_mode);
  else
    return "-";
  return buf;
}

static std::string first_line(std::string s)
{
  size_t p = s.find('\n');
  if (p != std::string::npos)
    s.resize(p);
  for (auto& c : s)
    if (c == '\t')
      c = ' ';
  return s;
}

static bool to_bool(const std::string& v)
{
  for (const char* t : {"yes", "on", "true", "1"})
    if (strcasecmp(t, v.c_str()) == 0)
      return true;
  return false;
}

static void child(size_t idx, const std::vector<std::string>& f)
{
  const std::string &route = f[0], &name = f[1], &type = f[2], &value = f[3], &readname = f[4];
  std::string before;
  try {
    before = show(type, readname);
  } catch (const std::exception& e) {
    before = "?";
  }
  try {
    if (route == "get") {
      // nothing: report the current (default) value
    } else if (route == "parse")
      cfg::set_parse(name + ":" + value);
    else if (route == "string")
      cfg::set_as_string(name.c_str(), value);
    else if (route == "typed") {
      if (type == "int")
        cfg::set_value<int>(name.c_str(), atoi(value.c_str()));
      else if (type == "double")
        cfg::set_value<double>(name.c_str(), strtod(value.c_str(), nullptr));
      else if (type == "boolean")
        cfg::set_value<bool>(name.c_str(), to_bool(value));
      else
        cfg::set_value<std::string>(name.c_str(), value);
    } else if (route == "capi") {
      if (type == "int")
        sg_cfg_set_int(name.c_str(), atoi(value.c_str()));
      else if (type == "double")
        sg_cfg_set_double(name.c_str(), strtod(value.c_str(), nullptr));
      else if (type == "boolean")
        sg_cfg_set_boolean(name.c_str(), value.c_str());
      else
        sg_cfg_set_string(name.c_str(), value.c_str());
    } else {
      printf("%zu exc harness: unknown route\n", idx);
      return;
    }
    std::string now = show(type, readname);
    std::string capi = "-";
    if (type == "int")
      capi = std::to_string(sg_cfg_get_int(readname.c_str()));
    else if (type == "boolean")
      capi = sg_cfg_get_boolean(readname.c_str()) ? "true" : "false";
    else if (type == "double") {
      char buf[64];
      snprintf(buf, sizeof buf, "%a", sg_cfg_get_double(readname.c_str()));
      capi = buf;
    }
    printf("%zu ok %s\tdefault=%d\tbefore=%s\tside=%s\tcapi=%s\n", idx, now.c_str(), cfg::is_default(readname.c_str()) ? 1 : 0,
           before.c_str(), side(readname).c_str(), capi.c_str());
  } catch (const std::out_of_range& e) {
    printf("%zu exc out_of_range: %s\n", idx, first_line(e.what()).c_str());
  } catch (const std::range_error& e) {
    std::string after;
    try {
      after = show(type, readname);
    } catch (...) {
      after = "?";
    }
    printf("%zu exc range_error: %s\tbefore=%s\tafter=%s\n", idx, first_line(e.what()).c_str(), before.c_str(),
           after.c_str());
  } catch (const std::exception& e) {
    printf("%zu exc %s: %s\n", idx, typeid(e).name(), first_line(e.what()).c_str());
  }
}

int main(int argc, char** argv)
{
  struct rlimit nocore = {0, 0};
  setrlimit(RLIMIT_CORE, &nocore); // many children end in xbt_die -> abort(): no core files
  if (getenv("C48_MC_REPLAY")) {
    /* second world: the model-check/… items refuse any value unless a replay is active */
    simgrid::mc::set_model_checking_mode(simgrid::mc::ModelCheckingMode::REPLAY);
    MC_record_path() = "1";
  }
  simgrid::s4u::Engine e(&argc, argv); // sg_config_init + the real command-line parser
  std::string cmd = argc > 1 ? argv[1] : "";
  if (cmd == "list")
    return 0; // --help / --help-aliases made the library print and exit before we get here
  if (cmd == "show" && argc >= 4) {
    for (int i = 2; i + 1 < argc && strncmp(argv[i], "--", 2) != 0; i += 2)
      try {
        printf("ok %s\tdefault=%d\tside=%s\n", show(argv[i], argv[i + 1]).c_str(), cfg::is_default(argv[i + 1]) ? 1 : 0,
               side(argv[i + 1]).c_str());
      } catch (const std::exception& ex) {
        printf("exc %s\n", first_line(ex.what()).c_str());
      }
    printf("argv-left:");
    for (int i = 1; i < argc; i++)
      printf(" %s", argv[i]);
    printf("\n");
    return 0;
  }
  if (cmd != "cases") {
    fprintf(stderr, "usage: c48 [--cfg=…] list | show <type> <name> | cases\n");
    return 2;
  }
  /* Batches: one forked child runs up to K consecutive cases as long as they are about DIFFERENT items (an item's
   * state is private to it), and reports its progress in shared memory; if it dies in case p, the parent reports that
   * and forks again from p+1. K=1 gives one child per case. */
  size_t K = argc > 2 ? strtoul(argv[2], nullptr, 10) : 1;
  if (K < 1)
    K = 1;
  std::vector<std::vector<std::string>> all;
  std::string line;
  while (std::getline(std::cin, line)) {
    std::vector<std::string> f;
    size_t pos = 0;
    while (true) {
      size_t t = line.find('\t', pos);
      f.push_back(line.substr(pos, t == std::string::npos ? std::string::npos : t - pos));
      if (t == std::string::npos)
        break;
      pos = t + 1;
    }
    all.push_back(f);
  }
  auto* progress = static_cast<volatile size_t*>(
      mmap(nullptr, sizeof(size_t), PROT_READ | PROT_WRITE, MAP_SHARED | MAP_ANONYMOUS, -1, 0));
  size_t idx = 0;
  while (idx < all.size()) {
    if (all[idx].size() != 5) {
      printf("%zu exc harness: bad line\n", idx++);
      continue;
    }
    size_t end = idx;
    std::vector<std::string> used;
    while (end < all.size() && end - idx < K && all[end].size() == 5 &&
           std::find(used.begin(), used.end(), all[end][4]) == used.end()) {
      used.push_back(all[end][4]);
      end++;
    }
    *progress = idx;
    fflush(stdout);
    pid_t pid = fork();
    if (pid == 0) {
      int devnull = open("/dev/null", 1);
      if (devnull >= 0)
        dup2(devnull, 2); // "Configuration change" chatter, xbt_die messages and backtraces
      signal(SIGABRT, SIG_DFL);
      for (size_t i = idx; i < end; i++) {
        *progress = i;
        child(i, all[i]);
        fflush(stdout);
      }
      *progress = end;
      _exit(77); // anything else (exit() called by a callback, e.g. for the value "help") is reported by the parent
    }
    int st = 0;
    waitpid(pid, &st, 0);
    size_t p = *progress;
    if (WIFEXITED(st) && WEXITSTATUS(st) == 77 && p == end) {
      idx = end;
      continue;
    }
    if (WIFSIGNALED(st))
      printf("%zu sig %d\n", p, WTERMSIG(st));
    else
      printf("%zu exit %d\n", p, WEXITSTATUS(st));
    idx = p + 1;
  }
  fflush(stdout);
  return 0;
}
