/* C45 — simgrid::xbt::random::XbtRandom with the MT19937 seam owned by the harness.
 *
 * Seam: gen._M_x[0] = untemper(v); gen._M_p = 0  =>  the next raw 32-bit output is exactly v (no hook in /repo).
 * A second raw value that every rejection loop accepts (0) is queued behind it, so one call observes: whether v was
 * accepted (exactly one raw output consumed) and the result computed from v.
 *
 *   c45 sweep_int <min> <max> <threads>    whole 2^32 raw space; JSON verdict (exact preimage counts)
 *   c45 count_int <min> <max> <threads>    exact preimage counts of a large range in ceil(R/2^28) passes (fallback)
 *   c45 sweep_real <min> <max> <threads>   whole 2^32 raw space (hex-float or decimal bounds); JSON verdict
 *   c45 one_int <min> <max> <v>            one raw value
 *   c45 one_real <min> <max> <v>
 *   c45 seq                                stdin: "<api> <seed> call call ..." -> one line of results per input line
 *                                          api: obj (XbtRandom(seed)) | set (XbtRandom + set_seed) | glob (namespace API)
 *                                          call: i:<min>:<max> r:<min>:<max> e:<lambda> n:<mean>:<sd>
 */
#include <atomic>
#include <cinttypes>
#include <cmath>
#include <cstdio>
#include <cstdlib>
#include <cstring>
#include <iostream>
#include <sstream>
#include <string>
#include <thread>
#include <vector>
#include <xbt/random.hpp>

using simgrid::xbt::random::XbtRandom;

static uint32_t untemper(uint32_t y)
{
  y ^= y >> 18;
  y ^= (y << 15) & 0xefc60000u;
  uint32_t t = y;
  for (int i = 0; i < 5; i++)
    t = y ^ ((t << 7) & 0x9d2c5680u);
  y = t;
  t = y;
  for (int i = 0; i < 3; i++)
    t = y ^ (t >> 11);
  return t;
}

struct Seam {
  XbtRandom r{1};
  uint32_t zero = untemper(0u);
  inline void arm(uint32_t v)
  {
    r.mt19937_gen._M_x[0] = untemper(v);
    r.mt19937_gen._M_x[1] = zero;
    r.mt19937_gen._M_x[2] = zero;
    r.mt19937_gen._M_p    = 0;
  }
  inline size_t consumed() const { return r.mt19937_gen._M_p; }
};

static bool seam_selftest()
{
  Seam s;
  for (uint32_t v : {0u, 1u, 12345678u, 0xffffffffu, 0x80000000u, 0x7fffffffu}) {
    s.arm(v);
    if (s.r.mt19937_gen() != v || s.r.mt19937_gen() != 0u)
      return false;
  }
  return true;
}

template <class F> static void parallel(int nt, F f)
{
  std::vector<std::thread> th;
  for (int t = 0; t < nt; t++)
    th.emplace_back([=] {
      uint64_t lo = (1ull << 32) / nt * t, hi = t == nt - 1 ? (1ull << 32) : (1ull << 32) / nt * (t + 1);
      f(t, lo, hi);
    });
  for (auto& x : th)
    x.join();
}

static int sweep_int(int mn, int mx, int nt)
{
  const uint64_t R  = (uint64_t)((int64_t)mx - (int64_t)mn) + 1; // 1 .. 2^32
  const bool small = R <= (1u << 20);
  struct Per {
    uint64_t acc = 0, rej = 0, oor = 0, modbad = 0, weird = 0;
    uint64_t max_acc = 0, min_rej = UINT64_MAX;
    bool any_acc = false;
    uint64_t first_oor = UINT64_MAX, first_modbad = UINT64_MAX;
    std::vector<uint64_t> cnt;
  };
  std::vector<Per> per(nt);
  parallel(nt, [&](int t, uint64_t lo, uint64_t hi) {
    Per& p = per[t];
    if (small)
      p.cnt.assign(R, 0);
    Seam s;
    for (uint64_t v = lo; v < hi; v++) {
      s.arm((uint32_t)v);
      int x    = s.r.uniform_int(mn, mx);
      size_t c = s.consumed();
      if (c == 1) {
        p.acc++;
        p.any_acc = true;
        p.max_acc = v; // increasing scan
        if (x < mn || x > mx) {
          p.oor++;
          if (p.first_oor == UINT64_MAX)
            p.first_oor = v;
          continue;
        }
        if (small)
          p.cnt[(uint64_t)((int64_t)x - mn)]++;
        if ((uint64_t)((int64_t)x - (int64_t)mn) != v % R) {
          p.modbad++;
          if (p.first_modbad == UINT64_MAX)
            p.first_modbad = v;
        }
      } else if (c == 2) {
        p.rej++;
        if (p.min_rej == UINT64_MAX)
          p.min_rej = v;
        if (x < mn || x > mx) { // the redraw (raw 0) must be in range as well
          p.oor++;
          if (p.first_oor == UINT64_MAX)
            p.first_oor = v;
        }
      } else
        p.weird++;
    }
  });
  uint64_t acc = 0, rej = 0, oor = 0, modbad = 0, weird = 0, max_acc = 0, min_rej = UINT64_MAX, first_oor = UINT64_MAX,
           first_modbad = UINT64_MAX;
  bool any_acc = false;
  for (auto& p : per) {
    acc += p.acc;
    rej += p.rej;
    oor += p.oor;
    modbad += p.modbad;
    weird += p.weird;
    if (p.any_acc) {
      any_acc = true;
      max_acc = std::max(max_acc, p.max_acc);
    }
    min_rej      = std::min(min_rej, p.min_rej);
    first_oor    = std::min(first_oor, p.first_oor);
    first_modbad = std::min(first_modbad, p.first_modbad);
  }
  /* structure in O(1) memory: accepted set is the prefix [0,L) */
  uint64_t L     = min_rej == UINT64_MAX ? (1ull << 32) : min_rej;
  bool prefix_ok = any_acc && acc == L && max_acc < L;
  bool divides   = L % R == 0;
  uint64_t cmin = 0, cmax = 0, argmin = 0, argmax = 0;
  bool counted = false;
  if (small) {
    counted = true;
    std::vector<uint64_t> c(R, 0);
    for (auto& p : per)
      for (uint64_t i = 0; i < R; i++)
        c[i] += p.cnt[i];
    cmin = UINT64_MAX;
    for (uint64_t i = 0; i < R; i++) {
      if (c[i] < cmin) {
        cmin   = c[i];
        argmin = i;
      }
      if (c[i] > cmax) {
        cmax   = c[i];
        argmax = i;
      }
    }
  }
  printf("{\"min\":%d,\"max\":%d,\"R\":%" PRIu64 ",\"accepted\":%" PRIu64 ",\"rejected\":%" PRIu64
         ",\"weird_consumption\":%" PRIu64 ",\"out_of_range\":%" PRIu64 ",\"first_out_of_range\":%" PRId64
         ",\"mod_mismatch\":%" PRIu64 ",\"first_mod_mismatch\":%" PRId64 ",\"L\":%" PRIu64
         ",\"prefix_ok\":%s,\"R_divides_L\":%s,\"counted\":%s,\"count_min\":%" PRIu64 ",\"count_max\":%" PRIu64
         ",\"argmin\":%" PRIu64 ",\"argmax\":%" PRIu64 "}\n",
         mn, mx, R, acc, rej, weird, oor, first_oor == UINT64_MAX ? -1 : (int64_t)first_oor, modbad,
         first_modbad == UINT64_MAX ? -1 : (int64_t)first_modbad, L, prefix_ok ? "true" : "false",
         divides ? "true" : "false", counted ? "true" : "false", cmin, cmax, argmin, argmax);
  return 0;
}

/* exact preimage counts for a large range, 2^28 result values per pass (used when the accepted set is not "prefix and
 * mod": another correct algorithm must not be reported as biased without counting) */
static int count_int(int mn, int mx, int nt)
{
  const uint64_t R = (uint64_t)((int64_t)mx - (int64_t)mn) + 1;
  uint64_t cmin = UINT64_MAX, cmax = 0, argmin = 0, argmax = 0;
  for (uint64_t base = 0; base < R; base += (1ull << 28)) {
    uint64_t n = std::min<uint64_t>(1ull << 28, R - base);
    std::vector<std::atomic<uint8_t>> c(n);
    parallel(nt, [&](int, uint64_t lo, uint64_t hi) {
      Seam s;
      for (uint64_t v = lo; v < hi; v++) {
        s.arm((uint32_t)v);
        int x = s.r.uniform_int(mn, mx);
        if (s.consumed() != 1)
          continue;
        uint64_t off = (uint64_t)((int64_t)x - mn);
        if (off >= base && off < base + n && c[off - base] < 255)
          c[off - base]++;
      }
    });
    for (uint64_t i = 0; i < n; i++) {
      uint64_t k = c[i];
      if (k < cmin) {
        cmin   = k;
        argmin = base + i;
      }
      if (k > cmax) {
        cmax   = k;
        argmax = base + i;
      }
    }
  }
  printf("{\"min\":%d,\"max\":%d,\"R\":%" PRIu64 ",\"count_min\":%" PRIu64 ",\"count_max\":%" PRIu64 ",\"argmin\":%" PRIu64
         ",\"argmax\":%" PRIu64 "}\n",
         mn, mx, R, cmin, cmax, argmin, argmax);
  return 0;
}

static int sweep_real(double mn, double mx, int nt)
{
  struct Per {
    uint64_t acc = 0, rej = 0, bad = 0, first_bad = UINT64_MAX, at_max = 0, at_min = 0, weird = 0;
    double lo = INFINITY, hi = -INFINITY;
  };
  std::vector<Per> per(nt);
  parallel(nt, [&](int t, uint64_t lo, uint64_t hi) {
    Per& p = per[t];
    Seam s;
    for (uint64_t v = lo; v < hi; v++) {
      s.arm((uint32_t)v);
      double x = s.r.uniform_real(mn, mx);
      size_t c = s.consumed();
      if (c == 1)
        p.acc++;
      else if (c == 2)
        p.rej++;
      else
        p.weird++;
      if (not(x >= mn && x <= mx)) { // also catches NaN
        p.bad++;
        if (p.first_bad == UINT64_MAX)
          p.first_bad = v;
        continue;
      }
      if (x == mx)
        p.at_max++;
      if (x == mn)
        p.at_min++;
      if (x < p.lo)
        p.lo = x;
      if (x > p.hi)
        p.hi = x;
    }
  });
  Per a;
  for (auto& p : per) {
    a.acc += p.acc;
    a.rej += p.rej;
    a.bad += p.bad;
    a.weird += p.weird;
    a.at_max += p.at_max;
    a.at_min += p.at_min;
    a.first_bad = std::min(a.first_bad, p.first_bad);
    a.lo        = std::min(a.lo, p.lo);
    a.hi        = std::max(a.hi, p.hi);
  }
  printf("{\"min\":\"%a\",\"max\":\"%a\",\"accepted\":%" PRIu64 ",\"rejected\":%" PRIu64 ",\"weird_consumption\":%" PRIu64
         ",\"out_of_range\":%" PRIu64 ",\"first_out_of_range\":%" PRId64 ",\"equal_to_max\":%" PRIu64
         ",\"equal_to_min\":%" PRIu64 ",\"lowest\":\"%a\",\"highest\":\"%a\"}\n",
         mn, mx, a.acc, a.rej, a.weird, a.bad, a.first_bad == UINT64_MAX ? -1 : (int64_t)a.first_bad, a.at_max, a.at_min,
         a.lo, a.hi);
  return 0;
}

static int seq()
{
  std::string line;
  while (std::getline(std::cin, line)) {
    std::istringstream in(line);
    std::string api, call;
    long long seed;
    in >> api >> seed;
    XbtRandom obj(api == "obj" ? (int)seed : 12345);
    if (api == "set")
      obj.set_seed((int)seed);
    if (api == "glob") {
      simgrid::xbt::random::set_implem_xbt();
      simgrid::xbt::random::set_mersenne_seed((int)seed);
    }
    bool first = true;
    while (in >> call) {
      char k = call[0];
      std::vector<std::string> a;
      size_t pos = 2;
      while (pos <= call.size()) {
        size_t e = call.find(':', pos);
        if (e == std::string::npos)
          e = call.size();
        a.push_back(call.substr(pos, e - pos));
        pos = e + 1;
      }
      if (not first)
        printf(" ");
      first = false;
      bool g = api == "glob";
      namespace R = simgrid::xbt::random;
      if (k == 'i') {
        int mn = atoi(a[0].c_str()), mx = atoi(a[1].c_str());
        printf("%d", g ? R::uniform_int(mn, mx) : obj.uniform_int(mn, mx));
      } else if (k == 'r') {
        double mn = strtod(a[0].c_str(), nullptr), mx = strtod(a[1].c_str(), nullptr);
        printf("%a", g ? R::uniform_real(mn, mx) : obj.uniform_real(mn, mx));
      } else if (k == 'e') {
        double l = strtod(a[0].c_str(), nullptr);
        printf("%a", g ? R::exponential(l) : obj.exponential(l));
      } else if (k == 'n') {
        double m = strtod(a[0].c_str(), nullptr), sd = strtod(a[1].c_str(), nullptr);
        printf("%a", g ? R::normal(m, sd) : obj.normal(m, sd));
      } else
        printf("?");
    }
    printf("\n");
  }
  return 0;
}

int main(int argc, char** argv)
{
  if (not seam_selftest()) {
    fprintf(stderr, "c45: the MT19937 seam does not work with this standard library\n");
    return 2;
  }
  std::string cmd = argc > 1 ? argv[1] : "";
  if (cmd == "sweep_int" && argc == 5)
    return sweep_int(atoi(argv[2]), atoi(argv[3]), atoi(argv[4]));
  if (cmd == "count_int" && argc == 5)
    return count_int(atoi(argv[2]), atoi(argv[3]), atoi(argv[4]));
  if (cmd == "sweep_real" && argc == 5)
    return sweep_real(strtod(argv[2], nullptr), strtod(argv[3], nullptr), atoi(argv[4]));
  if (cmd == "one_int" && argc == 5) {
    Seam s;
    s.arm((uint32_t)strtoull(argv[4], nullptr, 10));
    int x = s.r.uniform_int(atoi(argv[2]), atoi(argv[3]));
    printf("{\"result\":%d,\"raw_consumed\":%zu}\n", x, s.consumed());
    return 0;
  }
  if (cmd == "one_real" && argc == 5) {
    Seam s;
    s.arm((uint32_t)strtoull(argv[4], nullptr, 10));
    double x = s.r.uniform_real(strtod(argv[2], nullptr), strtod(argv[3], nullptr));
    printf("{\"result\":\"%a\",\"raw_consumed\":%zu}\n", x, s.consumed());
    return 0;
  }
  if (cmd == "seq")
    return seq();
  fprintf(stderr, "usage: c45 sweep_int|sweep_real|one_int|one_real|seq ...\n");
  return 2;
}
