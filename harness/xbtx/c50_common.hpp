/* C50 — shared driver: exhaustive enumeration of operation histories over a container model.
 *
 * A Model provides
 *   struct Op { uint8_t k; int8_t a; };
 *   std::string run(const std::vector<Op>& hist, int check_from, std::vector<Op>* next, Info* info, FILE* verbose)
 *       builds a FRESH container (+ the start-state prefill), applies the whole history to the implementation
 *       and to the boring reference, compares every return value and the full observable snapshot of every step
 *       with index >= check_from (prefixes were checked when they were leaves; -1 also checks the start state;
 *       NOCHECK compares nothing), destroys the container, checks the free() accounting, and returns "" or a
 *       description of the first mismatch. `next` receives the ops
 *       enabled in the final reference state.
 *   std::string op_name(Op), bool parse_op(const std::string&, Op*)
 *
 * Driver:  enum  <minlen> <maxlen> <shard> <nshards> <statefile>   -> one JSON line
 *          one   <history>                                         -> per-step observations (JSON lines) + verdict
 */
#pragma once
#include <algorithm>
#include <csignal>
#include <cstdint>
#include <cstdio>
#include <cstdlib>
#include <cstring>
#include <map>
#include <set>
#include <string>
#include <unistd.h>
#include <unordered_set>
#include <vector>

#include <cstddef>
#if defined(__SANITIZE_ADDRESS__)
extern "C" size_t __sanitizer_get_current_allocated_bytes(void); // libasan (header not shipped with this gcc)
static inline size_t heap_in_use() { return __sanitizer_get_current_allocated_bytes(); }
constexpr bool HAVE_HEAP_COUNTER = true;
#else
static inline size_t heap_in_use() { return 0; }
constexpr bool HAVE_HEAP_COUNTER = false;
#endif

constexpr int NOCHECK = 1 << 30; // check_from value meaning: replay only, compare nothing

struct Info {
  uint64_t state_hash = 0; // hash of the final reference state
  uint64_t ref_ops    = 0; // operations applied to the reference
  uint64_t impl_ops   = 0; // API calls made on the implementation
  unsigned flags      = 0; // bit set of "interesting things that really happened" (model specific)
};

static inline uint64_t fnv(const void* p, size_t n, uint64_t h = 1469598103934665603ULL)
{
  auto* c = static_cast<const unsigned char*>(p);
  for (size_t i = 0; i < n; i++) {
    h ^= c[i];
    h *= 1099511628211ULL;
  }
  return h;
}

static char g_current[512]; // the history being run, for the crash handler
static void crash_handler(int sig)
{
  char buf[700];
  int n = snprintf(buf, sizeof buf, "\nCRASH signal=%d hist=%s\n", sig, g_current);
  if (write(1, buf, n) < 0) {
  }
  _exit(3);
}
extern "C" void __asan_on_error()
{
  char buf[700];
  int n = snprintf(buf, sizeof buf, "\nCRASH asan hist=%s\n", g_current);
  if (write(1, buf, n) < 0) {
  }
}

static std::string json_escape(const std::string& s)
{
  std::string o;
  for (unsigned char c : s) {
    if (c == '"' || c == '\\') {
      o += '\\';
      o += c;
    } else if (c < 32 || c > 126) {
      char b[8];
      snprintf(b, sizeof b, "\\u%04x", c);
      o += b;
    } else
      o += c;
  }
  return o;
}

template <class Model> struct Driver {
  using Op = typename Model::Op;
  Model& m;
  int minlen, maxlen, shard, nshards;
  uint64_t nodes = 0, checked = 0, ref_ops = 0, impl_ops = 0, subtree = 0, nontrivial = 0, leak_checked = 0;
  std::unordered_set<uint64_t> states;
  std::map<unsigned, uint64_t> flag_hist; // per flag bit: number of checked histories where it happened
  struct Viol {
    std::string hist, what;
  };
  std::vector<Viol> viols;
  uint64_t nviol = 0;
  std::vector<std::string> samples;

  explicit Driver(Model& mm) : m(mm) {}

  std::string hist_str(const std::vector<Op>& h)
  {
    std::string s;
    for (size_t i = 0; i < h.size(); i++) {
      if (i)
        s += ';';
      s += m.op_name(h[i]);
    }
    return s;
  }

  void add_violation(const std::string& h, const std::string& what)
  {
    nviol++;
    viols.push_back({h, what});
    // keep the 12 shortest (ties: first found)
    std::stable_sort(viols.begin(), viols.end(), [](const Viol& a, const Viol& b) {
      return std::count(a.hist.begin(), a.hist.end(), ';') < std::count(b.hist.begin(), b.hist.end(), ';');
    });
    if (viols.size() > 12)
      viols.resize(12);
  }

  void dfs(std::vector<Op>& hist, bool mine)
  {
    // depth-2 subtrees are dealt round-robin to the shards; nodes of depth < 2 belong to shard 0
    int depth = hist.size();
    if (depth == 2) {
      mine = (int)(subtree % nshards) == shard;
      subtree++;
      if (not mine)
        return;
    } else if (depth < 2)
      mine = shard == 0;
    std::vector<Op> next;
    next.reserve(96);
    Info info;
    bool check = mine && depth >= minlen;
    std::string hs;
    if (check) {
      hs = hist_str(hist);
      snprintf(g_current, sizeof g_current, "%s", hs.c_str());
    }
    size_t heap0    = heap_in_use();
    std::string err = m.run(hist, check ? depth - 1 : NOCHECK, &next, &info, nullptr);
    nodes++;
    if (check && HAVE_HEAP_COUNTER && err.empty()) {
      /* (ASan flavour) everything the container allocated must be gone once it is freed. Pools and vector capacities
       * may grow once; a leak grows on every run: confirm with two more runs of the same history. */
      leak_checked++;
      size_t heap1 = heap_in_use();
      if (heap1 > heap0) {
        Info scratch;
        m.run(hist, NOCHECK, &next, &scratch, nullptr);
        size_t heap2 = heap_in_use();
        m.run(hist, NOCHECK, &next, &scratch, nullptr);
        size_t heap3 = heap_in_use();
        if (heap2 > heap1 && heap3 > heap2)
          err = "memory still allocated after the container was freed: +" + std::to_string(heap3 - heap2) +
                " bytes per run of this history";
      }
    }
    if (check) {
      checked++;
      if (info.flags)
        nontrivial++;
      ref_ops += info.ref_ops;
      impl_ops += info.impl_ops;
      states.insert(info.state_hash);
      for (unsigned b = 0; b < 32; b++)
        if (info.flags & (1u << b))
          flag_hist[b]++;
      if (not err.empty())
        add_violation(hs, err);
      else if (samples.size() < 6 && depth == maxlen && (checked % 9973) == 1)
        samples.push_back(hs);
    }
    if (depth >= maxlen)
      return;
    if (not err.empty() && check)
      return; // do not extend a history that already failed: the shortest failing prefix is the case
    for (Op o : next) {
      hist.push_back(o);
      dfs(hist, mine);
      hist.pop_back();
    }
  }

  int run_enum(const char* statefile)
  {
    std::vector<Op> hist;
    dfs(hist, false);
    if (statefile && *statefile) {
      FILE* f = fopen(statefile, "wb");
      for (uint64_t h : states)
        fwrite(&h, 8, 1, f);
      fclose(f);
    }
    printf("{\"nodes\":%lu,\"checked\":%lu,\"ref_ops\":%lu,\"impl_ops\":%lu,\"states\":%zu,\"nontrivial\":%lu,"
           "\"leak_checked\":%lu,\"nviol\":%lu,\"flags\":{",
           nodes, checked, ref_ops, impl_ops, states.size(), nontrivial, leak_checked, nviol);
    bool first = true;
    for (auto const& [b, n] : flag_hist) {
      printf("%s\"%s\":%lu", first ? "" : ",", m.flag_name(b), n);
      first = false;
    }
    printf("},\"samples\":[");
    for (size_t i = 0; i < samples.size(); i++)
      printf("%s\"%s\"", i ? "," : "", json_escape(samples[i]).c_str());
    printf("],\"violations\":[");
    for (size_t i = 0; i < viols.size(); i++)
      printf("%s{\"hist\":\"%s\",\"what\":\"%s\"}", i ? "," : "", json_escape(viols[i].hist).c_str(),
             json_escape(viols[i].what).c_str());
    printf("]}\n");
    fflush(stdout);
    return 0;
  }

  int run_one(const std::string& h)
  {
    std::vector<Op> hist;
    size_t pos = 0;
    while (pos <= h.size() && not h.empty()) {
      size_t e = h.find(';', pos);
      if (e == std::string::npos)
        e = h.size();
      Op o;
      if (not m.parse_op(h.substr(pos, e - pos), &o)) {
        fprintf(stderr, "cannot parse op '%s'\n", h.substr(pos, e - pos).c_str());
        return 2;
      }
      hist.push_back(o);
      pos = e + 1;
    }
    snprintf(g_current, sizeof g_current, "%s", h.c_str());
    Info info;
    std::vector<Op> next;
    std::string err = m.run(hist, -1, &next, &info, stdout);
    if (err.empty() && HAVE_HEAP_COUNTER) { // same leak rule as in the enumeration: growth on every further run
      Info scratch;
      m.run(hist, NOCHECK, &next, &scratch, nullptr);
      size_t heap1 = heap_in_use();
      m.run(hist, NOCHECK, &next, &scratch, nullptr);
      size_t heap2 = heap_in_use();
      m.run(hist, NOCHECK, &next, &scratch, nullptr);
      size_t heap3 = heap_in_use();
      if (heap2 > heap1 && heap3 > heap2)
        err = "memory still allocated after the container was freed: +" + std::to_string(heap3 - heap2) +
              " bytes per run of this history";
    }
    printf("{\"verdict\":\"%s\"}\n", json_escape(err).c_str());
    fflush(stdout);
    return err.empty() ? 0 : 1;
  }
};

template <class Model> int driver_main(Model& m, int argc, char** argv, int base)
{
  signal(SIGSEGV, crash_handler);
  signal(SIGABRT, crash_handler);
  signal(SIGBUS, crash_handler);
  signal(SIGFPE, crash_handler);
  Driver<Model> d(m);
  std::string cmd = argc > base ? argv[base] : "";
  if (cmd == "enum" && argc >= base + 6) {
    d.minlen  = atoi(argv[base + 1]);
    d.maxlen  = atoi(argv[base + 2]);
    d.shard   = atoi(argv[base + 3]);
    d.nshards = atoi(argv[base + 4]);
    return d.run_enum(argv[base + 5]);
  }
  if (cmd == "one" && argc >= base + 2)
    return d.run_one(argv[base + 1]);
  fprintf(stderr, "usage: ... enum <minlen> <maxlen> <shard> <nshards> <statefile> | one <history>\n");
  return 2;
}
