// C46 executor: replays file-system operation histories on the REAL file_system plugin and prints what it observes.
// usage: c46x <platform.xml> <histories-file> [first-line-index [steps]]   (steps: one output line per operation, not only the last)
// histories file: one history per line, operations separated by ';':
//   "o S" open slot S (0 -> /d/a, 1 -> /d/b)   "c S" close    "w S N" write N (not in place)   "i S N" write N in place
//   "r S N" read N    "s S {S|C|E} OFF" seek SET/CUR/END    "m S NAME" move to /d/NAME    "u S" unlink
// The executor has no model of the file system: it executes, observes (private state read with -fno-access-control) and
// prints, for history number k:   k | <record before the last op> | <record after the last op>
// record = <ret> <used> <content[/a]> <content[/b]> <content[/c]> <#other entries> <h0.tell> <h0.size> <h1.tell> <h1.size>
// (-1 = absent / closed; ret of the record before the last op is the return value of the previous op).
// All histories run in ONE simulation, inside one actor (a process per history costs ~20-200 ms on this machine, measured,
// i.e. hours for 10^6 histories). Between two histories the plugin is put back into its initial state: handles closed
// through the API, then content map, used size and descriptor table reset to what the platform file gave. The check
// cross-validates this against one fresh process per history (no reset at all) on all short histories.
// If an operation kills the process (xbt_assert, signal) the records printed so far are flushed; the driver sees the
// missing index, reports it and restarts after it.
#include <simgrid/plugins/file_system.h>
#include <simgrid/s4u.hpp>
#include <csignal>
#include <cstdio>
#include <cstring>
#include <fstream>
#include <string>
#include <unistd.h>
#include <vector>
namespace sg4 = simgrid::s4u;

static sg4::File* h[2] = {nullptr, nullptr};
static sg4::Disk* disk;
static sg4::Host* host;
static char obuf[1 << 16];
static size_t olen = 0;

static void oflush()
{
  size_t off = 0;
  while (off < olen) {
    ssize_t n = write(1, obuf + off, olen - off);
    if (n <= 0)
      _exit(3);
    off += n;
  }
  olen = 0;
}
static void on_fatal(int sig)
{
  oflush();
  signal(sig, SIG_DFL);
  raise(sig);
}

static long long content_of(const char* name)
{
  auto* c = disk->extension<sg4::FileSystemDiskExt>()->get_content();
  auto it = c->find(name);
  return it == c->end() ? -1 : (long long)it->second;
}

static int record(char* buf, size_t sz, long long ret)
{
  auto* c     = disk->extension<sg4::FileSystemDiskExt>()->get_content();
  long nother = 0;
  for (auto const& [k, v] : *c)
    if (k != "/a" && k != "/b" && k != "/c")
      nother++;
  return snprintf(buf, sz, "%lld %lld %lld %lld %lld %ld %lld %lld %lld %lld", ret, (long long)sg_disk_get_size_used(disk),
                  content_of("/a"), content_of("/b"), content_of("/c"), nother, h[0] ? (long long)h[0]->tell() : -1LL,
                  h[0] ? (long long)h[0]->size() : -1LL, h[1] ? (long long)h[1]->tell() : -1LL,
                  h[1] ? (long long)h[1]->size() : -1LL);
}

static long long exec_op(const char* p)
{
  char w[16] = "";
  int s      = 0;
  long long v = 0;
  switch (p[0]) {
    case 'o':
      sscanf(p, "o %d", &s);
      h[s] = sg4::File::open(s == 0 ? "/d/a" : "/d/b", nullptr);
      return 0;
    case 'c':
      sscanf(p, "c %d", &s);
      h[s]->close();
      h[s] = nullptr;
      return 0;
    case 'w':
      sscanf(p, "w %d %lld", &s, &v);
      return (long long)h[s]->write(v, false);
    case 'i':
      sscanf(p, "i %d %lld", &s, &v);
      return (long long)h[s]->write(v, true);
    case 'r':
      sscanf(p, "r %d %lld", &s, &v);
      return (long long)h[s]->read(v);
    case 's':
      sscanf(p, "s %d %15s %lld", &s, w, &v);
      h[s]->seek(v, w[0] == 'S' ? SEEK_SET : w[0] == 'C' ? SEEK_CUR : SEEK_END);
      return 0;
    case 'm':
      sscanf(p, "m %d %15s", &s, w);
      h[s]->move(std::string("/d/") + w);
      return 0;
    case 'u':
      sscanf(p, "u %d", &s);
      return h[s]->unlink();
    default:
      fprintf(stderr, "c46x: bad op '%s'\n", p);
      _exit(4);
  }
}

static std::map<std::string, sg_size_t, std::less<>> content0;
static sg_size_t used0;

static void reset_plugin()
{
  for (auto& f : h)
    if (f) {
      f->close();
      f = nullptr;
    }
  auto* ext       = disk->extension<sg4::FileSystemDiskExt>();
  *ext->content_  = content0;
  ext->used_size_ = used0;
  host->extension<sg4::FileDescriptorHostExt>()->file_descriptor_table.reset();
}

int main(int argc, char** argv)
{
  sg4::Engine e(&argc, argv);
  sg_storage_file_system_init();
  e.load_platform(argv[1]);
  std::vector<std::string> lines;
  std::ifstream f(argv[2]);
  for (std::string l; std::getline(f, l);)
    lines.push_back(l);
  size_t first = argc > 3 ? atol(argv[3]) : 0;
  bool steps   = argc > 4 && std::string(argv[4]) == "steps";
  host         = e.host_by_name("h");
  disk         = host->get_disks().front();
  signal(SIGABRT, on_fatal);
  host->add_actor("fs", [&lines, first, steps] {
    // installed here: the engine sets its own SIGSEGV handler at startup
    signal(SIGSEGV, on_fatal);
    content0 = *disk->extension<sg4::FileSystemDiskExt>()->get_content();
    used0    = disk->extension<sg4::FileSystemDiskExt>()->get_used_size();
    char pre[256], post[256];
    for (size_t k = first; k < lines.size(); k++) {
      if (k > first)
        reset_plugin();
      std::vector<std::string> ops;
      size_t a = 0;
      const std::string& l = lines[k];
      while (a <= l.size()) {
        size_t b = l.find(';', a);
        if (b == std::string::npos)
          b = l.size();
        if (b > a)
          ops.push_back(l.substr(a, b - a));
        a = b + 1;
      }
      long long ret = 0;
      record(pre, sizeof pre, 0);
      for (size_t j = 0; j < ops.size(); j++) {
        if (j + 1 == ops.size() || steps)
          record(pre, sizeof pre, ret);
        ret = exec_op(ops[j].c_str());
        if (steps && j + 1 < ops.size()) {
          record(post, sizeof post, ret);
          olen += snprintf(obuf + olen, sizeof obuf - olen, "%zu | %s | %s\n", k, pre, post);
          oflush();
        }
      }
      record(post, sizeof post, ret);
      if (olen + 600 > sizeof obuf)
        oflush();
      olen += snprintf(obuf + olen, sizeof obuf - olen, "%zu | %s | %s\n", k, pre, post);
    }
    oflush();
  });
  e.run();
  return 0;
}
