// C10 executor: many independent copies of a 3-host platform in ONE simulation, each copy running one small program and
// suffering its own faults. No oracle in here (lib/c10ref.py + lib/checks/c10.py).
// usage: c10x <scenario-file>
//   copy <id> <plat 2|3>
//   actor <i> <op>...          actor i runs on host h<i> of the copy. ops: E | S | P<j> | G<j> | R<j>  (see lib/c10ref.py)
//   fault <resource> <date> api|profile      resource h0 h1 h2 l01 l12 l02 of this copy; api: the injector actor living on the
//                                            immortal host "hi" sleeps until <date> and calls turn_off(); profile: a state
//                                            profile "<date> 0" attached to the resource when the platform is built
//   end
// Copies share nothing but the engine: host/link/mailbox names are prefixed by the copy id, the only common object is the
// immortal host of the injectors. All dates dyadic: speed 2^30 flop/s (4 cores), links 2^20 B/s + latency 0.25 s.
// output:  L <copy> <actor> <op-index> <result> <clock>       one per finished op (ok | netfail | hostfail | <exception>)
//          X <copy> <actor> <failed 0|1> <clock>              on_exit callback (one line per call)
//          B <copy> <actor>                                   actor still blocked when the simulation ended (deadlock report)
//          END <clock> <deadlock 0|1>
#include <simgrid/Exception.hpp>
#include <simgrid/kernel/ProfileBuilder.hpp>
#include <simgrid/s4u.hpp>
#include <algorithm>
#include <cstdio>
#include <fstream>
#include <map>
#include <sstream>
#include <string>
#include <vector>
namespace sg4 = simgrid::s4u;

struct Fault {
  std::string res, method;
  double date;
};
struct Copy {
  std::string id;
  int plat;
  std::vector<std::vector<std::string>> prog = std::vector<std::vector<std::string>>(3);
  std::vector<bool> has                      = std::vector<bool>(3, false);
  std::vector<Fault> faults;
};
struct Rec {
  char kind;
  int idx;
  std::string res;
  double clock;
};
struct ActorLog {
  std::vector<Rec> recs;
  bool finished = false; // on_exit ran
};
static std::vector<Copy> copies;
static std::vector<std::map<std::string, sg4::Host*>> chosts; // per copy: resource name -> object (by_name() walks every zone)
static std::vector<std::map<std::string, sg4::Link*>> clinks;
static std::vector<std::vector<ActorLog>> logs; // [copy][actor]
struct ApiFault {
  double date;
  sg4::Host* host;
  sg4::Link* link;
};
static std::vector<ApiFault> api_faults;
static int payload;
static bool deadlock = false;

static void run_actor(size_t c, int i)
{
  const Copy& cp = copies[c];
  ActorLog& lg   = logs[c][i];
  sg4::this_actor::on_exit([&lg](bool failed) {
    lg.recs.push_back({'X', failed ? 1 : 0, "", sg4::Engine::get_clock()});
    lg.finished = true;
  });
  int k = 0;
  for (auto const& op : cp.prog[i]) {
    std::string res = "ok";
    try {
      int j = op.size() > 1 ? op[1] - '0' : -1;
      switch (op[0]) {
        case 'E':
          sg4::this_actor::execute(1073741824.0);
          break;
        case 'S':
          sg4::this_actor::sleep_for(0.5);
          break;
        case 'P':
          sg4::Mailbox::by_name(cp.id + ".b" + std::to_string(i) + std::to_string(j))->put(&payload, 786432);
          break;
        case 'G':
          sg4::Mailbox::by_name(cp.id + ".b" + std::to_string(j) + std::to_string(i))->get<int>();
          break;
        case 'R':
          sg4::this_actor::exec_init(2147483648.0)->set_host(chosts[c].at("h" + std::to_string(j)))->wait();
          break;
        default:
          res = "badop";
      }
    } catch (const simgrid::NetworkFailureException&) {
      res = "netfail";
    } catch (const simgrid::HostFailureException&) {
      res = "hostfail";
    } catch (const simgrid::TimeoutException&) {
      res = "timeout";
    } catch (const simgrid::CancelException&) {
      res = "cancel";
    } catch (const simgrid::StorageFailureException&) {
      res = "storagefail";
    }
    lg.recs.push_back({'L', k, res, sg4::Engine::get_clock()});
    k++;
  }
}

int main(int argc, char** argv)
{
  sg4::Engine e(&argc, argv);
  sg4::Engine::set_config("network/model:CM02");
  sg4::Engine::set_config("network/TCP-gamma:0");
  sg4::Engine::set_config("network/crosstraffic:0");
  std::ifstream f(argv[1]);
  for (std::string l; std::getline(f, l);) {
    std::istringstream is(l);
    std::string w;
    is >> w;
    if (w == "copy") {
      copies.emplace_back();
      is >> copies.back().id >> copies.back().plat;
    } else if (w == "actor") {
      int i;
      is >> i;
      copies.back().has[i] = true;
      for (std::string op; is >> op;)
        copies.back().prog[i].push_back(op);
    } else if (w == "fault") {
      Fault ft;
      is >> ft.res >> ft.date >> ft.method;
      copies.back().faults.push_back(ft);
    }
  }
  auto* root = e.get_netzone_root();
  auto* hi   = root->add_host("hi", 1073741824.0);
  logs.resize(copies.size());
  chosts.resize(copies.size());
  clinks.resize(copies.size());
  auto prof = [](const std::string& name, double date) {
    char buf[64];
    snprintf(buf, sizeof buf, "%.17g 0\n", date);
    return simgrid::kernel::profile::ProfileBuilder::from_string(name, buf, 0);
  };
  for (size_t c = 0; c < copies.size(); c++) {
    Copy& cp = copies[c];
    logs[c].resize(3);
    std::map<std::string, double> pf;
    for (auto const& ft : cp.faults)
      if (ft.method == "profile")
        pf[ft.res] = ft.date;
    // one sub-zone per copy: the routing table of a Full zone is quadratic in its number of netpoints
    auto* zone = root->add_netzone_full(cp.id);
    sg4::Host* h[3];
    for (int k = 0; k < 3; k++) {
      std::string r = "h" + std::to_string(k);
      h[k]          = zone->add_host(cp.id + "." + r, 1073741824.0)->set_core_count(4);
      if (pf.count(r))
        h[k]->set_state_profile(prof(cp.id + r, pf[r]));
      chosts[c][r] = h[k];
    }
    auto mklink = [&](const std::string& r) {
      auto* l = zone->add_link(cp.id + "." + r, 1048576.0)->set_latency(0.25);
      if (pf.count(r))
        l->set_state_profile(prof(cp.id + r, pf[r]));
      clinks[c][r] = l;
      return l;
    };
    auto* l01 = mklink("l01");
    auto* l12 = mklink("l12");
    zone->add_route(h[0], h[1], std::vector<const sg4::Link*>{l01});
    zone->add_route(h[1], h[2], std::vector<const sg4::Link*>{l12});
    if (cp.plat == 3)
      zone->add_route(h[0], h[2], std::vector<const sg4::Link*>{mklink("l02")});
    else
      zone->add_route(h[0], h[2], std::vector<const sg4::Link*>{l01, l12});
    zone->seal();
  }
  root->seal();
  for (size_t c = 0; c < copies.size(); c++) {
    for (int i = 0; i < 3; i++)
      if (copies[c].has[i])
        chosts[c].at("h" + std::to_string(i))->add_actor(copies[c].id + ".a" + std::to_string(i), run_actor, c, i);
    for (auto const& ft : copies[c].faults)
      if (ft.method == "api")
        api_faults.push_back({ft.date, ft.res[0] == 'h' ? chosts[c].at(ft.res) : nullptr, ft.res[0] == 'l' ? clinks[c].at(ft.res) : nullptr});
  }
  // ONE injector actor for all the copies (an actor per fault costs a stack each): it sleeps until each date in turn
  std::stable_sort(api_faults.begin(), api_faults.end(), [](const ApiFault& a, const ApiFault& b) { return a.date < b.date; });
  if (not api_faults.empty())
    hi->add_actor("injector", [] {
      for (auto const& ft : api_faults) {
        sg4::this_actor::sleep_until(ft.date);
        if (ft.host)
          ft.host->turn_off();
        else
          ft.link->turn_off();
      }
    });
  sg4::Engine::on_deadlock_cb([] { deadlock = true; });
  // who is blocked when the engine gives up: recorded before the engine kills them (their on_exit runs afterwards)
  std::vector<std::pair<size_t, int>> blocked;
  sg4::Engine::on_deadlock_cb([&blocked] {
    for (size_t c = 0; c < copies.size(); c++)
      for (int i = 0; i < 3; i++)
        if (copies[c].has[i] && not logs[c][i].finished)
          blocked.emplace_back(c, i);
  });
  e.run();
  std::string out;
  char buf[256];
  for (size_t c = 0; c < copies.size(); c++)
    for (int i = 0; i < 3; i++) {
      for (auto const& r : logs[c][i].recs) {
        if (r.kind == 'L')
          snprintf(buf, sizeof buf, "L %s %d %d %s %.17g\n", copies[c].id.c_str(), i, r.idx, r.res.c_str(), r.clock);
        else
          snprintf(buf, sizeof buf, "X %s %d %d %.17g\n", copies[c].id.c_str(), i, r.idx, r.clock);
        out += buf;
      }
    }
  for (auto const& [c, i] : blocked) {
    snprintf(buf, sizeof buf, "B %s %d\n", copies[c].id.c_str(), i);
    out += buf;
  }
  snprintf(buf, sizeof buf, "END %.17g %d\n", e.get_clock(), deadlock ? 1 : 0);
  out += buf;
  fputs(out.c_str(), stdout);
  fflush(stdout);
  return 0;
}
