// C13 executor: builds workflows (through the S4U API or through the JSON / DAX loaders), runs them and prints the dates
// at which every activity starts and completes. No oracle in here: the expected schedule is computed by lib/checks/c13.py.
//
// usage: c13x <cases-file> <speed> [first-case-index]
//   speed: flop/s of every host (2^30 for the API/JSON tiers, 4.2e9 for DAX whose loader multiplies runtimes by 4.2e9)
// The loaders are compiled into this executable from /repo/src/dag/loaders.cpp itself (#include below), for one reason: the
// DAX loader keeps its jobs/files/result in file-static tables that are never cleared, so it can be used once per process;
// a process (or a fork) per case costs 0.1-0.9 s on this machine. Being in the same translation unit, the executor clears
// these three tables after each DAX case. Nothing else of the loaders is touched.
// Platform (exactness discipline: every activity has its resources for itself, all durations dyadic): hosts n0..n31 and
// m0..m31, every host with one disk "d" (2^20 B/s), one dedicated link (2^20 B/s, latency 0) per pair (n_i,n_j) and (n_i,m_i).
// Several cases run one after the other in the same simulation (case k starts at the date case k-1 ended).
// cases file:
//   case <id> api|json|dax [<file>]
//   node <name> E|C|I <amount> B|A|L <date> <res1> [<res2>]   api: create (in this order). B: assign, then start();
//                                                                  A: start(), then assign; L: start(), assign at t0+date
//   edge <from> <to>                                             api: from->add_successor(to), after all nodes are created
//                                                                json/dax: information only (see pending_preds)
//   assign <date> <name> <res1> [<res2>]                         json/dax: after loading, at t0+date
//   end
// output per case:  "case <id> <t0>", then in signal order "S <name> <clock> <#predecessors not FINISHED>" (on_start) / "F <name> <state> <clock>"
// (on_completion), then "Z <name> <state> <start_time> <finish_time>" per activity, then "end <id> <clock>".
#include "src/dag/loaders.cpp" // the real loaders, see above
#include <simgrid/s4u.hpp>
#include <algorithm>
#include <cstdarg>
#include <cstdio>
#include <cstring>
#include <fstream>
#include <map>
#include <sstream>
#include <string>
#include <unistd.h>
#include <vector>
namespace sg4 = simgrid::s4u;

static std::string out;
static void oflush()
{
  size_t off = 0;
  while (off < out.size()) {
    ssize_t n = write(1, out.data() + off, out.size() - off);
    if (n <= 0)
      _exit(3);
    off += n;
  }
  out.clear();
}
static void emit(const char* fmt, ...)
{
  char buf[512];
  va_list ap;
  va_start(ap, fmt);
  int n = vsnprintf(buf, sizeof buf, fmt, ap);
  va_end(ap);
  out.append(buf, n);
}

struct Node {
  std::string name, r1, r2;
  char kind, mode;
  double amount, date;
  sg4::ActivityPtr act;
};
struct Case {
  std::string id, tier, file;
  std::vector<Node> nodes;
  std::vector<std::pair<std::string, std::string>> edges;
  std::vector<Node> assigns; // name, date, r1, r2
};

// what the case says about predecessors (api: the edges built; json/dax: the edges the file was generated from), used only
// to report, when an activity starts, how many of its predecessors are not in state FINISHED at that instant
static std::map<std::string, sg4::Activity*> by_name;
static std::map<std::string, std::vector<std::string>> preds_of;
static int pending_preds(const std::string& name)
{
  int n   = 0;
  auto it = preds_of.find(name);
  if (it != preds_of.end())
    for (auto const& p : it->second) {
      auto q = by_name.find(p);
      if (q == by_name.end() || q->second->get_state() != sg4::Activity::State::FINISHED)
        n++;
    }
  return n;
}

static void assign(sg4::Activity* a, const std::string& r1, const std::string& r2)
{
  if (auto* ex = dynamic_cast<sg4::Exec*>(a))
    ex->set_host(sg4::Host::by_name(r1));
  else if (auto* c = dynamic_cast<sg4::Comm*>(a)) {
    if (r1 != "-") // "-": the source was already set (by the JSON loader, from the parent's machine)
      c->set_source(sg4::Host::by_name(r1));
    c->set_destination(sg4::Host::by_name(r2));
  }
  else if (auto* io = dynamic_cast<sg4::Io*>(a))
    io->set_disk(sg4::Host::by_name(r1)->get_disks().front());
}

static void run_case(sg4::Engine& e, Case& c)
{
  double t0 = e.get_clock();
  emit("case %s %.17g\n", c.id.c_str(), t0);
  std::vector<sg4::ActivityPtr> dag;
  std::vector<Node> late;
  by_name.clear();
  preds_of.clear();
  for (auto const& [a, b] : c.edges)
    preds_of[b].push_back(a);
  if (c.tier == "api") {
    for (auto& n : c.nodes) {
      if (n.kind == 'E')
        n.act = sg4::Exec::init()->set_name(n.name)->set_flops_amount(n.amount);
      else if (n.kind == 'I')
        n.act = sg4::Io::init()->set_name(n.name)->set_size((sg_size_t)n.amount)->set_op_type(sg4::Io::OpType::READ);
      else if (n.mode == 'B') // assigned at creation: the documented way to get an assigned, not yet started Comm
        n.act = sg4::Comm::sendto_init(sg4::Host::by_name(n.r1), sg4::Host::by_name(n.r2))->set_name(n.name)->set_payload_size(n.amount);
      else
        n.act = sg4::Comm::sendto_init()->set_name(n.name)->set_payload_size(n.amount);
      dag.push_back(n.act);
      by_name[n.name] = n.act.get();
    }
    for (auto const& [a, b] : c.edges)
      by_name.at(a)->add_successor(by_name.at(b));
    for (auto& n : c.nodes) {
      if (n.mode == 'B') {
        if (n.kind != 'C')
          assign(n.act.get(), n.r1, n.r2);
        n.act->start();
      } else if (n.mode == 'A') {
        n.act->start();
        assign(n.act.get(), n.r1, n.r2);
      } else {
        n.act->start();
        late.push_back(n);
      }
    }
  } else {
    dag = c.tier == "json" ? sg4::create_DAG_from_json(c.file) : sg4::create_DAG_from_DAX(c.file);
    for (auto const& a : dag)
      by_name[a->get_name()] = a.get();
    for (auto const& a : c.assigns) {
      if (by_name.find(a.name) == by_name.end()) {
        emit("X missing-activity %s\n", a.name.c_str());
        continue;
      }
      if (a.date <= 0)
        assign(by_name.at(a.name), a.r1, a.r2);
      else {
        Node n = a;
        n.act  = by_name.at(a.name);
        late.push_back(n);
      }
    }
  }
  std::stable_sort(late.begin(), late.end(), [](const Node& a, const Node& b) { return a.date < b.date; });
  for (auto& n : late) {
    if (t0 + n.date > e.get_clock())
      e.run_until(t0 + n.date);
    assign(n.act.get(), n.r1, n.r2);
  }
  e.run();
  for (auto const& a : dag)
    emit("Z %s %s %.17g %.17g\n", a->get_cname(), a->get_state_str(), a->get_start_time(), a->get_finish_time());
  emit("end %s %.17g\n", c.id.c_str(), e.get_clock());
  for (auto& n : c.nodes)
    n.act = nullptr;
  if (c.tier == "dax") {
    simgrid::s4u::result.clear();
    simgrid::s4u::jobs.clear();
    simgrid::s4u::files.clear();
  }
}

template <class T> static void hook(const char*)
{
  T::on_start_cb([](T const& a) { emit("S %s %.17g %d\n", a.get_cname(), sg4::Engine::get_clock(), pending_preds(a.get_name())); });
  T::on_completion_cb([](T const& a) { emit("F %s %s %.17g\n", a.get_cname(), a.get_state_str(), sg4::Engine::get_clock()); });
}

int main(int argc, char** argv)
{
  sg4::Engine e(&argc, argv);
  sg4::Engine::set_config("network/model:CM02");
  sg4::Engine::set_config("network/TCP-gamma:0");
  sg4::Engine::set_config("network/crosstraffic:0");
  double speed = atof(argv[2]);
  size_t first = argc > 3 ? atol(argv[3]) : 0;
  const int N  = 32;
  auto* root   = e.get_netzone_root();
  std::vector<sg4::Host*> n(N), m(N);
  for (int i = 0; i < N; i++) {
    n[i] = root->add_host("n" + std::to_string(i), speed);
    n[i]->add_disk("d", 1048576.0, 1048576.0);
    m[i] = root->add_host("m" + std::to_string(i), speed);
    m[i]->add_disk("d", 1048576.0, 1048576.0);
  }
  for (int i = 0; i < N; i++) {
    auto* l = root->add_link("l" + std::to_string(i) + "m", 1048576.0)->set_latency(0.0);
    root->add_route(n[i], m[i], {l});
    for (int j = i + 1; j < N; j++) {
      auto* l2 = root->add_link("l" + std::to_string(i) + "_" + std::to_string(j), 1048576.0)->set_latency(0.0);
      root->add_route(n[i], n[j], {l2});
    }
  }
  root->seal();
  hook<sg4::Exec>("E");
  hook<sg4::Comm>("C");
  hook<sg4::Io>("I");

  std::vector<Case> cases;
  std::ifstream f(argv[1]);
  for (std::string l; std::getline(f, l);) {
    std::istringstream is(l);
    std::string w;
    is >> w;
    if (w == "case") {
      cases.emplace_back();
      is >> cases.back().id >> cases.back().tier >> cases.back().file;
    } else if (w == "node") {
      Node nd;
      is >> nd.name >> nd.kind >> nd.amount >> nd.mode >> nd.date >> nd.r1 >> nd.r2;
      cases.back().nodes.push_back(nd);
    } else if (w == "edge") {
      std::string a, b;
      is >> a >> b;
      cases.back().edges.emplace_back(a, b);
    } else if (w == "assign") {
      Node nd;
      is >> nd.date >> nd.name >> nd.r1 >> nd.r2;
      cases.back().assigns.push_back(nd);
    }
  }
  for (size_t k = first; k < cases.size(); k++) {
    run_case(e, cases[k]);
    oflush();
  }
  return 0;
}
