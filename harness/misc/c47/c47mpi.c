/* C47 MPI program interpreter: argv[1] = string of ops, executed in order by every rank.
 *   b MPI_Barrier   B MPI_Bcast(4 ints, root 0)   r MPI_Allreduce(SUM, 4 ints)   g MPI_Gather(1 int, root 0)
 *   s ring: blocking MPI_Sendrecv to rank+1 / from rank-1 (64 ints)
 *   i MPI_Isend to rank+1 + MPI_Irecv from rank-1 + MPI_Waitall
 *   c compute: smpi_execute_flops(1e8)            z sleep: smpi_sleep(0.5) (MPI_Wtime-visible simulated sleep)
 * Only the trace matters; rank 0 prints "done". */
#include <mpi.h>
#include <smpi/smpi.h>
#include <stdio.h>
#include <string.h>
#include <unistd.h>
int main(int argc, char** argv)
{
  int rank, size, buf[64], out[64 * 8];
  MPI_Request req[2];
  MPI_Init(&argc, &argv);
  MPI_Comm_rank(MPI_COMM_WORLD, &rank);
  MPI_Comm_size(MPI_COMM_WORLD, &size);
  memset(buf, 0, sizeof buf);
  const char* prog = argc > 1 ? argv[1] : "";
  for (const char* p = prog; *p; p++) {
    switch (*p) {
      case 'b': MPI_Barrier(MPI_COMM_WORLD); break;
      case 'B': MPI_Bcast(buf, 4, MPI_INT, 0, MPI_COMM_WORLD); break;
      case 'r': MPI_Allreduce(buf, out, 4, MPI_INT, MPI_SUM, MPI_COMM_WORLD); break;
      case 'g': MPI_Gather(buf, 1, MPI_INT, out, 1, MPI_INT, 0, MPI_COMM_WORLD); break;
      case 's':
        MPI_Sendrecv(buf, 64, MPI_INT, (rank + 1) % size, 7, out, 64, MPI_INT, (rank + size - 1) % size, 7, MPI_COMM_WORLD, MPI_STATUS_IGNORE);
        break;
      case 'i':
        MPI_Isend(buf, 64, MPI_INT, (rank + 1) % size, 8, MPI_COMM_WORLD, &req[0]);
        MPI_Irecv(out, 64, MPI_INT, (rank + size - 1) % size, 8, MPI_COMM_WORLD, &req[1]);
        MPI_Waitall(2, req, MPI_STATUSES_IGNORE);
        break;
      case 'c': smpi_execute_flops(1e8); break;
      case 'z': sleep(1); break;
      case '-': break;
      default: fprintf(stderr, "c47mpi: bad op %c\n", *p); MPI_Abort(MPI_COMM_WORLD, 4);
    }
  }
  MPI_Finalize();
  if (rank == 0)
    printf("done\n");
  return 0;
}
