// C47 S4U program interpreter: runs one small program with whatever --cfg=tracing... options are on the command line.
// usage: c47x "<ops of actor 0>|<ops of actor 1>" [--cfg=...]      (actor i starts on host h<i>; h2 is a spare host)
// ops (one letter each):
//   E exec 1 s               C exec 1 s in tracing category "catA"      S sleep 0.5 s
//   P put to the other actor (0.75 MiB, mailbox "mb", tracing category "catB")        G get from the other actor
//   M migrate to the spare host h2 (or back to h<i> when already there)
//   V add 1 to the user host variable "hv" of the current host, set the user link variable "lv" of l01 to the op index
//   K mark "mk"/"tick"
//   X create a child actor (sleeps 1 s) on the other host, sleep 0.25 s, kill it
//   Y create a child actor (exec 0.5 s in category "catA") on the current host and go on without waiting for it
//   H push the user host state "hs"="busy" on h<i>, sleep 0.25 s, pop it
// The trace is what is checked (lib/paje.py); stdout only says "done <clock>".
#include <simgrid/instr.h>
#include <simgrid/s4u.hpp>
#include <cstdio>
#include <string>
#include <vector>
namespace sg4 = simgrid::s4u;
static int payload;

static void actor(int i, std::string ops)
{
  int k = 0;
  for (char op : ops) {
    k++;
    switch (op) {
      case 'E':
        sg4::this_actor::execute(1073741824.0);
        break;
      case 'C':
        sg4::this_actor::exec_init(1073741824.0)->set_tracing_category("catA")->wait();
        break;
      case 'S':
        sg4::this_actor::sleep_for(0.5);
        break;
      case 'P':
        sg4::Mailbox::by_name("mb")->put_init(&payload, 786432)->set_tracing_category("catB")->wait();
        break;
      case 'G':
        sg4::Mailbox::by_name("mb")->get<int>();
        break;
      case 'M': {
        auto* spare = sg4::Host::by_name("h2");
        sg4::this_actor::set_host(sg4::this_actor::get_host() == spare ? sg4::Host::by_name("h" + std::to_string(i)) : spare);
        break;
      }
      case 'V':
        simgrid::instr::add_host_variable(sg4::this_actor::get_host()->get_name(), "hv", 1.0);
        simgrid::instr::set_link_variable("l01", "lv", k);
        break;
      case 'K':
        simgrid::instr::mark("mk", "tick");
        break;
      case 'X': {
        auto child = sg4::Host::by_name("h" + std::to_string(1 - i))->add_actor("child", [] { sg4::this_actor::sleep_for(1.0); });
        sg4::this_actor::sleep_for(0.25);
        child->kill();
        break;
      }
      case 'Y':
        sg4::this_actor::get_host()->add_actor("child", [] {
          sg4::this_actor::exec_init(536870912.0)->set_tracing_category("catA")->wait();
        });
        break;
      case 'H':
        TRACE_host_push_state(("h" + std::to_string(i)).c_str(), "hs", "busy");
        sg4::this_actor::sleep_for(0.25);
        TRACE_host_pop_state(("h" + std::to_string(i)).c_str(), "hs");
        break;
      default:
        fprintf(stderr, "c47x: bad op %c\n", op);
        exit(4);
    }
  }
}

int main(int argc, char** argv)
{
  sg4::Engine e(&argc, argv);
  sg4::Engine::set_config("network/model:CM02");
  sg4::Engine::set_config("network/TCP-gamma:0");
  std::string prog = argv[1];
  auto* root       = e.get_netzone_root();
  sg4::Host* h[3];
  for (int i = 0; i < 3; i++)
    h[i] = root->add_host("h" + std::to_string(i), 1073741824.0);
  for (int i = 0; i < 3; i++)
    for (int j = i + 1; j < 3; j++) {
      auto* l = root->add_link("l" + std::to_string(i) + std::to_string(j), 1048576.0)->set_latency(0.25);
      root->add_route(h[i], h[j], std::vector<const sg4::Link*>{l});
    }
  root->seal();
  simgrid::instr::declare_tracing_category("catA", "1 0 0");
  simgrid::instr::declare_tracing_category("catB", "0 1 0");
  simgrid::instr::declare_host_variable("hv", "0 0 1");
  simgrid::instr::declare_link_variable("lv", "0 1 1");
  simgrid::instr::declare_mark("mk");
  simgrid::instr::declare_mark_value("mk", "tick");
  TRACE_host_state_declare("hs");
  TRACE_host_state_declare_value("hs", "busy", "1 1 0");
  size_t bar = prog.find('|');
  std::string p0 = prog.substr(0, bar), p1 = bar == std::string::npos ? "" : prog.substr(bar + 1);
  h[0]->add_actor("a0", actor, 0, p0);
  if (bar != std::string::npos)
    h[1]->add_actor("a1", actor, 1, p1);
  e.run();
  printf("done %.17g\n", e.get_clock());
  return 0;
}
