// C44: unfolding set algebra of UDPOR (EventSet / History / Configuration / UnfoldingEvent /
// maximal_subsets_iterator) and the xbt subset enumerators, against brute-force bitmask definitions.
//
//   c44_unfold struct <n> <shard> <nshards>      every DAG of immediate causes on n events (cause sets of event i are the
//                                                subsets of {0..i-1}) x all 2^n subsets: label-independent methods
//   c44_unfold label  <n> <shard> <nshards> <ops> every DAG x every labelling (actors 1..3 up to renaming x ops) that is a
//                                                well-formed event structure x all subsets: conflict-dependent methods
//   c44_unfold iter   <m> <k>                    LazyPowerset / LazyKSubsets / variable_for_loop / EventSet algebra
//   c44_unfold one    <n> <imm0,imm1,..> <labels|->   re-run everything on one unfolding, print every disagreement
//
// The reference side never calls the code under test: events are bit positions, causality is the transitive closure
// of the immediate-cause masks, dependency of two labels is read once from the real transitions
// (Transition::dispatch_depends) and stored in a matrix.
#include "src/mc/explo/udpor/Configuration.hpp"
#include "src/mc/explo/udpor/EventSet.hpp"
#include "src/mc/explo/udpor/History.hpp"
#include "src/mc/explo/udpor/UnfoldingEvent.hpp"
#include "src/mc/explo/udpor/maximal_subsets_iterator.hpp"
#include "src/mc/remote/Channel.hpp"
#include "src/mc/transition/Transition.hpp"
#include "src/mc/transition/TransitionSynchro.hpp"
#include "src/xbt/utils/iter/LazyKSubsets.hpp"
#include "src/xbt/utils/iter/LazyPowerset.hpp"
#include "src/xbt/utils/iter/variable_for_loop.hpp"

#include <algorithm>
#include <csignal>
#include <cstdio>
#include <unistd.h>
#include <cstdlib>
#include <cstring>
#include <map>
#include <set>
#include <string>
#include <sys/mman.h>
#include <sys/socket.h>
#include <vector>

using namespace simgrid::mc;
using namespace simgrid::mc::udpor;
typedef unsigned M; // event set as a bit mask

static const int MAXN = 8;
static inline int popc(M x) { return __builtin_popcount(x); }

// ------------------------------------------------------------------------------------------------ real transitions
static const char* OPN = "LUWR"; // async lock(m0), unlock(m0), wait(m0), random (independent of everything)
static TransitionPtr pool[4][4]; // [actor 1..3][op]
static bool pooldep[16][16];     // dependency of two labels (actor*4+op), read from the real transitions

static void make_pool()
{
  int sv[2];
  if (socketpair(AF_UNIX, SOCK_STREAM, 0, sv) != 0) {
    perror("socketpair");
    exit(2);
  }
  Channel app(sv[0]), chk(sv[1]);
  for (int a = 1; a <= 3; a++)
    for (int o = 0; o < 4; o++) {
      Transition::Type t = o == 0   ? Transition::Type::MUTEX_ASYNC_LOCK
                           : o == 1 ? Transition::Type::MUTEX_UNLOCK
                           : o == 2 ? Transition::Type::MUTEX_WAIT
                                    : Transition::Type::RANDOM;
      app.pack<Transition::Type>(t);
      if (o == 3) {
        app.pack<int>(0);
        app.pack<int>(1);
      } else {
        app.pack<unsigned>(0u);      // mutex id
        app.pack<aid_t>((aid_t)a);   // owner
      }
      app.send();
      pool[a][o] = TransitionPtr(deserialize_transition(Aid((unsigned)a), 0, chk));
    }
  for (int x = 4; x < 16; x++)
    for (int y = 4; y < 16; y++) {
      pooldep[x][y] = pool[x / 4][x % 4]->dispatch_depends(pool[y / 4][y % 4].get());
    }
  for (int x = 4; x < 16; x++)
    for (int y = 4; y < 16; y++)
      if (pooldep[x][y] != pooldep[y][x]) {
        fprintf(stderr, "harness assumption broken: dispatch_depends not symmetric on %d,%d\n", x, y);
        exit(2);
      }
}

// ------------------------------------------------------------------------------------------------ reference model
struct Ref {
  int n;
  M imm[MAXN], lt[MAXN], cl[MAXN];
  int lab[MAXN]; // actor*4+op, or -1
  bool dep[MAXN][MAXN];
  bool confm[MAXN][MAXN];
  void causality()
  {
    for (int i = 0; i < n; i++) {
      M a = 0;
      for (int c = 0; c < i; c++)
        if (imm[i] >> c & 1)
          a |= cl[c];
      lt[i] = a;
      cl[i] = a | (1u << i);
    }
  }
  M closure(M s) const
  {
    M r = 0;
    for (int i = 0; i < n; i++)
      if (s >> i & 1)
        r |= cl[i];
    return r;
  }
  M maxels(M s) const
  {
    M r = 0;
    for (int i = 0; i < n; i++)
      if (s >> i & 1) {
        bool below = false;
        for (int j = 0; j < n; j++)
          if (j != i && (s >> j & 1) && (lt[j] >> i & 1))
            below = true;
        if (not below)
          r |= 1u << i;
      }
    return r;
  }
  bool antichain(M s) const { return maxels(s) == s; }
  bool related(int i, int j) const { return (cl[i] >> j & 1) || (cl[j] >> i & 1); }
  // direct conflict: two distinct, causally unrelated events with dependent labels
  bool direct(int i, int j) const { return i != j && not related(i, j) && dep[i][j]; }
  // conflict: inherited through causality
  bool conflict(int i, int j) const
  {
    for (int a = 0; a < n; a++)
      if (cl[i] >> a & 1)
        for (int b = 0; b < n; b++)
          if ((cl[j] >> b & 1) && direct(a, b))
            return true;
    return false;
  }
  void labels_changed()
  {
    for (int i = 0; i < n; i++)
      for (int j = 0; j < n; j++)
        dep[i][j] = pooldep[lab[i]][lab[j]];
    for (int i = 0; i < n; i++)
      for (int j = 0; j < n; j++)
        confm[i][j] = conflict(i, j);
  }
  bool wellformed() const
  { // every local configuration is conflict free (otherwise this is not an event structure)
    for (int i = 0; i < n; i++)
      if (confm[i][i])
        return false;
    return true;
  }
  bool cfree(M s) const
  {
    for (int i = 0; i < n; i++)
      if (s >> i & 1)
        for (int j = i + 1; j < n; j++)
          if ((s >> j & 1) && confm[i][j])
            return false;
    return true;
  }
  bool valid(M s) const { return closure(s) == s && cfree(s); }
  // only used to *classify* a disagreement (never as the expected value): the relation
  // "some event of [i]\[j] is dependent with j itself, or vice versa"
  bool onesided(int i, int j) const
  {
    if (related(i, j))
      return false;
    for (int x = 0; x < n; x++) {
      if ((cl[i] >> x & 1) && not(cl[j] >> x & 1) && dep[x][j])
        return true;
      if ((cl[j] >> x & 1) && not(cl[i] >> x & 1) && dep[x][i])
        return true;
    }
    return false;
  }
  bool cfree_onesided(M s) const
  {
    for (int i = 0; i < n; i++)
      if (s >> i & 1)
        for (int j = 0; j < n; j++)
          if (j != i && (s >> j & 1) && onesided(i, j))
            return false;
    return true;
  }
  std::string dag_str() const
  {
    std::string s;
    for (int i = 0; i < n; i++) {
      if (i)
        s += ",";
      s += std::to_string(imm[i]);
    }
    return s;
  }
  std::string lab_str() const
  {
    std::string s;
    for (int i = 0; i < n; i++) {
      s += char('0' + lab[i] / 4);
      s += OPN[lab[i] % 4];
    }
    return s;
  }
};

// ------------------------------------------------------------------------------------------------ bookkeeping
static long n_calls = 0, n_viol = 0, n_subset_evals = 0;
static std::map<std::string, long> viol_classes;           // class -> count
static std::map<std::string, std::string> viol_first;      // class -> first case (json)
static bool verbose_one = false;
static long cur_place = 0;
static const char* cur_mode = "unfolding"; // or "iter": how the driver re-runs the case alone
static unsigned long cur_dag = 0, cur_class = 0; // canonical position of the case being checked

static void report(const Ref& r, const char* method, const char* cls, M s, M arg, long impl, long ref)
{
  n_viol++;
  std::string c = std::string(method) + (cls[0] ? std::string(" ") + cls : std::string(""));
  viol_classes[c]++;
  char buf[512];
  snprintf(buf, sizeof buf,
           "{\"kind\":\"%s\",\"n\":%d,\"dag\":\"%s\",\"lab\":\"%s\",\"method\":\"%s\",\"class\":\"%s\",\"subset\":%u,\"arg\":%u,"
           "\"impl\":%ld,\"ref\":%ld,\"place\":%ld,\"ord\":[%lu,%lu]}",
           cur_mode, r.n, r.dag_str().c_str(), r.lab[0] >= 0 ? r.lab_str().c_str() : "-", method, cls, s, arg, impl, ref, cur_place, cur_dag, cur_class);
  if (not viol_first.count(c))
    viol_first[c] = buf;
  if (verbose_one)
    printf("DISAGREE %s\n", buf);
}
#define CHECK(r, method, cls, s, arg, impl, ref)                                                                       \
  do {                                                                                                                 \
    n_calls++;                                                                                                         \
    long i_ = (long)(impl), r_ = (long)(ref);                                                                          \
    if (i_ != r_)                                                                                                      \
      report(r, method, cls, s, arg, i_, r_);                                                                          \
  } while (0)

static const Ref* cur_ref = nullptr;
static void on_crash(int sig)
{ // an xbt_assert / segfault inside the code under test: name the case, the driver re-runs it alone
  if (cur_ref != nullptr)
    printf("CRASH {\"kind\":\"unfolding\",\"n\":%d,\"dag\":\"%s\",\"lab\":\"%s\",\"method\":\"crash\",\"class\":\"signal-%d\",\"subset\":0,\"arg\":0,"
           "\"impl\":%d,\"ref\":0,\"place\":%ld,\"ord\":[%lu,%lu]}\n",
           cur_ref->n, cur_ref->dag_str().c_str(), cur_ref->lab[0] >= 0 ? cur_ref->lab_str().c_str() : "-", sig, sig,
           cur_place, cur_dag, cur_class);
  fflush(stdout);
  _exit(3);
}

// ------------------------------------------------------------------------------------------------ implementation side
struct Impl {
  int n = 0;
  UnfoldingEvent* ev[MAXN];
  std::map<const UnfoldingEvent*, int> idx;
  // Events live in a fixed-address arena: the iteration order of EventSet (an unordered_set of pointers) depends on the
  // addresses, so the placement of the events is part of the case and must be identical when a case is re-run alone.
  int slot[MAXN] = {0, 1, 2, 3, 4, 5, 6, 7};
  static char* arena()
  {
    static char* a = nullptr;
    if (a == nullptr) {
      a = (char*)mmap((void*)0x7e5000000000ul, 1 << 16, PROT_READ | PROT_WRITE,
                      MAP_PRIVATE | MAP_ANONYMOUS | MAP_FIXED_NOREPLACE, -1, 0);
      if (a != (char*)0x7e5000000000ul) {
        fprintf(stderr, "cannot map the event arena at its fixed address\n");
        exit(2);
      }
    }
    return a;
  }
  ~Impl() { clear(); }
  void clear()
  {
    for (int i = 0; i < n; i++)
      ev[i]->~UnfoldingEvent();
    n = 0;
    idx.clear();
  }
  // The iteration order of an EventSet also depends on the order in which it was filled. Variant bit 0: the immediate
  // causes of an event are inserted in descending (instead of ascending) index order; bit 1: same for the subsets handed
  // to the methods under test. (With the arena addresses no two events share a hash bucket, so an EventSet iterates in
  // reverse insertion order: the four variants give both orders for both kinds of sets.)
  int variant = 0;
  void place(int, long v) { variant = (int)v; }
  void build(const Ref& r)
  {
    clear();
    n = r.n;
    for (int i = 0; i < n; i++) {
      EventSet causes;
      for (int k = 0; k < i; k++) {
        int c = (variant & 1) ? i - 1 - k : k;
        if (r.imm[i] >> c & 1)
          causes.insert(ev[c]);
      }
      int l  = r.lab[i] >= 0 ? r.lab[i] : 4 + 3; // actor 1, RANDOM
      ev[i]  = new (arena() + 256 * slot[i]) UnfoldingEvent(causes, pool[l / 4][l % 4]);
      idx[ev[i]] = i;
    }
  }
  void relabel(const Ref& r)
  {
    for (int i = 0; i < n; i++)
      ev[i]->associated_transition = pool[r.lab[i] / 4][r.lab[i] % 4];
  }
  EventSet set(M s) const
  {
    EventSet e;
    for (int k = 0; k < n; k++) {
      int i = (variant & 2) ? n - 1 - k : k;
      if (s >> i & 1)
        e.insert(ev[i]);
    }
    return e;
  }
  // -1 = contains something that is not one of our events
  long mask(const EventSet& e) const
  {
    M m = 0;
    for (const auto* x : e) {
      auto it = idx.find(x);
      if (it == idx.end())
        return -1;
      m |= 1u << it->second;
    }
    if ((size_t)popc(m) != e.size())
      return -2;
    return m;
  }
  int index(const UnfoldingEvent* e) const
  {
    auto it = idx.find(e);
    return it == idx.end() ? -1 : it->second;
  }
};

// is `v` a permutation of s in which every cause comes before (dir=+1) / after (dir=-1) its effects?
static long topo_ok(const Ref& r, const Impl& im, const std::vector<const UnfoldingEvent*>& v, M s, int dir)
{
  if ((int)v.size() != popc(s))
    return 0;
  int pos[MAXN];
  for (int i = 0; i < r.n; i++)
    pos[i] = -1;
  for (size_t k = 0; k < v.size(); k++) {
    int i = im.index(v[k]);
    if (i < 0 || not(s >> i & 1) || pos[i] >= 0)
      return 0;
    pos[i] = (int)k;
  }
  for (int i = 0; i < r.n; i++)
    for (int j = 0; j < r.n; j++)
      if ((s >> i & 1) && (s >> j & 1) && (r.lt[j] >> i & 1)) // i < j
        if (dir > 0 ? pos[i] >= pos[j] : pos[i] <= pos[j])
          return 0;
  return 1;
}

// classification only: does the ordering list some event of s more than once (and nothing outside s)?
static bool repeats(const Impl& im, const std::vector<const UnfoldingEvent*>& v, M s)
{
  if ((int)v.size() <= popc(s))
    return false;
  for (const auto* e : v) {
    int i = im.index(e);
    if (i < 0 || not(s >> i & 1))
      return false;
  }
  return true;
}
#define TOPO_CHECK(name, call, dir)                                                                                    \
  do {                                                                                                                 \
    std::vector<const UnfoldingEvent*> v_;                                                                             \
    long threw_ = 0;                                                                                                   \
    try {                                                                                                              \
      v_ = call;                                                                                                       \
    } catch (const std::invalid_argument&) {                                                                           \
      threw_ = 1;                                                                                                      \
    }                                                                                                                  \
    long ok_ = threw_ ? -1 : topo_ok(r, im, v_, s, dir);                                                               \
    CHECK(r, name, threw_ ? "throws" : ok_ == 1 ? "" : repeats(im, v_, s) ? "repeats-events" : "wrong-order", s, 0,    \
          ok_, 1);                                                                                                     \
  } while (0)

// all antichains inside `s` (restricted to filter f) of size <= maxsize
static std::multiset<M> ref_antichains(const Ref& r, M s, M f, int maxsize)
{
  std::multiset<M> out;
  M u = s & f;
  for (M t = u;; t = (t - 1) & u) {
    if (popc(t) <= maxsize && r.antichain(t))
      out.insert(t);
    if (t == 0)
      break;
  }
  return out;
}

static void check_maxsubsets(const Ref& r, const Impl& im, M s, M f, bool use_filter, int maxsize, bool as_config)
{
  std::multiset<M> got;
  bool bad = false;
  std::optional<maximal_subsets_iterator::node_filter_function> filt = std::nullopt;
  if (use_filter)
    filt = [&](const UnfoldingEvent* e) { return (f >> im.index(e) & 1) != 0; };
  std::optional<size_t> ms = std::nullopt;
  if (maxsize < MAXN)
    ms = (size_t)maxsize;
  EventSet es = im.set(s);
  long guard  = 0;
  if (as_config) {
    Configuration c(es);
    for (maximal_subsets_iterator it(c, filt, ms), end; it != end && guard < 100000; ++it, ++guard) {
      long m = im.mask(*it);
      if (m < 0)
        bad = true;
      else
        got.insert((M)m);
    }
  } else {
    for (maximal_subsets_iterator it(es, filt, ms), end; it != end && guard < 100000; ++it, ++guard) {
      long m = im.mask(*it);
      if (m < 0)
        bad = true;
      else
        got.insert((M)m);
    }
  }
  std::multiset<M> want = ref_antichains(r, s, use_filter ? f : ~0u, maxsize);
  // "each qualifying set exactly once": equal as multisets
  long ok = (not bad) && got == want;
  char cls[64];
  snprintf(cls, sizeof cls, "%s%s%s", use_filter ? "filter " : "", maxsize < MAXN ? "bounded " : "",
           got.size() > want.size() ? "too-many" : got.size() < want.size() ? "too-few" : "wrong-sets");
  if (not ok) { // classification only: the iterator walks the reverse topological ordering of the set
    try {
      if (repeats(im, es.get_topological_ordering_of_reverse_graph(), s))
        snprintf(cls, sizeof cls, "repeats-events");
    } catch (const std::invalid_argument&) {
    }
  }
  CHECK(r, as_config ? "maximal_subsets_iterator(Configuration)" : "maximal_subsets_iterator(EventSet)", ok ? "" : cls,
        s, (use_filter ? f : 0) | (maxsize < MAXN ? (M)maxsize << 16 : 0), ok ? 1 : (long)got.size(), ok ? 1 : (long)want.size());
}

// ------------------------------------------------------------------------------------------------ label-independent
static void check_structure(const Ref& r, const Impl& im, bool filters)
{
  const int n = r.n;
  const M full = (1u << n) - 1;
  for (int i = 0; i < n; i++) {
    CHECK(r, "UnfoldingEvent::get_history", "", 1u << i, 0, im.mask(im.ev[i]->get_history()), r.lt[i]);
    CHECK(r, "UnfoldingEvent::get_local_config", "", 1u << i, 0, im.mask(im.ev[i]->get_local_config()), r.cl[i]);
    for (int j = 0; j < n; j++) {
      CHECK(r, "UnfoldingEvent::in_history_of", "", 1u << i, 1u << j, im.ev[i]->in_history_of(im.ev[j]),
            r.cl[j] >> i & 1);
      CHECK(r, "UnfoldingEvent::related_to", "", 1u << i, 1u << j, im.ev[i]->related_to(im.ev[j]), r.related(i, j));
    }
  }
  for (M s = 0; s <= full; s++) {
    n_subset_evals++;
    const EventSet es = im.set(s);
    const History h(es);
    const M cl = r.closure(s), mx = r.maxels(s);
    CHECK(r, "History::get_all_events", "", s, 0, im.mask(h.get_all_events()), cl);
    CHECK(r, "History::get_all_maximal_events", "", s, 0, im.mask(h.get_all_maximal_events()), mx);
    for (int i = 0; i < n; i++)
      CHECK(r, "History::contains", "", s, 1u << i, h.contains(im.ev[i]), cl >> i & 1);
    { // the iteration visits each event of the history exactly once
      M seen = 0;
      long dup = 0, steps = 0;
      for (auto it = h.begin(); it != h.end() && steps < 1000; ++it, ++steps) {
        int i = im.index(*it);
        if (i < 0 || (seen >> i & 1))
          dup++;
        else
          seen |= 1u << i;
      }
      CHECK(r, "History::begin..end", dup ? "revisits" : "", s, 0, dup ? -1 : (long)seen, cl);
    }
    CHECK(r, "EventSet::get_local_config", "", s, 0, im.mask(es.get_local_config()), cl);
    CHECK(r, "EventSet::get_largest_maximal_subset", "", s, 0, im.mask(es.get_largest_maximal_subset()), mx);
    CHECK(r, "EventSet::is_maximal", "", s, 0, es.is_maximal(), r.antichain(s));
    CHECK(r, "EventSet::contains(History(self))", "", s, 0, es.contains(h), cl == s);
    for (M t = 0; t <= full; t++) {
      const History ht(im.set(t));
      const M clt = r.closure(t);
      CHECK(r, "EventSet::contains(History)", "", s, t, es.contains(ht), (clt & ~s) == 0);
      CHECK(r, "EventSet::intersects(History)", "", s, t, es.intersects(ht), (clt & s) != 0);
    }
    TOPO_CHECK("EventSet::get_topological_ordering", es.get_topological_ordering(), +1);
    TOPO_CHECK("EventSet::get_topological_ordering_of_reverse_graph", es.get_topological_ordering_of_reverse_graph(), -1);
    check_maxsubsets(r, im, s, 0, false, MAXN, false);
    for (int k = 1; k <= 3; k++)
      check_maxsubsets(r, im, s, 0, false, k, false);
  }
  if (filters)
    for (M f = 0; f <= full; f++) {
      check_maxsubsets(r, im, full, f, true, MAXN, false);
      check_maxsubsets(r, im, full, f, true, 1, false);
      check_maxsubsets(r, im, full, f, true, 2, false);
    }
}

// ------------------------------------------------------------------------------------------------ label-dependent
static long n_pairs_conflict = 0, n_pairs_inherited2 = 0;

static void check_labelled(const Ref& r, const Impl& im, int pairs /*0 none, 1 antichains, 2 all subsets*/)
{
  const int n = r.n;
  const M full = (1u << n) - 1;
  for (int i = 0; i < n; i++)
    for (int j = 0; j < n; j++) {
      long d = im.ev[i]->is_dependent_with(im.ev[j]);
      CHECK(r, "UnfoldingEvent::is_dependent_with", "", 1u << i, 1u << j, d, r.dep[i][j]);
      long c   = im.ev[i]->conflicts_with(im.ev[j]);
      long ref = r.confm[i][j];
      const char* cls = "";
      if (c != ref) {
        if (c == 0 && not r.onesided(i, j))
          cls = "misses-conflict-inherited-on-both-sides";
        else
          cls = c ? "spurious" : "missed";
      }
      CHECK(r, "UnfoldingEvent::conflicts_with", cls, 1u << i, 1u << j, c, ref);
      if (ref && i < j) {
        n_pairs_conflict++;
        if (not r.onesided(i, j))
          n_pairs_inherited2++;
      }
      // immediate conflict: in conflict, and removing either event leaves a configuration
      long iref = ref && r.valid(r.cl[i] | r.lt[j]) && r.valid(r.lt[i] | r.cl[j]);
      CHECK(r, "UnfoldingEvent::immediately_conflicts_with", "", 1u << i, 1u << j,
            im.ev[i]->immediately_conflicts_with(im.ev[j]), iref);
    }
  for (M s = 0; s <= full; s++) {
    n_subset_evals++;
    const EventSet es = im.set(s);
    {
      long c = es.is_conflict_free(), ref = r.cfree(s);
      const char* cls = "";
      if (c != ref)
        cls = (c == 1 && r.cfree_onesided(s)) ? "misses-conflict-inherited-on-both-sides" : c ? "too-lax" : "too-strict";
      CHECK(r, "EventSet::is_conflict_free", cls, s, 0, c, ref);
    }
    for (int i = 0; i < n; i++) {
      long ref = 0;
      for (int j = 0; j < n; j++)
        if ((s >> j & 1) && r.confm[i][j])
          ref = 1;
      long c = im.ev[i]->conflicts_with_any(es);
      const char* cls = "";
      if (c != ref) {
        long one = 0;
        for (int j = 0; j < n; j++)
          if ((s >> j & 1) && r.onesided(i, j))
            one = 1;
        cls = (c == 0 && one == 0) ? "misses-conflict-inherited-on-both-sides" : c ? "spurious" : "missed";
      }
      CHECK(r, "UnfoldingEvent::conflicts_with_any", cls, s, 1u << i, c, ref);
    }
    const bool valid = r.valid(s);
    CHECK(r, "EventSet::is_valid_configuration", "", s, 0, es.is_valid_configuration(), valid);
    long threw = 0;
    std::optional<Configuration> conf;
    try {
      conf.emplace(es);
    } catch (const std::invalid_argument&) {
      threw = 1;
    }
    CHECK(r, "Configuration::Configuration(EventSet)", threw ? "throws" : "accepts", s, 0, threw, not valid);
    if (not valid || threw)
      continue;
    const Configuration& C = conf.value();
    CHECK(r, "Configuration::get_events", "", s, 0, im.mask(C.get_events()), s);
    CHECK(r, "EventSet(Configuration)", "", s, 0, im.mask(EventSet(C)), s);
    const bool topo_rep = repeats(im, C.get_topologically_sorted_events(), s);
    // latest event of each actor: in a configuration the events of one actor are totally ordered by causality
    for (unsigned a = 0; a <= 4; a++) {
      long ref = -1;
      for (int i = 0; i < n; i++)
        if ((s >> i & 1) && (unsigned)(r.lab[i] / 4) == a) {
          bool latest = true;
          for (int j = 0; j < n; j++)
            if (j != i && (s >> j & 1) && r.lab[j] / 4 == r.lab[i] / 4 && (r.lt[j] >> i & 1))
              latest = false;
          if (latest)
            ref = i;
        }
      auto got = C.get_latest_event_of(Aid(a));
      // (classification only) the constructor fills its actor->latest event map by walking the topological ordering
      const char* lcls = topo_rep ? "repeats-events" : "";
      CHECK(r, "Configuration::get_latest_event_of", lcls, s, a, got.has_value() ? im.index(got.value()) : -1, ref);
      auto act = C.get_latest_action_of(Aid(a));
      long act_ok = ref >= 0 ? (act.has_value() && act.value() == pool[r.lab[ref] / 4][r.lab[ref] % 4].get())
                             : not act.has_value();
      CHECK(r, "Configuration::get_latest_action_of", lcls, s, a, act_ok, 1);
    }
    {
      long got = im.mask(C.get_minimally_reproducible_events());
      CHECK(r, "Configuration::get_minimally_reproducible_events", got == (long)r.maxels(s) ? "" : got == 0 ? "returns-empty-set" : "wrong-set", s, 0,
            got, r.maxels(s));
    }
    TOPO_CHECK("Configuration::get_topologically_sorted_events", C.get_topologically_sorted_events(), +1);
    TOPO_CHECK("Configuration::get_topologically_sorted_events_of_reverse_graph",
               C.get_topologically_sorted_events_of_reverse_graph(), -1);
    check_maxsubsets(r, im, s, 0, false, MAXN, true);
    for (int i = 0; i < n; i++) {
      const long compat = r.valid(s | (1u << i));
      CHECK(r, "Configuration::is_compatible_with(event)", "", s, 1u << i, C.is_compatible_with(im.ev[i]), compat);
      Configuration D(C);
      long t2 = 0;
      try {
        D.add_event(im.ev[i]);
      } catch (const std::invalid_argument&) {
        t2 = 1;
      }
      CHECK(r, "Configuration::add_event", t2 ? "throws" : "accepts", s, 1u << i, t2, not compat);
      if (not t2 && compat) {
        CHECK(r, "Configuration::add_event result", "", s, 1u << i, im.mask(D.get_events()), s | (1u << i));
        if (not(s >> i & 1)) {
          CHECK(r, "Configuration::get_latest_event", "", s, 1u << i, im.index(D.get_latest_event()), i);
          auto got = D.get_latest_event_of(Aid((unsigned)(r.lab[i] / 4)));
          CHECK(r, "Configuration::add_event latest_event_of", "", s, 1u << i,
                got.has_value() ? im.index(got.value()) : -1, i);
        }
      }
    }
    for (M t = 0; t <= full && pairs > 0; t++) {
      if (pairs == 1 && not r.antichain(t))
        continue; // every history is the history of exactly one antichain
      const History ht(im.set(t));
      const M clt = r.closure(t);
      CHECK(r, "History::get_event_diff_with", "", s, t, im.mask(ht.get_event_diff_with(C)), clt & ~s);
      CHECK(r, "Configuration::is_compatible_with(History)", "", s, t, C.is_compatible_with(ht), r.valid(s | clt));
    }
    {
      long t3 = 0;
      M got   = 0;
      try {
        Configuration H{History(es)};
        got = (M)im.mask(H.get_events());
      } catch (const std::invalid_argument&) {
        t3 = 1;
      }
      CHECK(r, "Configuration::Configuration(History)", "", s, 0, t3 ? -1 : (long)got, s);
    }
  }
  for (int i = 0; i < n; i++) { // Configuration(event) = local configuration; well-formed => always valid
    long t = 0;
    M got  = 0;
    try {
      Configuration c(im.ev[i]);
      got = (M)im.mask(c.get_events());
    } catch (const std::invalid_argument&) {
      t = 1;
    }
    CHECK(r, "Configuration::Configuration(event)", "", 1u << i, 0, t ? -1 : (long)got, r.cl[i]);
  }
}

// ------------------------------------------------------------------------------------------------ enumeration
static void set_dag(Ref& r, int n, unsigned long code)
{ // code: concatenation of the cause masks, event i uses i bits
  r.n = n;
  int sh = 0;
  for (int i = 0; i < n; i++) {
    r.imm[i] = (M)((code >> sh) & ((1ul << i) - 1));
    sh += i;
  }
  r.causality();
}

static std::vector<std::string> samples;
static long n_wf_members = 0;
static long n_classes_run = 0, n_k0_none = 0, n_k0_empty = 0;
static long n_dags = 0, n_unf = 0, n_wf = 0, n_nontrivial = 0, n_dag_nontrivial = 0;

static void summary(const char* mode, int n)
{
  printf("{\"mode\":\"%s\",\"n\":%d,\"classes_run\":%ld,\"k0_none\":%ld,\"k0_empty\":%ld,\"dags\":%ld,\"dags_nontrivial\":%ld,\"unfoldings\":%ld,\"wellformed\":%ld,\"wellformed_labellings\":%ld,"
         "\"nontrivial\":%ld,\"subset_evals\":%ld,\"calls\":%ld,\"conflict_pairs\":%ld,\"conflict_pairs_inherited_both_sides\":%ld,"
         "\"violations\":%ld,\"classes\":{",
         mode, n, n_classes_run, n_k0_none, n_k0_empty, n_dags, n_dag_nontrivial, n_unf, n_wf, n_wf_members, n_nontrivial, n_subset_evals, n_calls, n_pairs_conflict,
         n_pairs_inherited2, n_viol);
  bool first = true;
  for (auto& [c, k] : viol_classes) {
    printf("%s\"%s\":{\"count\":%ld,\"first\":%s}", first ? "" : ",", c.c_str(), k, viol_first[c].c_str());
    first = false;
  }
  printf("},\"samples\":[");
  for (size_t i = 0; i < samples.size(); i++)
    printf("%s\"%s\"", i ? "," : "", samples[i].c_str());
  printf("]}\n");
  fflush(stdout);
}

static bool next_labelling(int n, int* act, int* op, int nops)
{ // odometer over (restricted-growth actor strings with <=3 blocks) x ops^n
  for (int i = n - 1; i >= 0; i--) {
    if (++op[i] < nops)
      return true;
    op[i] = 0;
  }
  for (int i = n - 1; i >= 1; i--) {
    int mx = 0;
    for (int j = 0; j < i; j++)
      mx = std::max(mx, act[j]);
    if (act[i] < std::min(mx + 1, 3)) {
      act[i]++;
      for (int j = i + 1; j < n; j++)
        act[j] = 1;
      return true;
    }
  }
  return false;
}

static void parse_ops(const char* s, int* map, int* nops)
{
  *nops = 0;
  for (; *s; s++) {
    const char* p = strchr(OPN, *s);
    if (not p) {
      fprintf(stderr, "bad op %c\n", *s);
      exit(2);
    }
    map[(*nops)++] = (int)(p - OPN);
  }
}

// ------------------------------------------------------------------------------------------------ iter mode
template <class C, class Get> static void check_powerset_and_ksubsets(const C& cont, Get key, const char* what, Ref& r0)
{
  std::vector<long> keys;
  for (auto it = cont.begin(); it != cont.end(); ++it)
    keys.push_back(key(*it));
  const int m = (int)keys.size();
  {
    std::multiset<std::set<long>> got, want;
    long steps = 0;
    for (const auto& sub : simgrid::xbt::make_powerset_iter<C>(cont)) {
      std::set<long> s;
      for (const auto& itx : sub)
        s.insert(key(*itx));
      if (s.size() != sub.size())
        s.insert(-999); // repeated element inside a subset
      got.insert(s);
      if (++steps > 100000)
        break;
    }
    for (M b = 0; b < (1u << m); b++) {
      std::set<long> s;
      for (int i = 0; i < m; i++)
        if (b >> i & 1)
          s.insert(keys[i]);
      want.insert(s);
    }
    n_subset_evals += want.size();
    CHECK(r0, (std::string("LazyPowerset<") + what + ">").c_str(), got == want ? "" : got.size() > want.size() ? "too-many" : got.size() < want.size() ? "too-few" : "wrong-sets",
          (M)m, 0, got == want ? 1 : (long)got.size(), got == want ? 1 : (long)want.size());
  }
  for (unsigned k = 0; k <= (unsigned)m + 1; k++) {
    std::multiset<std::set<long>> got, want;
    long steps = 0;
    for (const auto& sub : simgrid::xbt::make_k_subsets_iter(k, cont)) {
      std::set<long> s;
      for (const auto& itx : sub)
        s.insert(key(*itx));
      if (s.size() != sub.size())
        s.insert(-999);
      got.insert(s);
      if (++steps > 100000)
        break;
    }
    for (M b = 0; b < (1u << m); b++)
      if ((unsigned)popc(b) == k) {
        std::set<long> s;
        for (int i = 0; i < m; i++)
          if (b >> i & 1)
            s.insert(keys[i]);
        want.insert(s);
      }
    n_subset_evals += want.size();
    if (k == 0) { // the 0-subsets: the statement of subsets_iterator leaves it open whether the empty set is produced
      // (powerset_iterator relies on begin==end here): accept no yield or the empty set once, count what happened
      if (got.empty())
        n_k0_none++;
      else if (got == want)
        n_k0_empty++;
      else
        CHECK(r0, (std::string("LazyKSubsets<") + what + ">").c_str(), "k=0 wrong-sets", (M)m, k, (long)got.size(), 1);
      continue;
    }
    char cls[64];
    snprintf(cls, sizeof cls, "%s%s", k == 0 ? "k=0 " : "", got.size() > want.size() ? "too-many" : got.size() < want.size() ? "too-few" : "wrong-sets");
    CHECK(r0, (std::string("LazyKSubsets<") + what + ">").c_str(), got == want ? "" : cls, (M)m, k,
          got == want ? 1 : (long)got.size(), got == want ? 1 : (long)want.size());
  }
}

template <class C, class Get>
static void check_forloop(std::vector<C>& poolc, Get key, int kmax, const char* what, Ref& r0)
{
  // every tuple of 1..kmax collections chosen (with repetition: aliasing allowed) among poolc
  const int P = (int)poolc.size();
  for (int k = 1; k <= kmax; k++) {
    long combos = 1;
    for (int i = 0; i < k; i++)
      combos *= P;
    for (long c = 0; c < combos; c++) {
      std::vector<int> sel(k);
      long x = c;
      for (int i = 0; i < k; i++) {
        sel[i] = (int)(x % P);
        x /= P;
      }
      std::vector<std::reference_wrapper<const C>> cols;
      for (int i = 0; i < k; i++)
        cols.push_back(std::cref(poolc[sel[i]]));
      std::multiset<std::vector<long>> got, want;
      long steps = 0;
      for (auto it = simgrid::xbt::variable_for_loop<const C>(cols); it != simgrid::xbt::variable_for_loop<const C>();
           ++it) {
        std::vector<long> t;
        for (const auto& itx : *it)
          t.push_back(key(*itx));
        got.insert(t);
        if (++steps > 100000)
          break;
      }
      // reference: plain nested loops (odometer over the keys)
      std::vector<std::vector<long>> ks(k);
      bool empty = false;
      for (int i = 0; i < k; i++) {
        for (auto itx = poolc[sel[i]].begin(); itx != poolc[sel[i]].end(); ++itx)
          ks[i].push_back(key(*itx));
        if (ks[i].empty())
          empty = true;
      }
      if (not empty) {
        std::vector<size_t> o(k, 0);
        while (true) {
          std::vector<long> t;
          for (int i = 0; i < k; i++)
            t.push_back(ks[i][o[i]]);
          want.insert(t);
          int i = k - 1;
          for (; i >= 0; i--) {
            if (++o[i] < ks[i].size())
              break;
            o[i] = 0;
          }
          if (i < 0)
            break;
        }
      }
      n_subset_evals += want.size();
      unsigned code = 0;
      for (int i = 0; i < k; i++)
        code = code * 8 + (unsigned)poolc[sel[i]].size();
      CHECK(r0, (std::string("variable_for_loop<") + what + ">").c_str(),
            got == want ? "" : got.size() > want.size() ? "too-many" : got.size() < want.size() ? "too-few" : "wrong-tuples",
            code, (M)k, got == want ? 1 : (long)got.size(), got == want ? 1 : (long)want.size());
    }
  }
}

static void run_iter(int m, int kmax)
{
  Ref r0;
  r0.n = m;
  for (int i = 0; i < MAXN; i++) {
    r0.imm[i] = 0;
    r0.lab[i] = -1;
  }
  r0.causality();
  Impl im;
  im.build(r0);
  for (int sz = 0; sz <= m; sz++) {
    std::vector<int> v;
    for (int i = 0; i < sz; i++)
      v.push_back(10 + i);
    check_powerset_and_ksubsets(v, [](int x) { return (long)x; }, "vector<int>", r0);
    EventSet es = im.set((1u << sz) - 1);
    check_powerset_and_ksubsets(es, [&](const UnfoldingEvent* e) { return (long)im.index(e); }, "EventSet", r0);
  }
  // variable_for_loop: pools of three collections of every size vector in 0..smax
  const int smax = std::min(m, 3);
  for (int a = 0; a <= smax; a++)
    for (int b = a; b <= smax; b++)
      for (int c = b; c <= smax; c++) {
        std::vector<std::vector<int>> pv(3);
        std::vector<EventSet> pe(3);
        int sizes[3] = {a, b, c};
        int nxt     = 0;
        for (int p = 0; p < 3; p++)
          for (int i = 0; i < sizes[p]; i++) {
            pv[p].push_back(100 * p + i);
            pe[p].insert(im.ev[(nxt++) % std::max(m, 1)]); // event sets may overlap
          }
        check_forloop(pv, [](int x) { return (long)x; }, kmax, "vector<int>", r0);
        if (m > 0)
          check_forloop(pe, [&](const UnfoldingEvent* e) { return (long)im.index(e); }, kmax, "EventSet", r0);
      }
  // EventSet algebra on all pairs of subsets
  const M full = (1u << m) - 1;
  for (M s = 0; s <= full; s++)
    for (M t = 0; t <= full; t++) {
      EventSet a = im.set(s), b = im.set(t);
      n_subset_evals++;
      CHECK(r0, "EventSet::subtracting", "", s, t, im.mask(a.subtracting(b)), s & ~t);
      CHECK(r0, "EventSet::make_union", "", s, t, im.mask(a.make_union(b)), s | t);
      CHECK(r0, "EventSet::make_intersection", "", s, t, im.mask(a.make_intersection(b)), s & t);
      CHECK(r0, "EventSet::is_subset_of", "", s, t, a.is_subset_of(b), (s & ~t) == 0);
      CHECK(r0, "EventSet::intersects", "", s, t, a.intersects(b), (s & t) != 0);
      CHECK(r0, "EventSet::operator==", "", s, t, a == b, s == t);
      EventSet c = a;
      c.subtract(b);
      CHECK(r0, "EventSet::subtract", "", s, t, im.mask(c), s & ~t);
      c = a;
      c.form_union(b);
      CHECK(r0, "EventSet::form_union", "", s, t, im.mask(c), s | t);
      CHECK(r0, "EventSet::size", "", s, t, a.size(), popc(s));
      CHECK(r0, "EventSet::empty", "", s, t, a.empty(), s == 0);
      for (int i = 0; i < m; i++) {
        CHECK(r0, "EventSet::contains", "", s, 1u << i, a.contains(im.ev[i]), s >> i & 1);
        if (t == 0) {
          CHECK(r0, "EventSet::subtracting(event)", "", s, 1u << i, im.mask(a.subtracting(im.ev[i])), s & ~(1u << i));
          CHECK(r0, "EventSet::make_union(event)", "", s, 1u << i, im.mask(a.make_union(im.ev[i])), s | (1u << i));
        }
      }
    }
  n_dags = 1;
  n_unf  = 1;
  summary("iter", m);
}

int main(int argc, char** argv)
{
  if (argc < 3) {
    fprintf(stderr, "usage\n");
    return 2;
  }
  make_pool();
  signal(SIGABRT, on_crash);
  signal(SIGSEGV, on_crash);
  signal(SIGFPE, on_crash);
  std::string mode = argv[1];
  int n            = atoi(argv[2]);
  if (n < 0 || n > 7)
    return 2;
  Ref r;
  Impl im;
  cur_ref = &r;
  if (mode == "iter") {
    cur_mode    = "iter";
    cur_place   = argc > 3 ? atoi(argv[3]) : 3; // the record keeps kmax there
    verbose_one = argc > 4;
    run_iter(n, argc > 3 ? atoi(argv[3]) : 3);
    return 0;
  }
  if (mode == "one") {
    verbose_one = true;
    r.n         = n;
    char* p     = argv[3];
    for (int i = 0; i < n; i++) {
      r.imm[i] = (M)strtoul(p, &p, 10) & ((1u << i) - 1);
      if (*p == ',')
        p++;
    }
    r.causality();
    const bool lab = argc > 4 && argv[4][0] != '-';
    for (int i = 0; i < n; i++)
      r.lab[i] = lab ? (argv[4][2 * i] - '0') * 4 + (int)(strchr(OPN, argv[4][2 * i + 1]) - OPN) : -1;
    cur_place = argc > 5 ? atol(argv[5]) : 0;
    im.place(n, cur_place);
    im.build(r);
    n_dags = n_unf = 1;
    if (not lab) {
      check_structure(r, im, true);
    } else {
      r.labels_changed();
      if (not r.wellformed()) {
        printf("NOT-WELLFORMED\n");
        return 3;
      }
      n_wf = 1;
      check_labelled(r, im, 2);
    }
    summary("one", n);
    return n_viol ? 1 : 0;
  }
  int shard = atoi(argv[3]), nshards = atoi(argv[4]);
  unsigned long ndag = 1ul << (n * (n - 1) / 2);
  if (mode == "struct") {
    for (int i = 0; i < MAXN; i++)
      r.lab[i] = -1;
    // insertion-order variants (see Impl::variant): the first nplace of the four
    const std::string places = argc > 5 ? argv[5] : "0";
    const long nplace        = (long)places.size();
    long counter = 0;
    for (unsigned long d = 0; d < ndag; d++)
     for (long pl = 0; pl < nplace; pl++) {
      if ((counter++ % nshards) != shard)
        continue;
      set_dag(r, n, d);
      cur_dag = d;
      cur_place = places[pl] - '0';
      im.place(n, cur_place);
      im.build(r);
      n_dags++;
      n_unf++;
      // non-trivial: at least one causal pair that is not an immediate cause (transitivity matters) or
      // one redundant immediate cause, and at least one incomparable pair
      bool trans = false, incomp = false;
      for (int i = 0; i < n; i++) {
        if (r.lt[i] & ~r.imm[i])
          trans = true;
        for (int c = 0; c < i; c++)
          if ((r.imm[i] >> c & 1) && (r.closure(r.imm[i] & ~(1u << c)) >> c & 1))
            trans = true;
        for (int j = 0; j < i; j++)
          if (not r.related(i, j))
            incomp = true;
      }
      if (trans && incomp) {
        n_dag_nontrivial++;
        if (samples.size() < 3)
          samples.push_back("n=" + std::to_string(n) + " causes=" + r.dag_str());
      }
      check_structure(r, im, true);
    }
    n_nontrivial = n_dag_nontrivial;
    summary("struct", n);
    return 0;
  }
  if (mode == "label") {
    // c44_unfold label <n> <shard> <nshards> <ops> <all|reduced|iso> <pairs 0|1|2>
    int opmap[4], nops;
    parse_ops(argc > 5 ? argv[5] : "LUR", opmap, &nops);
    const std::string dagset = argc > 6 ? argv[6] : "all";
    const int pairs          = argc > 7 ? atoi(argv[7]) : 2;
    const std::string places = argc > 8 ? argv[8] : "0";
    const long nplace        = (long)places.size();
    long counter             = 0;
    // labellings = (actors 1..3 up to renaming) x ops^n. Labellings with the same actors and the same dependency matrix
    // are indistinguishable through the Transition interface used by the code under test (aid_, dispatch_depends):
    // the first labelling of each class is run, the others are counted as members of the class.
    struct LabelClass {
      int lab[MAXN];
      long members;
    };
    std::vector<LabelClass> label_classes;
    {
      std::map<std::pair<unsigned long, unsigned long>, size_t> seen;
      int act[MAXN], op[MAXN];
      for (int i = 0; i < n; i++) {
        act[i] = 1;
        op[i]  = 0;
      }
      do {
        LabelClass lc;
        unsigned long ka = 0, kd = 0;
        for (int i = 0; i < n; i++) {
          lc.lab[i] = act[i] * 4 + opmap[op[i]];
          ka        = ka * 4 + act[i];
          for (int j = 0; j < i; j++)
            kd = kd * 2 + pooldep[lc.lab[i]][lc.lab[j]];
        }
        auto [it, fresh] = seen.insert({{ka, kd}, label_classes.size()});
        if (fresh) {
          lc.members = 1;
          label_classes.push_back(lc);
        } else
          label_classes[it->second].members++;
      } while (next_labelling(n, act, op, nops));
    }
    for (unsigned long d = 0; d < ndag; d++) {
      set_dag(r, n, d);
      if (dagset != "all") { // one DAG per partial order: the transitively reduced one
        bool red = false;
        for (int i = 0; i < n; i++)
          for (int c = 0; c < i; c++)
            if ((r.imm[i] >> c & 1) && (r.closure(r.imm[i] & ~(1u << c)) >> c & 1))
              red = true;
        if (red)
          continue;
      }
      if (dagset == "iso") { // one partial order per isomorphism class: the smallest code among all renumberings
                             // of the events that keep causes before effects
        int perm[MAXN];
        for (int i = 0; i < n; i++)
          perm[i] = i;
        bool smallest = true;
        do { // perm[old] = new
          bool ext = true;
          for (int i = 0; i < n && ext; i++)
            for (int c = 0; c < i; c++)
              if ((r.imm[i] >> c & 1) && perm[c] > perm[i])
                ext = false;
          if (not ext)
            continue;
          unsigned long code = 0;
          for (int i = 0; i < n; i++) {
            M m = 0;
            for (int c = 0; c < i; c++)
              if (r.imm[i] >> c & 1)
                m |= 1u << perm[c];
            int ni = perm[i];
            code |= (unsigned long)m << (ni * (ni - 1) / 2);
          }
          if (code < d)
            smallest = false;
        } while (smallest && std::next_permutation(perm, perm + n));
        if (not smallest)
          continue;
      }
      n_dags++;
      bool built = false, dag_nt = false;
      cur_dag = d;
      cur_class = 0;
      for (const auto& lc : label_classes) {
        cur_class++;
        for (int i = 0; i < n; i++)
          r.lab[i] = lc.lab[i];
        n_unf += lc.members;
        r.labels_changed();
        if (not r.wellformed())
          continue;
        n_wf++;
        n_wf_members += lc.members;
        if ((counter++ % nshards) != shard)
          continue;
        n_classes_run++;
        // non-trivial: a conflict exists (some causally closed subset is not a configuration) and two events are
        // concurrent (some subset with incomparable events is one)
        bool conf = false, conc = false;
        for (int i = 0; i < n; i++)
          for (int j = 0; j < i; j++) {
            if (r.confm[i][j])
              conf = true;
            else if (not r.related(i, j))
              conc = true;
          }
        if (conf && conc) {
          n_nontrivial++;
          dag_nt = true;
          if (samples.size() < 3 && (n_nontrivial % 7) == 1)
            samples.push_back("n=" + std::to_string(n) + " causes=" + r.dag_str() + " labels=" + r.lab_str());
        }
        for (long pl = 0; pl < nplace; pl++) {
          if (not built || im.variant != places[pl] - '0') {
            im.place(n, places[pl] - '0');
            im.build(r);
            built = true;
          }
          cur_place = places[pl] - '0';
          im.relabel(r);
          check_labelled(r, im, pairs);
        }
      }
      if (dag_nt)
        n_dag_nontrivial++;
    }
    summary("label", n);
    return 0;
  }
  return 2;
}
