#include "src/mc/explo/udpor/Configuration.hpp"
#include "src/mc/explo/udpor/History.hpp"
#include "src/mc/explo/udpor/Unfolding.hpp"
#include "src/mc/explo/udpor/UnfoldingEvent.hpp"
#include "src/mc/remote/Channel.hpp"
#include "src/mc/transition/Transition.hpp"
#include <sys/socket.h>
using namespace simgrid::mc; using namespace simgrid::mc::udpor;
static Channel *app, *chk;
static TransitionPtr mk(unsigned a, bool lock){
  app->pack<Transition::Type>(lock? Transition::Type::MUTEX_ASYNC_LOCK : Transition::Type::RANDOM);
  if(lock){ app->pack<unsigned>(0u); app->pack<aid_t>((aid_t)a);} else { app->pack<int>(0); app->pack<int>(1);} 
  app->send(); return TransitionPtr(deserialize_transition(Aid(a),0,*chk)); }
int main(){
  int sv[2]; socketpair(AF_UNIX,SOCK_STREAM,0,sv); app=new Channel(sv[0]); chk=new Channel(sv[1]);
  Unfolding U;
  auto* a0 = U.discover_event(EventSet(), mk(1,true));   // actor 1 locks m0
  auto* a1 = U.discover_event(EventSet(), mk(2,true));   // actor 2 locks m0: a0 # a1 (dependent, unrelated)
  auto* x  = U.discover_event(EventSet({a0}), mk(3,false)); // actor 3, independent op, after a0
  auto* y  = U.discover_event(EventSet({a1}), mk(4,false)); // actor 4, independent op, after a1
  auto* d1 = U.discover_event(EventSet(), mk(3,false));  // root event of actor 3: conflicts with x (same actor)
  auto* d2 = U.discover_event(EventSet(), mk(4,false));  // root event of actor 4: conflicts with y
  printf("a0#a1=%d x#y=%d (inherited from a0#a1; expected 1) {x,y}.is_conflict_free=%d (expected 0)\n",
         a0->conflicts_with(a1), x->conflicts_with(y), EventSet({x,y}).is_conflict_free());
  Configuration C;
  try { auto J = C.compute_k_partial_alternative_to(EventSet({d1,d2}), U, 2);
        printf("alternative: %s\n", J.has_value()? "some":"none"); }
  catch(const std::invalid_argument& e){ printf("compute_k_partial_alternative_to THROWS: %s\n", e.what()); }
}
