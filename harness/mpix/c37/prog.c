/* C37 trace replay: interpreter of well-formed MPI programs made of "steps".
 *
 *   prog <programs-file> <first> <last>      runs the programs (lines) first..last-1 of the file
 * A line is a list of steps separated by blanks:
 *   p<src>,<dst>,<bytes>,<S|I|D>,<R|J|E>   one message src->dst; sender uses Send | Isend+Wait | Isend (Wait deferred to the
 *                                          end of the program); receiver Recv | Irecv+Wait | Irecv (Wait deferred)
 *   c<kind>,<root>,<bytes>                 a collective called by every rank: barrier bcast reduce allreduce alltoall gather
 *                                          scatter allgather reducescatter scan exscan sendrecv(ring) gatherv scatterv
 *                                          allgatherv alltoallv (v variants: rank r contributes (r+1)*bytes)
 * Every rank executes its share of each step in order (no deadlock is possible: a blocking call of step i only needs the
 * peers to reach step i). At the end of a program the deferred requests are waited in the order they were issued, the
 * rank prints "T idx=<line> rank=<r> t=<date>" (MPI_Wtime with smpi/wtime:0) and all ranks meet in a separator MPI_Barrier,
 * after which "U idx rank t" is printed. */
#include <mpi.h>
#include <stdio.h>
#include <stdlib.h>
#include <string.h>

#define MAXB (1 << 21)
static char *sbuf, *rbuf;
static int rank, np;

static void collective(const char* kind, int root, int bytes)
{
  int n = bytes / 4; /* counts of MPI_INT */
  if (n < 1)
    n = 1;
  int counts[64], displs[64], total = 0;
  for (int i = 0; i < np; i++) {
    counts[i] = (i + 1) * n;
    displs[i] = total;
    total += counts[i];
  }
  if (!strcmp(kind, "barrier"))
    MPI_Barrier(MPI_COMM_WORLD);
  else if (!strcmp(kind, "bcast"))
    MPI_Bcast(sbuf, n, MPI_INT, root, MPI_COMM_WORLD);
  else if (!strcmp(kind, "reduce"))
    MPI_Reduce(sbuf, rbuf, n, MPI_INT, MPI_SUM, root, MPI_COMM_WORLD);
  else if (!strcmp(kind, "allreduce"))
    MPI_Allreduce(sbuf, rbuf, n, MPI_INT, MPI_SUM, MPI_COMM_WORLD);
  else if (!strcmp(kind, "alltoall"))
    MPI_Alltoall(sbuf, n, MPI_INT, rbuf, n, MPI_INT, MPI_COMM_WORLD);
  else if (!strcmp(kind, "gather"))
    MPI_Gather(sbuf, n, MPI_INT, rbuf, n, MPI_INT, root, MPI_COMM_WORLD);
  else if (!strcmp(kind, "scatter"))
    MPI_Scatter(sbuf, n, MPI_INT, rbuf, n, MPI_INT, root, MPI_COMM_WORLD);
  else if (!strcmp(kind, "allgather"))
    MPI_Allgather(sbuf, n, MPI_INT, rbuf, n, MPI_INT, MPI_COMM_WORLD);
  else if (!strcmp(kind, "reducescatter")) {
    int rc[64];
    for (int i = 0; i < np; i++)
      rc[i] = n;
    MPI_Reduce_scatter(sbuf, rbuf, rc, MPI_INT, MPI_SUM, MPI_COMM_WORLD);
  } else if (!strcmp(kind, "scan"))
    MPI_Scan(sbuf, rbuf, n, MPI_INT, MPI_SUM, MPI_COMM_WORLD);
  else if (!strcmp(kind, "exscan"))
    MPI_Exscan(sbuf, rbuf, n, MPI_INT, MPI_SUM, MPI_COMM_WORLD);
  else if (!strcmp(kind, "sendrecv"))
    MPI_Sendrecv(sbuf, n, MPI_INT, (rank + 1) % np, 3, rbuf, n, MPI_INT, (rank + np - 1) % np, 3, MPI_COMM_WORLD,
                 MPI_STATUS_IGNORE);
  else if (!strcmp(kind, "gatherv"))
    MPI_Gatherv(sbuf, counts[rank], MPI_INT, rbuf, counts, displs, MPI_INT, root, MPI_COMM_WORLD);
  else if (!strcmp(kind, "scatterv"))
    MPI_Scatterv(sbuf, counts, displs, MPI_INT, rbuf, counts[rank], MPI_INT, root, MPI_COMM_WORLD);
  else if (!strcmp(kind, "allgatherv"))
    MPI_Allgatherv(sbuf, counts[rank], MPI_INT, rbuf, counts, displs, MPI_INT, MPI_COMM_WORLD);
  else if (!strcmp(kind, "alltoallv")) {
    int sc[64], sd[64], rc[64], rd[64], a = 0, b = 0;
    for (int i = 0; i < np; i++) { /* rank r sends (r+1)*n to everybody */
      sc[i] = counts[rank];
      sd[i] = a;
      a += sc[i];
      rc[i] = counts[i];
      rd[i] = b;
      b += rc[i];
    }
    MPI_Alltoallv(sbuf, sc, sd, MPI_INT, rbuf, rc, rd, MPI_INT, MPI_COMM_WORLD);
  } else {
    fprintf(stderr, "unknown collective %s\n", kind);
    MPI_Abort(MPI_COMM_WORLD, 2);
  }
}

int main(int argc, char** argv)
{
  MPI_Init(&argc, &argv);
  MPI_Comm_rank(MPI_COMM_WORLD, &rank);
  MPI_Comm_size(MPI_COMM_WORLD, &np);
  if (argc < 4) {
    fprintf(stderr, "usage: prog file first last\n");
    MPI_Abort(MPI_COMM_WORLD, 2);
  }
  sbuf = calloc(MAXB, 1);
  rbuf = calloc(MAXB, 1);
  int first = atoi(argv[2]), last = atoi(argv[3]);
  FILE* f = fopen(argv[1], "r");
  if (!f) {
    fprintf(stderr, "cannot open %s\n", argv[1]);
    MPI_Abort(MPI_COMM_WORLD, 2);
  }
  char line[512];
  for (int idx = 0; fgets(line, sizeof line, f); idx++) {
    if (idx < first || idx >= last)
      continue;
    MPI_Request pending[16];
    int npending = 0;
    char* save = NULL; /* strtok_r: all ranks live in one process and share libc's strtok state */
    for (char* tok = strtok_r(line, " \n", &save); tok; tok = strtok_r(NULL, " \n", &save)) {
      if (tok[0] == 'p') {
        int s, d, bytes;
        char sm, rm;
        if (sscanf(tok + 1, "%d,%d,%d,%c,%c", &s, &d, &bytes, &sm, &rm) != 5) {
          fprintf(stderr, "bad step %s\n", tok);
          MPI_Abort(MPI_COMM_WORLD, 2);
        }
        if (rank == s) {
          if (sm == 'S')
            MPI_Send(sbuf, bytes, MPI_CHAR, d, 1, MPI_COMM_WORLD);
          else {
            MPI_Request q;
            MPI_Isend(sbuf, bytes, MPI_CHAR, d, 1, MPI_COMM_WORLD, &q);
            if (sm == 'I')
              MPI_Wait(&q, MPI_STATUS_IGNORE);
            else
              pending[npending++] = q;
          }
        } else if (rank == d) {
          if (rm == 'R')
            MPI_Recv(rbuf, bytes, MPI_CHAR, s, 1, MPI_COMM_WORLD, MPI_STATUS_IGNORE);
          else {
            MPI_Request q;
            MPI_Irecv(rbuf, bytes, MPI_CHAR, s, 1, MPI_COMM_WORLD, &q);
            if (rm == 'J')
              MPI_Wait(&q, MPI_STATUS_IGNORE);
            else
              pending[npending++] = q;
          }
        }
      } else if (tok[0] == 'c') {
        char kind[32];
        int root, bytes;
        char* c1 = strchr(tok, ',');
        if (!c1 || sscanf(c1 + 1, "%d,%d", &root, &bytes) != 2 || c1 - tok - 1 > 30) {
          fprintf(stderr, "bad step %s\n", tok);
          MPI_Abort(MPI_COMM_WORLD, 2);
        }
        memcpy(kind, tok + 1, c1 - tok - 1);
        kind[c1 - tok - 1] = 0;
        collective(kind, root, bytes);
      } else if (tok[0] != '-') {
        fprintf(stderr, "bad step %s\n", tok);
        MPI_Abort(MPI_COMM_WORLD, 2);
      }
    }
    for (int i = 0; i < npending; i++)
      MPI_Wait(&pending[i], MPI_STATUS_IGNORE);
    printf("T idx=%d rank=%d t=%.9f\n", idx, rank, MPI_Wtime());
    MPI_Barrier(MPI_COMM_WORLD);
    printf("U idx=%d rank=%d t=%.9f\n", idx, rank, MPI_Wtime());
    if (idx % 8 == 0)
      fflush(stdout); /* keep what was printed if a later program kills the simulation */
  }
  fclose(f);
  MPI_Finalize();
  return 0;
}
