/* C37 finding: a TI trace names a request only by (src, dst, tag); the replayer serves "wait" in FIFO order.
 * Rank 1 posts two receives from rank 0 with the same tag and waits for the SECOND one first.
 *   smpicc repro_wait_order.c -o repro && smpirun -np 2 ... -trace-ti -trace-file tr ./repro ; smpirun -np 2 ... -replay tr
 * online: rank 0 ends at 0.0516 s; replay: rank 0 ends at 0.0456 s (rank 1 answers after the small message, not the big one) */
#include <mpi.h>
#include <stdio.h>
#include <stdlib.h>
int main(int argc, char** argv)
{
  int rank;
  MPI_Request a, b;
  char* small = calloc(1000, 1);
  char* big   = calloc(100000, 1);
  char ack[8];
  MPI_Init(&argc, &argv);
  MPI_Comm_rank(MPI_COMM_WORLD, &rank);
  if (rank == 0) {
    MPI_Isend(small, 1000, MPI_CHAR, 1, 1, MPI_COMM_WORLD, &a);
    MPI_Isend(big, 100000, MPI_CHAR, 1, 1, MPI_COMM_WORLD, &b);
    MPI_Recv(ack, 8, MPI_CHAR, 1, 2, MPI_COMM_WORLD, MPI_STATUS_IGNORE);
    MPI_Wait(&a, MPI_STATUS_IGNORE);
    MPI_Wait(&b, MPI_STATUS_IGNORE);
  } else if (rank == 1) {
    MPI_Irecv(small, 1000, MPI_CHAR, 0, 1, MPI_COMM_WORLD, &a);
    MPI_Irecv(big, 100000, MPI_CHAR, 0, 1, MPI_COMM_WORLD, &b);
    MPI_Wait(&b, MPI_STATUS_IGNORE); /* the big one first */
    MPI_Send(ack, 8, MPI_CHAR, 0, 2, MPI_COMM_WORLD);
    MPI_Wait(&a, MPI_STATUS_IGNORE);
  }
  printf("rank %d ends at %.9f\n", rank, MPI_Wtime());
  MPI_Finalize();
  return 0;
}
