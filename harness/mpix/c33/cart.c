/* C33 — Cartesian topologies. One simulation loops over many topologies; every rank checks what MPI defines for itself,
 * the lowest rank of each grid additionally checks the whole rank<->coords bijection.
 *
 * Oracle (written from the MPI standard, §7.5): row-major numbering; rank(c) = sum c[i] * prod_{j>i} dims[j];
 * periodic coordinates are taken modulo dims[i]; shift(dir,disp): dest = rank of own coords with c[dir]+disp, source with
 * c[dir]-disp, MPI_PROC_NULL when that leaves a non-periodic dimension; Cart_sub: the processes that agree on the dropped
 * coordinates, numbered row-major over the kept ones, with the kept dims/periods.
 *
 * usage: cart enum  <lo> <hi> <shard> <nshards> <start>   shapes with lo < nnodes <= hi, index%nshards==shard, index>=start
 *        cart one   <ndims> <d0> <d1> <d2> <d3> <per> <mask|-1>
 *        cart dims  <lo> <hi>                              Dims_create for lo < nnodes <= hi (rank 0 only)
 *        cart dims1 <nnodes> <ndims> <d0> <d1> <d2> <d3>
 * output records: P (progress), V (violation, first few per kind and rank), S (per-kind totals), N (counters). */
#include <mpi.h>
#include <stdio.h>
#include <stdlib.h>
#include <string.h>

#define MAXD 4
#define NKIND 40
#define KEEP 2

static int me, wsize;
static const char* kinds[NKIND];
static long kcount[NKIND];
static int nkinds = 0;
static long n_topos = 0, n_shift = 0, n_shift_edge = 0, n_rank = 0, n_wrap = 0, n_sub = 0, n_subshift = 0, n_dims = 0,
            n_dims_err = 0, n_dims_ok = 0, n_dims_unbalanced = 0, n_dims_unsorted = 0, n_extra_null = 0;

static char ctxbuf[256];

static int kind_id(const char* k)
{
  for (int i = 0; i < nkinds; i++)
    if (strcmp(kinds[i], k) == 0)
      return i;
  kinds[nkinds] = strdup(k);
  return nkinds++;
}

static void viol(const char* kind, const char* detail)
{
  int k = kind_id(kind);
  if (kcount[k]++ < KEEP) {
    printf("V kind=%s %s rank=%d %s\n", kind, ctxbuf, me, detail);
    fflush(stdout);
  }
}

static void fmt_dims(char* b, int n, const int* d)
{
  b[0] = 0;
  if (n == 0)
    strcpy(b, "-");
  for (int i = 0; i < n; i++)
    sprintf(b + strlen(b), "%s%d", i ? "x" : "", d[i]);
}
static void fmt_bits(char* b, int n, int bits)
{
  for (int i = 0; i < n; i++)
    b[i] = (bits >> i) & 1 ? '1' : '0';
  b[n] = 0;
  if (n == 0)
    strcpy(b, "-");
}

/* ---- the reference model ---- */
static void m_coords(int n, const int* dims, int r, int* c)
{
  for (int i = n - 1; i >= 0; i--) {
    c[i] = r % dims[i];
    r /= dims[i];
  }
}
static int m_rank(int n, const int* dims, const int* c)
{
  int r = 0;
  for (int i = 0; i < n; i++)
    r = r * dims[i] + c[i];
  return r;
}
static int m_mod(int a, int d)
{
  int m = a % d;
  return m < 0 ? m + d : m;
}
static int m_neighbour(int n, const int* dims, const int* per, const int* c, int dir, int disp)
{
  int cc[MAXD];
  memcpy(cc, c, sizeof(int) * n);
  int v = c[dir] + disp;
  if (v < 0 || v >= dims[dir]) {
    if (!per[dir])
      return MPI_PROC_NULL;
    v = m_mod(v, dims[dir]);
  }
  cc[dir] = v;
  return m_rank(n, dims, cc);
}

static void check_shifts(MPI_Comm comm, const char* pfx, int n, const int* dims, const int* per, int myrank)
{
  int c[MAXD];
  char det[200], ks[32], kd[32];
  snprintf(ks, sizeof ks, "%sshift-src", pfx);
  snprintf(kd, sizeof kd, "%sshift-dest", pfx);
  m_coords(n, dims, myrank, c);
  for (int dir = 0; dir < n; dir++)
    for (int disp = -2 * dims[dir]; disp <= 2 * dims[dir]; disp++) {
      int src = -12345, dst = -12345;
      int rc  = MPI_Cart_shift(comm, dir, disp, &src, &dst);
      int es  = m_neighbour(n, dims, per, c, dir, -disp);
      int ed  = m_neighbour(n, dims, per, c, dir, disp);
      if (pfx[0])
        n_subshift++;
      else {
        n_shift++;
        if (c[dir] + disp < 0 || c[dir] + disp >= dims[dir] || c[dir] - disp < 0 || c[dir] - disp >= dims[dir])
          n_shift_edge++;
      }
      if (rc != MPI_SUCCESS) {
        snprintf(det, sizeof det, "dir=%d disp=%d got=err%d exp=%d/%d", dir, disp, rc, es, ed);
        viol(kd, det);
        continue;
      }
      if (dst != ed) {
        snprintf(det, sizeof det, "dir=%d disp=%d got=%d exp=%d", dir, disp, dst, ed);
        viol(kd, det);
      }
      if (src != es) {
        snprintf(det, sizeof det, "dir=%d disp=%d got=%d exp=%d", dir, disp, src, es);
        viol(ks, det);
      }
    }
}

/* whole bijection, done by one rank of the grid */
static void check_bijection(MPI_Comm cart, int n, const int* dims, const int* per, int nn)
{
  char det[200];
  char* seen = calloc(nn, 1);
  for (int r = 0; r < nn; r++) {
    int c[MAXD] = {-7, -7, -7, -7}, e[MAXD], back = -7;
    m_coords(n, dims, r, e);
    int rc = MPI_Cart_coords(cart, r, n, c);
    n_rank++;
    int inrange = (rc == MPI_SUCCESS);
    for (int i = 0; i < n && inrange; i++)
      if (c[i] < 0 || c[i] >= dims[i])
        inrange = 0;
    if (!inrange) {
      snprintf(det, sizeof det, "r=%d got=%d,%d,%d,%d rc=%d", r, c[0], c[1], c[2], c[3], rc);
      viol("coords-range", det);
      continue;
    }
    if (memcmp(c, e, sizeof(int) * n)) {
      snprintf(det, sizeof det, "r=%d got=%d,%d,%d,%d exp=%d,%d,%d,%d", r, c[0], c[1], c[2], c[3], e[0], e[1], e[2], e[3]);
      viol("coords-rowmajor", det);
    }
    rc = MPI_Cart_rank(cart, c, &back);
    if (rc != MPI_SUCCESS || back != r) {
      snprintf(det, sizeof det, "r=%d coords=%d,%d,%d,%d back=%d rc=%d", r, c[0], c[1], c[2], c[3], back, rc);
      viol("rank-roundtrip", det);
    }
    if (back >= 0 && back < nn) {
      if (seen[back]) {
        snprintf(det, sizeof det, "r=%d back=%d", r, back);
        viol("rank-not-injective", det);
      }
      seen[back] = 1;
    }
    /* wrap-around: every coordinate value in [-2d, 3d) on each periodic dimension designates c mod d */
    for (int i = 0; i < n; i++) {
      if (!per[i])
        continue;
      for (int v = -2 * dims[i]; v < 3 * dims[i]; v++) {
        if (m_mod(v, dims[i]) != e[i])
          continue;
        int cc[MAXD], got = -7;
        memcpy(cc, e, sizeof cc);
        cc[i] = v;
        rc    = MPI_Cart_rank(cart, cc, &got);
        n_wrap++;
        if (rc != MPI_SUCCESS || got != r) {
          snprintf(det, sizeof det, "r=%d dim=%d coord=%d got=%d rc=%d exp=%d", r, i, v, got, rc, r);
          viol("rank-wrap", det);
        }
      }
    }
  }
  free(seen);
}

static void check_sub(MPI_Comm cart, int n, const int* dims, const int* per, int nn, int mask, const char* basectx)
{
  char det[256], mb[8];
  int remain[MAXD], myc[MAXD];
  int sn = 0, sdims[MAXD], sper[MAXD], smyc[MAXD], ssize = 1;
  fmt_bits(mb, n, mask);
  snprintf(ctxbuf, sizeof ctxbuf, "%s mask=%s", basectx, mb);
  m_coords(n, dims, me, myc);
  for (int i = 0; i < n; i++) {
    remain[i] = (mask >> i) & 1;
    if (remain[i]) {
      sdims[sn] = dims[i];
      sper[sn]  = per[i];
      smyc[sn]  = myc[i];
      ssize *= dims[i];
      sn++;
    }
  }
  MPI_Comm sub = MPI_COMM_NULL;
  int rc       = MPI_Cart_sub(cart, remain, &sub);
  n_sub++;
  const char* z = sn == 0 ? "sub0-" : "sub-";
  char kb[40];
#define K(s) (snprintf(kb, sizeof kb, "%s%s", z, s), kb)
  if (rc != MPI_SUCCESS || sub == MPI_COMM_NULL) {
    snprintf(det, sizeof det, "rc=%d comm=%s", rc, sub == MPI_COMM_NULL ? "NULL" : "ok");
    viol(K("null"), det);
    goto out;
  }
  int sz = -1, rk = -1, nd = -1, status = -1;
  MPI_Comm_size(sub, &sz);
  MPI_Comm_rank(sub, &rk);
  if (sz != ssize) {
    snprintf(det, sizeof det, "got=%d exp=%d", sz, ssize);
    viol(K("size"), det);
  }
  int erk = m_rank(sn, sdims, smyc);
  if (rk != erk) {
    snprintf(det, sizeof det, "got=%d exp=%d", rk, erk);
    viol(K("rank"), det);
  }
  /* members: sub rank s is the process whose kept coordinates decode s and whose dropped coordinates are mine */
  if (sz == ssize) {
    MPI_Group gs, gc;
    MPI_Comm_group(sub, &gs);
    MPI_Comm_group(cart, &gc);
    int* in  = malloc(sizeof(int) * sz);
    int* out = malloc(sizeof(int) * sz);
    for (int s = 0; s < sz; s++)
      in[s] = s;
    MPI_Group_translate_ranks(gs, sz, in, gc, out);
    for (int s = 0; s < sz; s++) {
      int sc[MAXD], full[MAXD], j = 0;
      m_coords(sn, sdims, s, sc);
      for (int i = 0; i < n; i++)
        full[i] = remain[i] ? sc[j++] : myc[i];
      int exp = m_rank(n, dims, full);
      if (out[s] != exp) {
        snprintf(det, sizeof det, "subrank=%d got=%d exp=%d", s, out[s], exp);
        viol(K("members"), det);
      }
    }
    free(in);
    free(out);
    MPI_Group_free(&gs);
    MPI_Group_free(&gc);
  }
  rc = MPI_Cartdim_get(sub, &nd);
  if (rc != MPI_SUCCESS || nd != sn) {
    snprintf(det, sizeof det, "got=%d rc=%d exp=%d", nd, rc, sn);
    viol(K("ndims"), det);
    goto freeit;
  }
  if (sn > 0) {
    int gd[MAXD] = {-7, -7, -7, -7}, gp[MAXD] = {-7, -7, -7, -7}, gc2[MAXD] = {-7, -7, -7, -7};
    rc        = MPI_Cart_get(sub, sn, gd, gp, gc2);
    int okd   = rc == MPI_SUCCESS && !memcmp(gd, sdims, sizeof(int) * sn);
    int okp   = rc == MPI_SUCCESS;
    for (int i = 0; i < sn && okp; i++)
      okp = (!!gp[i]) == sper[i];
    if (!okd || !okp) {
      char a[40], b[40];
      fmt_dims(a, sn, gd);
      fmt_dims(b, sn, sdims);
      snprintf(det, sizeof det, "gotdims=%s expdims=%s gotper=%d,%d,%d,%d rc=%d", a, b, gp[0], gp[1], gp[2], gp[3], rc);
      viol(K("get"), det);
    }
    if (okd && okp && memcmp(gc2, smyc, sizeof(int) * sn)) {
      char a[40], b[40];
      fmt_dims(a, sn, gc2);
      fmt_dims(b, sn, smyc);
      snprintf(det, sizeof det, "got=%s exp=%s", a, b);
      viol(K("get-coords"), det);
    }
    if (okd && okp && sz == ssize && rk == erk) {
      /* only now is it safe to query the sub-grid: a grid with dims 0 inside divides by zero */
      int c[MAXD] = {-7, -7, -7, -7};
      rc          = MPI_Cart_coords(sub, rk, sn, c);
      if (rc != MPI_SUCCESS || memcmp(c, smyc, sizeof(int) * sn)) {
        snprintf(det, sizeof det, "got=%d,%d,%d,%d rc=%d", c[0], c[1], c[2], c[3], rc);
        viol(K("coords"), det);
      }
      check_shifts(sub, "sub-", sn, sdims, sper, rk);
    }
  }
freeit:
  MPI_Comm_free(&sub);
out:
  snprintf(ctxbuf, sizeof ctxbuf, "%s", basectx);
}

static void one_topology(int n, const int* dims, int perbits, int onlymask)
{
  int per[MAXD], nn = 1;
  char db[40], pb[8], base[128], det[256];
  for (int i = 0; i < n; i++) {
    per[i] = (perbits >> i) & 1;
    nn *= dims[i];
  }
  fmt_dims(db, n, dims);
  fmt_bits(pb, n, perbits);
  snprintf(base, sizeof base, "nn=%d dims=%s per=%s", nn, db, pb);
  snprintf(ctxbuf, sizeof ctxbuf, "%s", base);
  MPI_Comm cart = MPI_COMM_NULL;
  int rc        = MPI_Cart_create(MPI_COMM_WORLD, n, dims, per, 0, &cart);
  n_topos++;
  if (me >= nn) {
    n_extra_null++;
    if (rc != MPI_SUCCESS || cart != MPI_COMM_NULL) {
      snprintf(det, sizeof det, "rc=%d", rc);
      viol("create-extra-not-null", det);
    }
    return;
  }
  if (rc != MPI_SUCCESS || cart == MPI_COMM_NULL) {
    snprintf(det, sizeof det, "rc=%d", rc);
    viol("create-null", det);
    return;
  }
  int sz = -1, rk = -1, nd = -1, status = -1;
  MPI_Comm_size(cart, &sz);
  MPI_Comm_rank(cart, &rk);
  if (sz != nn || rk != me) {
    snprintf(det, sizeof det, "size=%d rank=%d", sz, rk);
    viol("create-size-rank", det);
    MPI_Comm_free(&cart);
    return;
  }
  MPI_Cartdim_get(cart, &nd);
  int gd[MAXD] = {-7, -7, -7, -7}, gp[MAXD] = {-7, -7, -7, -7}, gc[MAXD] = {-7, -7, -7, -7}, myc[MAXD];
  rc           = MPI_Cart_get(cart, n, gd, gp, gc);
  m_coords(n, dims, me, myc);
  int ok = nd == n && rc == MPI_SUCCESS && !memcmp(gd, dims, sizeof(int) * n);
  for (int i = 0; i < n && ok; i++)
    ok = (!!gp[i]) == per[i];
  if (!ok) {
    snprintf(det, sizeof det, "status=%d ndims=%d dims=%d,%d,%d,%d per=%d,%d,%d,%d", status, nd, gd[0], gd[1], gd[2],
             gd[3], gp[0], gp[1], gp[2], gp[3]);
    viol("get", det);
    MPI_Comm_free(&cart);
    return;
  }
  if (memcmp(gc, myc, sizeof(int) * n)) {
    snprintf(det, sizeof det, "got=%d,%d,%d,%d exp=%d,%d,%d,%d", gc[0], gc[1], gc[2], gc[3], myc[0], myc[1], myc[2], myc[3]);
    viol("get-coords", det);
  }
  { /* own rank <-> coords, every rank */
    int c[MAXD] = {-7, -7, -7, -7}, back = -7;
    rc          = MPI_Cart_coords(cart, me, n, c);
    if (rc != MPI_SUCCESS || memcmp(c, myc, sizeof(int) * n)) {
      snprintf(det, sizeof det, "r=%d got=%d,%d,%d,%d", me, c[0], c[1], c[2], c[3]);
      viol("coords-rowmajor", det);
    }
    rc = MPI_Cart_rank(cart, myc, &back);
    if (rc != MPI_SUCCESS || back != me) {
      snprintf(det, sizeof det, "r=%d back=%d rc=%d", me, back, rc);
      viol("rank-roundtrip", det);
    }
  }
  if (me == 0)
    check_bijection(cart, n, dims, per, nn);
  check_shifts(cart, "", n, dims, per, me);
  for (int mask = 0; mask < (1 << n); mask++)
    if (onlymask < 0 || onlymask == mask)
      check_sub(cart, n, dims, per, nn, mask, base);
  MPI_Comm_free(&cart);
}

/* ---- Dims_create ---- */
static int completion_exists(int nnodes, int n, const int* in)
{
  long prod = 1;
  int nfree = 0;
  for (int i = 0; i < n; i++) {
    if (in[i] < 0)
      return 0;
    if (in[i] == 0)
      nfree++;
    else
      prod *= in[i];
  }
  if (nnodes % prod)
    return 0;
  return nfree > 0 || prod == nnodes;
}

static void one_dims(int nnodes, int n, const int* in)
{
  int d[MAXD], db_[MAXD];
  char a[64], b[64], det[256];
  memcpy(d, in, sizeof(int) * n);
  int rc = MPI_Dims_create(nnodes, n, d);
  n_dims++;
  /* fmt with commas, entries may be 0 or negative */
  a[0] = b[0] = 0;
  for (int i = 0; i < n; i++) {
    sprintf(a + strlen(a), "%s%d", i ? "," : "", in[i]);
    sprintf(b + strlen(b), "%s%d", i ? "," : "", d[i]);
  }
  snprintf(ctxbuf, sizeof ctxbuf, "nnodes=%d in=%s", nnodes, a);
  int possible = completion_exists(nnodes, n, in);
  if (rc != MPI_SUCCESS) {
    n_dims_err++;
    if (possible) {
      snprintf(det, sizeof det, "rc=%d", rc);
      viol("dims-error-on-valid", det);
    }
    return;
  }
  n_dims_ok++;
  long prod = 1;
  int given = 1, positive = 1;
  for (int i = 0; i < n; i++) {
    prod *= d[i];
    if (in[i] != 0 && d[i] != in[i])
      given = 0;
    if (d[i] < 1)
      positive = 0;
  }
  snprintf(det, sizeof det, "out=%s", b);
  if (!given)
    viol("dims-given-changed", det);
  if (!positive || prod != nnodes)
    viol(possible ? "dims-product" : "dims-success-on-impossible", det);
  else if (possible) {
    /* informational only (MPI asks for it, the property statement does not): free entries non-increasing, and as close
     * to each other as possible = the largest free entry is minimal over all factorisations */
    int f[MAXD], nf = 0;
    long freeprod = 1;
    for (int i = 0; i < n; i++)
      if (in[i] == 0) {
        f[nf++] = d[i];
        freeprod *= d[i];
      }
    for (int i = 1; i < nf; i++)
      if (f[i] > f[i - 1]) {
        n_dims_unsorted++;
        break;
      }
    if (nf > 0) {
      int mx = 0;
      for (int i = 0; i < nf; i++)
        if (f[i] > mx)
          mx = f[i];
      /* smallest achievable maximum: brute force over nf<=4 ordered factorisations */
      int best = (int)freeprod;
      for (int x = 1; x <= freeprod; x++) {
        if (freeprod % x)
          continue;
        if (nf == 1) {
          if (x == freeprod && x < best)
            best = x;
          continue;
        }
        long r1 = freeprod / x;
        for (int y = 1; y <= r1; y++) {
          if (r1 % y)
            continue;
          if (nf == 2) {
            if (y == r1) {
              int m = x > y ? x : y;
              if (m < best)
                best = m;
            }
            continue;
          }
          long r2 = r1 / y;
          for (int z = 1; z <= r2; z++) {
            if (r2 % z)
              continue;
            int w = (int)(r2 / z);
            if (nf == 3 && w != 1)
              continue;
            int m = x > y ? x : y;
            if (z > m)
              m = z;
            if (w > m)
              m = w;
            if (m < best)
              best = m;
          }
        }
      }
      if (mx > best)
        n_dims_unbalanced++;
    }
  }
  (void)db_;
}

static void dims_sweep(int lo, int hi)
{
  for (int nnodes = lo + 1; nnodes <= hi; nnodes++) {
    /* alphabet for a given entry: 0 (free), every divisor of nnodes, the smallest non-divisor >= 2, and -1 */
    int alpha[80], na = 0;
    alpha[na++] = 0;
    for (int v = 1; v <= nnodes; v++)
      if (nnodes % v == 0)
        alpha[na++] = v;
    for (int v = 2; v <= nnodes + 1; v++)
      if (nnodes % v) {
        alpha[na++] = v;
        break;
      }
    alpha[na++] = -1;
    for (int n = 1; n <= MAXD; n++) {
      int idx[MAXD] = {0, 0, 0, 0};
      for (;;) {
        int in[MAXD];
        for (int i = 0; i < n; i++)
          in[i] = alpha[idx[i]];
        one_dims(nnodes, n, in);
        int i = n - 1;
        while (i >= 0 && ++idx[i] == na)
          idx[i--] = 0;
        if (i < 0)
          break;
      }
    }
  }
}

/* ---- all shapes with <= MAXD dims and <= hi nodes, sorted by (nnodes, ndims, dims): the canonical order ---- */
struct shape {
  int nn, n, d[MAXD];
};
static struct shape* shapes;
static int nshapes = 0, capshapes = 0;
static void gen_rec(int n, int i, int* d, int prod, int hi)
{
  if (i == n) {
    if (nshapes == capshapes) {
      capshapes = capshapes ? 2 * capshapes : 1024;
      shapes    = realloc(shapes, capshapes * sizeof *shapes);
    }
    shapes[nshapes].nn = prod;
    shapes[nshapes].n  = n;
    memset(shapes[nshapes].d, 0, sizeof shapes[nshapes].d);
    memcpy(shapes[nshapes].d, d, sizeof(int) * n);
    nshapes++;
    return;
  }
  for (int v = 1; prod * v <= hi; v++) {
    d[i] = v;
    gen_rec(n, i + 1, d, prod * v, hi);
  }
}
static int shape_cmp(const void* a, const void* b)
{
  const struct shape *x = a, *y = b;
  if (x->nn != y->nn)
    return x->nn - y->nn;
  if (x->n != y->n)
    return x->n - y->n;
  for (int i = 0; i < MAXD; i++)
    if (x->d[i] != y->d[i])
      return x->d[i] - y->d[i];
  return 0;
}
static void gen_shapes(int hi)
{
  int d[MAXD];
  for (int n = 1; n <= MAXD; n++)
    gen_rec(n, 0, d, 1, hi);
  qsort(shapes, nshapes, sizeof *shapes, shape_cmp);
}

int main(int argc, char** argv)
{
  MPI_Init(&argc, &argv);
  MPI_Comm_rank(MPI_COMM_WORLD, &me);
  MPI_Comm_size(MPI_COMM_WORLD, &wsize);
  MPI_Comm_set_errhandler(MPI_COMM_WORLD, MPI_ERRORS_RETURN);
  const char* mode = argc > 1 ? argv[1] : "";
  if (!strcmp(mode, "enum")) {
    int lo = atoi(argv[2]), hi = atoi(argv[3]), shard = atoi(argv[4]), nshards = atoi(argv[5]), start = atoi(argv[6]);
    gen_shapes(hi);
    long idx = 0;
    for (int k = 0; k < nshapes; k++) {
      const int* d = shapes[k].d;
      int n        = shapes[k].n;
      if (shapes[k].nn <= lo)
        continue;
      if (idx % nshards == shard && idx >= start) {
        for (int p = 0; p < (1 << n); p++) {
          if (me == 0) {
            char db[40];
            fmt_dims(db, n, d);
            printf("P idx=%ld dims=%s per=%d\n", idx, db, p);
            fflush(stdout);
          }
          one_topology(n, d, p, -1);
        }
      }
      idx++;
    }
  } else if (!strcmp(mode, "one")) {
    int n = atoi(argv[2]), d[MAXD];
    for (int i = 0; i < MAXD; i++)
      d[i] = atoi(argv[3 + i]);
    one_topology(n, d, atoi(argv[7]), atoi(argv[8]));
  } else if (!strcmp(mode, "dims")) {
    if (me == 0)
      dims_sweep(atoi(argv[2]), atoi(argv[3]));
  } else if (!strcmp(mode, "dims1")) {
    int n = atoi(argv[3]), d[MAXD];
    for (int i = 0; i < MAXD; i++)
      d[i] = atoi(argv[4 + i]);
    if (me == 0)
      one_dims(atoi(argv[2]), n, d);
  } else {
    if (me == 0)
      fprintf(stderr, "bad mode\n");
    MPI_Finalize();
    return 2;
  }
  for (int k = 0; k < nkinds; k++)
    printf("S rank=%d kind=%s count=%ld\n", me, kinds[k], kcount[k]);
  printf("N rank=%d topos=%ld shifts=%ld shift_edge=%ld ranks=%ld wraps=%ld subs=%ld subshifts=%ld dims=%ld dims_err=%ld "
         "dims_ok=%ld dims_unbalanced=%ld dims_unsorted=%ld extra_null=%ld\n",
         me, n_topos, n_shift, n_shift_edge, n_rank, n_wrap, n_sub, n_subshift, n_dims, n_dims_err, n_dims_ok,
         n_dims_unbalanced, n_dims_unsorted, n_extra_null);
  fflush(stdout);
  MPI_Finalize();
  return 0;
}
