/* C32 — groups and communicators. World size W = number of ranks of this run (1..5).
 *
 * Oracle = the definitions of MPI-3.1 chapter 6 on plain rank lists (a group is the ordered list of world ranks):
 *   incl(G,L)      = [G[i] for i in L]                 excl(G,L) = [G[i] for i not in L]  (order of G)
 *   range (f,l,s)  = f, f+s, ..., f+floor((l-f)/s)*s
 *   union(A,B)     = A ++ [b in B, b not in A]         intersection(A,B) = [a in A, a in B]   (order of A)
 *   difference(A,B)= [a in A, a not in B]              compare: IDENT same list, SIMILAR same set, else UNEQUAL
 *   translate(A,i,B) = position of A[i] in B or MPI_UNDEFINED; MPI_PROC_NULL -> MPI_PROC_NULL
 *   split(P,colour,key) = members of equal colour ordered by (key, rank in P); UNDEFINED -> MPI_COMM_NULL
 *   create(P,G) = communicator whose group is G for the members, MPI_COMM_NULL for the others; dup = same group, new context
 *   a message sent on one communicator is never received on another one.
 * A group built by the implementation is observed as size + MPI_Group_translate_ranks(g -> world group), cross-checked by
 * MPI_Group_rank of every rank and, for communicators, by a ring exchange of world ranks inside the new communicator.
 *
 * usage: grp <section> <shard> <nshards> <only>      section in incl|ranges|setops|split|create|dup|cross
 *        a case is run iff only<0 ? ord%nshards==shard : ord==only
 * records: V violation (first few per kind and rank), S kind totals, N counters, P progress (rank 0). */
#include <mpi.h>
#include <stdio.h>
#include <stdlib.h>
#include <string.h>

#define MAXW 5
#define KEEP 2
#define NKIND 64

typedef struct {
  int n;
  int r[MAXW];
} list_t;

static int me, W;
static long shard, nshards, only, ord = 0;
static const char* section;
static MPI_Group gworld;
static char* kinds[NKIND];
static long kcount[NKIND];
static int nkinds = 0;
static long n_cases = 0, n_checks = 0, n_order_sensitive = 0, n_split_ties = 0, n_cross = 0, n_ring = 0, n_nonident = 0;

static list_t* LS[MAXW + 1]; /* LS[m] = all ordered lists of distinct elements of [0,m), by (length, lexicographic) */
static int NLS[MAXW + 1];

static void gen_lists_rec(int m, int len, list_t* cur, list_t* out, int* n)
{
  if (cur->n == len) {
    out[(*n)++] = *cur;
    return;
  }
  for (int v = 0; v < m; v++) {
    int used = 0;
    for (int i = 0; i < cur->n; i++)
      if (cur->r[i] == v)
        used = 1;
    if (used)
      continue;
    cur->r[cur->n++] = v;
    gen_lists_rec(m, len, cur, out, n);
    cur->n--;
  }
}
static void gen_lists(void)
{
  for (int m = 0; m <= MAXW; m++) {
    LS[m]  = malloc(sizeof(list_t) * 400);
    NLS[m] = 0;
    for (int len = 0; len <= m; len++) {
      list_t cur;
      memset(&cur, 0, sizeof cur);
      gen_lists_rec(m, len, &cur, LS[m], &NLS[m]);
    }
  }
}

static const char* fl(const list_t* l, char* b)
{
  b[0] = 0;
  if (l->n == 0)
    strcpy(b, "-");
  for (int i = 0; i < l->n; i++)
    sprintf(b + strlen(b), "%s%d", i ? "," : "", l->r[i]);
  return b;
}
static int pos(const list_t* l, int v)
{
  for (int i = 0; i < l->n; i++)
    if (l->r[i] == v)
      return i;
  return -1;
}
static int leq(const list_t* a, const list_t* b)
{
  return a->n == b->n && !memcmp(a->r, b->r, sizeof(int) * a->n);
}
static int same_set(const list_t* a, const list_t* b)
{
  if (a->n != b->n)
    return 0;
  for (int i = 0; i < a->n; i++)
    if (pos(b, a->r[i]) < 0)
      return 0;
  return 1;
}

static char casectx[300];
static void viol(const char* kind, const char* detail)
{
  int k;
  for (k = 0; k < nkinds; k++)
    if (!strcmp(kinds[k], kind))
      break;
  if (k == nkinds)
    kinds[nkinds++] = strdup(kind);
  if (kcount[k]++ < KEEP) {
    printf("V kind=%s W=%d sec=%s ord=%ld %s rank=%d %s\n", kind, W, section, ord - 1, casectx, me, detail);
    fflush(stdout);
  }
}

static int begin_case(void)
{
  long cur   = ord++;
  int active = only >= 0 ? cur == only : cur % nshards == shard;
  if (active)
    n_cases++;
  return active;
}

/* observe a group as a list of world ranks; returns 0 if it cannot be observed */
static int observe(MPI_Group g, list_t* out)
{
  int sz = -1;
  if (g == MPI_GROUP_NULL || MPI_Group_size(g, &sz) != MPI_SUCCESS || sz < 0 || sz > MAXW) {
    out->n = -1;
    return 0;
  }
  int in[MAXW], o[MAXW];
  for (int i = 0; i < sz; i++)
    in[i] = i;
  out->n = sz;
  if (sz > 0 && MPI_Group_translate_ranks(g, sz, in, gworld, o) != MPI_SUCCESS) {
    out->n = -1;
    return 0;
  }
  memcpy(out->r, o, sizeof(int) * sz);
  return 1;
}

/* check that group g is exactly the list exp; kinds <op>-members / <op>-order / <op>-grouprank */
static void expect_group(const char* op, MPI_Group g, int rc, const list_t* exp)
{
  char k[64], det[200], b1[40], b2[40];
  list_t got;
  n_checks++;
  if (rc != MPI_SUCCESS || !observe(g, &got)) {
    snprintf(k, sizeof k, "%s-error", op);
    snprintf(det, sizeof det, "rc=%d exp=%s", rc, fl(exp, b2));
    viol(k, det);
    return;
  }
  if (!leq(&got, exp)) {
    snprintf(k, sizeof k, same_set(&got, exp) ? "%s-order" : "%s-members", op);
    snprintf(det, sizeof det, "got=%s exp=%s", fl(&got, b1), fl(exp, b2));
    viol(k, det);
    return;
  }
  int gr = -7;
  MPI_Group_rank(g, &gr);
  int er = pos(exp, me);
  if (er < 0)
    er = MPI_UNDEFINED;
  if (gr != er) {
    snprintf(k, sizeof k, "%s-grouprank", op);
    snprintf(det, sizeof det, "got=%d exp=%d", gr, er);
    viol(k, det);
  }
  /* inverse translation world -> g */
  int in[MAXW], o[MAXW];
  for (int i = 0; i < W; i++)
    in[i] = i;
  MPI_Group_translate_ranks(gworld, W, in, g, o);
  for (int i = 0; i < W; i++) {
    int e = pos(exp, i);
    if (e < 0)
      e = MPI_UNDEFINED;
    if (o[i] != e) {
      snprintf(k, sizeof k, "%s-translate-inverse", op);
      snprintf(det, sizeof det, "world=%d got=%d exp=%d", i, o[i], e);
      viol(k, det);
    }
  }
}

static MPI_Group mkgroup(const list_t* l)
{
  MPI_Group g = MPI_GROUP_NULL;
  MPI_Group_incl(gworld, l->n, (int*)l->r, &g);
  return g;
}
static void freeg(MPI_Group* g)
{
  if (*g != MPI_GROUP_NULL && *g != MPI_GROUP_EMPTY)
    MPI_Group_free(g);
}

/* ---------------------------------------------------------------- incl / excl over every base group */
static void sec_incl(void)
{
  char b1[40], b2[40];
  for (int bi = 0; bi < NLS[W]; bi++) {
    const list_t* base = &LS[W][bi];
    MPI_Group gb       = mkgroup(base);
    if (begin_case()) {
      snprintf(casectx, sizeof casectx, "op=incl base=world l=%s", fl(base, b1));
      expect_group("incl", gb, MPI_SUCCESS, base);
      int res = -7, eres = base->n == W ? MPI_SIMILAR : MPI_UNEQUAL;
      if (base->n == W) {
        eres = MPI_IDENT;
        for (int i = 0; i < W; i++)
          if (base->r[i] != i)
            eres = MPI_SIMILAR;
      }
      MPI_Group_compare(gb, gworld, &res);
      if (res != eres) {
        char det[64];
        snprintf(det, sizeof det, "got=%d exp=%d", res, eres);
        viol("compare-world", det);
      }
    }
    int m = base->n;
    for (int li = 0; li < NLS[m]; li++) {
      const list_t* L = &LS[m][li];
      if (!begin_case())
        continue;
      list_t ei, ee;
      ei.n = ee.n = 0;
      for (int i = 0; i < L->n; i++)
        ei.r[ei.n++] = base->r[L->r[i]];
      for (int i = 0; i < m; i++)
        if (pos(L, i) < 0)
          ee.r[ee.n++] = base->r[i];
      MPI_Group g = MPI_GROUP_NULL;
      snprintf(casectx, sizeof casectx, "op=incl base=%s l=%s", fl(base, b1), fl(L, b2));
      int rc = MPI_Group_incl(gb, L->n, (int*)L->r, &g);
      expect_group("incl", g, rc, &ei);
      freeg(&g);
      g = MPI_GROUP_NULL;
      snprintf(casectx, sizeof casectx, "op=excl base=%s l=%s", fl(base, b1), fl(L, b2));
      rc = MPI_Group_excl(gb, L->n, (int*)L->r, &g);
      expect_group("excl", g, rc, &ee);
      if (g != gb) /* excl of nothing returns the same object in SMPI: leave it alone (group lifetime is not C32) */
        freeg(&g);
    }
    freeg(&gb);
  }
}

/* ---------------------------------------------------------------- ranges */
static int range_list(int f, int l, int s, int* out)
{
  int n = 0;
  for (int k = 0; k <= (l - f) / s; k++)
    out[n++] = f + k * s;
  return n;
}
static int range_valid(int f, int l, int s)
{
  return s != 0 && ((f < l && s > 0) || (f > l && s < 0) || f == l);
}
static void do_ranges(const list_t* base, MPI_Group gb, int nr, int rg[][3])
{
  char b1[40], rb[80];
  list_t sel, ei, ee;
  sel.n = 0;
  rb[0] = 0;
  for (int i = 0; i < nr; i++) {
    int tmp[MAXW * 2];
    int n = range_list(rg[i][0], rg[i][1], rg[i][2], tmp);
    for (int j = 0; j < n; j++) {
      if (pos(&sel, tmp[j]) >= 0)
        return; /* overlapping ranges are erroneous: not a case */
      sel.r[sel.n++] = tmp[j];
    }
    sprintf(rb + strlen(rb), "%s%d:%d:%d", i ? "+" : "", rg[i][0], rg[i][1], rg[i][2]);
  }
  if (!begin_case())
    return;
  ei.n = ee.n = 0;
  for (int i = 0; i < sel.n; i++)
    ei.r[ei.n++] = base->r[sel.r[i]];
  for (int i = 0; i < base->n; i++)
    if (pos(&sel, i) < 0)
      ee.r[ee.n++] = base->r[i];
  MPI_Group g = MPI_GROUP_NULL;
  snprintf(casectx, sizeof casectx, "op=range_incl base=%s ranges=%s", fl(base, b1), rb);
  int rc = MPI_Group_range_incl(gb, nr, rg, &g);
  expect_group("range_incl", g, rc, &ei);
  freeg(&g);
  g = MPI_GROUP_NULL;
  snprintf(casectx, sizeof casectx, "op=range_excl base=%s ranges=%s", fl(base, b1), rb);
  rc = MPI_Group_range_excl(gb, nr, rg, &g);
  expect_group("range_excl", g, rc, &ee);
  freeg(&g);
}
static void sec_ranges(void)
{
  for (int bi = 0; bi < NLS[W]; bi++) {
    const list_t* base = &LS[W][bi];
    int m              = base->n;
    if (m == 0)
      continue;
    MPI_Group gb = mkgroup(base);
    int rg[2][3];
    for (int f = 0; f < m; f++)
      for (int l = 0; l < m; l++)
        for (int s = -m; s <= m; s++) {
          if (!range_valid(f, l, s))
            continue;
          rg[0][0] = f, rg[0][1] = l, rg[0][2] = s;
          do_ranges(base, gb, 1, rg);
          /* pairs of ranges only over the full-size bases (identity and every permutation of the world) */
          if (m != W || m < 2)
            continue;
          for (int f2 = 0; f2 < m; f2++)
            for (int l2 = 0; l2 < m; l2++)
              for (int s2 = -m; s2 <= m; s2++) {
                if (!range_valid(f2, l2, s2))
                  continue;
                rg[1][0] = f2, rg[1][1] = l2, rg[1][2] = s2;
                do_ranges(base, gb, 2, rg);
              }
        }
    freeg(&gb);
  }
}

/* ---------------------------------------------------------------- union / intersection / difference / compare / translate */
static void sec_setops(void)
{
  char b1[40], b2[40], det[200];
  for (int ai = 0; ai < NLS[W]; ai++) {
    const list_t* A = &LS[W][ai];
    MPI_Group ga    = mkgroup(A);
    for (int bi = 0; bi < NLS[W]; bi++) {
      const list_t* B = &LS[W][bi];
      if (!begin_case())
        continue;
      MPI_Group gb = mkgroup(B);
      list_t eu, ei, ed;
      eu = *A;
      ei.n = ed.n = 0;
      for (int i = 0; i < B->n; i++)
        if (pos(A, B->r[i]) < 0)
          eu.r[eu.n++] = B->r[i];
      for (int i = 0; i < A->n; i++)
        if (pos(B, A->r[i]) >= 0)
          ei.r[ei.n++] = A->r[i];
        else
          ed.r[ed.n++] = A->r[i];
      /* order-sensitive: the common elements appear in a different relative order in A and B */
      {
        list_t inb;
        inb.n = 0;
        for (int i = 0; i < B->n; i++)
          if (pos(A, B->r[i]) >= 0)
            inb.r[inb.n++] = B->r[i];
        if (!leq(&inb, &ei))
          n_order_sensitive++;
      }
      MPI_Group g = MPI_GROUP_NULL;
      snprintf(casectx, sizeof casectx, "op=union a=%s b=%s", fl(A, b1), fl(B, b2));
      int rc = MPI_Group_union(ga, gb, &g);
      expect_group("union", g, rc, &eu);
      freeg(&g);
      g = MPI_GROUP_NULL;
      snprintf(casectx, sizeof casectx, "op=intersection a=%s b=%s", fl(A, b1), fl(B, b2));
      rc = MPI_Group_intersection(ga, gb, &g);
      expect_group("intersection", g, rc, &ei);
      freeg(&g);
      g = MPI_GROUP_NULL;
      snprintf(casectx, sizeof casectx, "op=difference a=%s b=%s", fl(A, b1), fl(B, b2));
      rc = MPI_Group_difference(ga, gb, &g);
      expect_group("difference", g, rc, &ed);
      freeg(&g);
      snprintf(casectx, sizeof casectx, "op=compare a=%s b=%s", fl(A, b1), fl(B, b2));
      int res = -7, eres = leq(A, B) ? MPI_IDENT : same_set(A, B) ? MPI_SIMILAR : MPI_UNEQUAL;
      rc = MPI_Group_compare(ga, gb, &res);
      n_checks++;
      if (eres != MPI_IDENT)
        n_nonident++;
      if (rc != MPI_SUCCESS || res != eres) {
        snprintf(det, sizeof det, "got=%d exp=%d rc=%d", res, eres, rc);
        viol("compare", det);
      }
      snprintf(casectx, sizeof casectx, "op=translate a=%s b=%s", fl(A, b1), fl(B, b2));
      int in[MAXW + 1], o[MAXW + 1];
      for (int i = 0; i < A->n; i++)
        in[i] = i;
      in[A->n] = MPI_PROC_NULL;
      for (int i = 0; i <= A->n; i++)
        o[i] = -7;
      rc = MPI_Group_translate_ranks(ga, A->n + 1, in, gb, o);
      n_checks++;
      for (int i = 0; i <= A->n; i++) {
        int e = i == A->n ? MPI_PROC_NULL : pos(B, A->r[i]);
        if (e == -1)
          e = MPI_UNDEFINED;
        if (rc != MPI_SUCCESS || o[i] != e) {
          snprintf(det, sizeof det, "i=%d got=%d exp=%d rc=%d", i, o[i], e, rc);
          viol("translate", det);
        }
      }
      freeg(&gb);
    }
    freeg(&ga);
  }
}

/* ---------------------------------------------------------------- communicators */
/* check a communicator against the expected ordered member list (world ranks); ring exchange inside it */
static void expect_comm(const char* op, MPI_Comm c, int rc, const list_t* exp)
{
  char k[64], det[200], b1[40], b2[40];
  int member = pos(exp, me) >= 0;
  n_checks++;
  if (rc != MPI_SUCCESS) {
    snprintf(k, sizeof k, "%s-error", op);
    snprintf(det, sizeof det, "rc=%d", rc);
    viol(k, det);
    return;
  }
  if (!member) {
    if (c != MPI_COMM_NULL) {
      snprintf(k, sizeof k, "%s-nonmember-not-null", op);
      viol(k, "got=comm exp=MPI_COMM_NULL");
    }
    return;
  }
  if (c == MPI_COMM_NULL) {
    snprintf(k, sizeof k, "%s-member-null", op);
    snprintf(det, sizeof det, "exp=%s", fl(exp, b2));
    viol(k, det);
    return;
  }
  int sz = -1, rk = -1;
  MPI_Comm_size(c, &sz);
  MPI_Comm_rank(c, &rk);
  MPI_Group g;
  list_t got;
  MPI_Comm_group(c, &g);
  int okobs = observe(g, &got);
  MPI_Group_free(&g);
  if (!okobs || !leq(&got, exp)) {
    snprintf(k, sizeof k, okobs && same_set(&got, exp) ? "%s-order" : "%s-members", op);
    snprintf(det, sizeof det, "got=%s exp=%s", okobs ? fl(&got, b1) : "?", fl(exp, b2));
    viol(k, det);
    return; /* a ring on a wrong group could deadlock */
  }
  if (sz != exp->n || rk != pos(exp, me)) {
    snprintf(k, sizeof k, "%s-rank-size", op);
    snprintf(det, sizeof det, "size=%d rank=%d exp=%d/%d", sz, rk, exp->n, pos(exp, me));
    viol(k, det);
    return;
  }
  /* ring: the communicator's ranks really address the processes of the list */
  int out = me, in = -7, right = (rk + 1) % sz, left = (rk + sz - 1) % sz;
  MPI_Status st;
  MPI_Request rq;
  MPI_Isend(&out, 1, MPI_INT, right, 42, c, &rq); /* (not Sendrecv: its self-exchange shortcut is a p2p matter, not C32) */
  MPI_Recv(&in, 1, MPI_INT, left, 42, c, &st);
  MPI_Wait(&rq, MPI_STATUS_IGNORE);
  n_ring++;
  if (in != exp->r[left] || st.MPI_SOURCE != left) {
    snprintf(k, sizeof k, "%s-ring", op);
    snprintf(det, sizeof det, "from=%d got=%d exp=%d source=%d", left, in, exp->r[left], st.MPI_SOURCE);
    viol(k, det);
  }
}

/* parents: 0 = world, 1 = reversed world (built with split key = -rank), so that "old rank" differs from world rank */
static MPI_Comm parent_comm(int which, list_t* plist)
{
  MPI_Comm p = MPI_COMM_WORLD;
  plist->n   = W;
  for (int i = 0; i < W; i++)
    plist->r[i] = which ? W - 1 - i : i;
  if (which)
    MPI_Comm_split(MPI_COMM_WORLD, 0, -me, &p);
  return p;
}

static void sec_split(void)
{
  static const int colours[3] = {0, 1, MPI_UNDEFINED};
  char b1[64], b2[64];
  static const int keyvals[3] = {0, 1, -1};
  long nvec = 1;
  for (int i = 0; i < W; i++)
    nvec *= 9;
  for (int which = 0; which < 2; which++) {
    list_t pl;
    MPI_Comm parent = parent_comm(which, &pl);
    snprintf(casectx, sizeof casectx, "op=split parent=%s setup", which ? "reversed" : "world");
    {
      long keep = ord;
      ord++; /* so that a violation in the set-up has a well-defined ord */
      expect_comm("split-parent", parent, MPI_SUCCESS, &pl);
      ord = keep;
    }
    for (long v = 0; v < nvec; v++) {
      if (!begin_case())
        continue;
      int col[MAXW], key[MAXW];
      long x = v;
      b1[0] = b2[0] = 0;
      for (int i = 0; i < W; i++) { /* indexed by world rank */
        col[i] = colours[(x % 9) / 3];
        key[i] = keyvals[(x % 9) % 3];
        x /= 9;
        sprintf(b1 + strlen(b1), "%s%c", i ? "," : "", col[i] == MPI_UNDEFINED ? 'U' : '0' + col[i]);
        sprintf(b2 + strlen(b2), "%s%d", i ? "," : "", key[i]);
      }
      if (me == 0 && (ord & 4095) == 1) {
        printf("P sec=split ord=%ld parent=%d colours=%s keys=%s\n", ord - 1, which, b1, b2);
        fflush(stdout);
      }
      list_t exp;
      exp.n = 0;
      if (col[me] != MPI_UNDEFINED) {
        /* members of my colour ordered by (key, rank in parent): walk the keys in ascending order, then parent order */
        int tie = 0;
        for (int k = -1; k <= 1; k++) {
          int cnt = 0;
          for (int pr = 0; pr < W; pr++) {
            int w = pl.r[pr];
            if (col[w] == col[me] && key[w] == k) {
              exp.r[exp.n++] = w;
              cnt++;
            }
          }
          if (cnt > 1)
            tie = 1;
        }
        if (tie)
          n_split_ties++;
      }
      MPI_Comm c = MPI_COMM_NULL;
      snprintf(casectx, sizeof casectx, "op=split parent=%s colours=%s keys=%s", which ? "reversed" : "world", b1, b2);
      int rc = MPI_Comm_split(parent, col[me], key[me], &c);
      expect_comm("split", c, rc, &exp);
      if (c != MPI_COMM_NULL)
        MPI_Comm_free(&c);
    }
    if (which)
      MPI_Comm_free(&parent);
  }
}

static void sec_create(void)
{
  char b1[40];
  for (int which = 0; which < 2; which++) {
    list_t pl;
    MPI_Comm parent = parent_comm(which, &pl);
    for (int li = 0; li < NLS[W]; li++) {
      const list_t* L = &LS[W][li];
      if (!begin_case())
        continue;
      MPI_Group g = mkgroup(L);
      MPI_Comm c  = MPI_COMM_NULL;
      snprintf(casectx, sizeof casectx, "op=create parent=%s group=%s", which ? "reversed" : "world", fl(L, b1));
      int rc = MPI_Comm_create(parent, g, &c);
      expect_comm("create", c, rc, L);
      if (c != MPI_COMM_NULL) {
        /* dup of the created communicator: same group, congruent, usable */
        MPI_Comm d = MPI_COMM_NULL;
        int res    = -7;
        snprintf(casectx, sizeof casectx, "op=dup of=create parent=%s group=%s", which ? "reversed" : "world", fl(L, b1));
        rc = MPI_Comm_dup(c, &d);
        expect_comm("dup", d, rc, L);
        if (d != MPI_COMM_NULL) {
          MPI_Comm_compare(c, d, &res);
          if (res != MPI_CONGRUENT) {
            char det[64];
            snprintf(det, sizeof det, "got=%d exp=%d", res, MPI_CONGRUENT);
            viol("dup-compare", det);
          }
          MPI_Comm_free(&d);
        }
        MPI_Comm_free(&c);
      }
      freeg(&g);
    }
    if (which)
      MPI_Comm_free(&parent);
  }
}

/* messages never cross communicators: NC communicators over the same processes, every ordered pair (i,j), every ordered
 * pair of processes (s,d), receive selectors {exact, ANY_SOURCE, ANY_TAG, both}, sizes {1, BIG} ints.
 * s posts a message on ci then on cj (same tag, same destination); d receives on cj FIRST, then on ci. */
#define NC 6
#define BIG 20000
static void sec_cross(void)
{
  MPI_Comm cs[NC];
  int rev[NC] = {0, 0, 0, 0, 0, 1}; /* cs[5] has reversed ranks */
  static const char* names[NC] = {"world", "dup", "dupdup", "split", "create", "reversed"};
  cs[0] = MPI_COMM_WORLD;
  MPI_Comm_dup(MPI_COMM_WORLD, &cs[1]);
  MPI_Comm_dup(cs[1], &cs[2]);
  MPI_Comm_split(MPI_COMM_WORLD, 0, me, &cs[3]);
  MPI_Comm_create(MPI_COMM_WORLD, gworld, &cs[4]);
  MPI_Comm_split(MPI_COMM_WORLD, 0, -me, &cs[5]);
  int* sb1 = malloc(sizeof(int) * BIG);
  int* sb2 = malloc(sizeof(int) * BIG);
  int* rb  = malloc(sizeof(int) * BIG);
  for (int i = 0; i < NC; i++)
    for (int j = 0; j < NC; j++) {
      if (i == j)
        continue;
      for (int s = 0; s < W; s++)
        for (int d = 0; d < W; d++) {
          if (s == d)
            continue;
          for (int sel = 0; sel < 4; sel++)
            for (int big = 0; big < 2; big++) {
              if (!begin_case())
                continue;
              int cnt = big ? BIG : 1, tag = 5;
              snprintf(casectx, sizeof casectx, "op=cross first=%s second=%s src=%d dst=%d sel=%d count=%d", names[i],
                       names[j], s, d, sel, cnt);
              n_cross++;
#define RK(c, w) (rev[c] ? W - 1 - (w) : (w))
              if (me == s) {
                MPI_Request rq[2];
                for (int x = 0; x < cnt; x++) {
                  sb1[x] = 1000 + i;
                  sb2[x] = 1000 + j;
                }
                MPI_Isend(sb1, cnt, MPI_INT, RK(i, d), tag, cs[i], &rq[0]);
                MPI_Isend(sb2, cnt, MPI_INT, RK(j, d), tag, cs[j], &rq[1]);
                MPI_Waitall(2, rq, MPI_STATUSES_IGNORE);
              } else if (me == d) {
                int order[2] = {j, i};
                for (int q = 0; q < 2; q++) {
                  int c = order[q];
                  MPI_Status st;
                  rb[0] = rb[cnt - 1] = -7;
                  MPI_Recv(rb, cnt, MPI_INT, (sel & 1) ? MPI_ANY_SOURCE : RK(c, s), (sel & 2) ? MPI_ANY_TAG : tag, cs[c], &st);
                  if (rb[0] != 1000 + c || rb[cnt - 1] != 1000 + c || st.MPI_SOURCE != RK(c, s) || st.MPI_TAG != tag) {
                    char det[160];
                    snprintf(det, sizeof det, "recv_on=%s got=%d exp=%d source=%d expsource=%d tag=%d", names[c], rb[0],
                             1000 + c, st.MPI_SOURCE, RK(c, s), st.MPI_TAG);
                    viol("cross-comm", det);
                  }
                }
              }
              MPI_Barrier(MPI_COMM_WORLD);
            }
        }
    }
  for (int i = 1; i < NC; i++)
    MPI_Comm_free(&cs[i]);
  free(sb1);
  free(sb2);
  free(rb);
}

int main(int argc, char** argv)
{
  MPI_Init(&argc, &argv);
  MPI_Comm_rank(MPI_COMM_WORLD, &me);
  MPI_Comm_size(MPI_COMM_WORLD, &W);
  MPI_Comm_set_errhandler(MPI_COMM_WORLD, MPI_ERRORS_RETURN);
  if (argc < 5 || W > MAXW) {
    fprintf(stderr, "usage: grp section shard nshards only (np<=%d)\n", MAXW);
    MPI_Finalize();
    return 2;
  }
  section = argv[1];
  shard   = atol(argv[2]);
  nshards = atol(argv[3]);
  only    = atol(argv[4]);
  MPI_Comm_group(MPI_COMM_WORLD, &gworld);
  gen_lists();
  casectx[0] = 0;
  if (!strcmp(section, "incl"))
    sec_incl();
  else if (!strcmp(section, "ranges"))
    sec_ranges();
  else if (!strcmp(section, "setops"))
    sec_setops();
  else if (!strcmp(section, "split"))
    sec_split();
  else if (!strcmp(section, "create"))
    sec_create();
  else if (!strcmp(section, "cross"))
    sec_cross();
  else {
    fprintf(stderr, "bad section\n");
    MPI_Finalize();
    return 2;
  }
  for (int k = 0; k < nkinds; k++)
    printf("S rank=%d kind=%s count=%ld\n", me, kinds[k], kcount[k]);
  printf("N rank=%d W=%d sec=%s cases=%ld checks=%ld order_sensitive=%ld nonident=%ld split_ties=%ld cross=%ld ring=%ld total_ord=%ld\n",
         me, W, section, n_cases, n_checks, n_order_sensitive, n_nonident, n_split_ties, n_cross, n_ring, ord);
  fflush(stdout);
  MPI_Finalize();
  return 0;
}
