// C28 interpreter: enumerates point-to-point programs, decides with a reference matching model (below, independent of
// SimGrid) which ones can never deadlock and which joint matchings MPI allows, runs each kept program on SMPI and
// checks that what the ranks observed is one of the allowed matchings, with exact bytes / status / count / truncation.
//
//   p2p <R> <bound> <shard> <nshards> [score=<file>] [after=<index>:<variant>] [skipclass=<mask>] [only=<index>] [onlyvar=<v>] [verbose]
//     score: mmap'ed file of longs {index, variant in progress, counters...}: survives the death of the simulation;
//     after: resume after that run; skipclass bit 0: skip programs in which a small-capacity receive may get a longer message
//     R ranks (= world size), programs with <bound> operations in total (<= 3 per rank), this simulation takes the
//     programs whose index in the enumeration is = shard modulo nshards.
//
// Program: per rank a list of operations
//   S/I/Y/B  dest tag size-class      Send / Isend (waited at the end of the rank's program) / Ssend / Bsend
//   R/J      src|* tag|* cap          Recv / Irecv (waited at the end); cap = b(ig) or s(mall: truncates classes M and L)
//   X        dest tag size  src|* tag|*   Sendrecv
//   P/Q      src|* tag|*              Probe / Iprobe
// Size classes S < async-small-thresh <= M < send-is-detached-thresh <= L; their byte values come from the variant
// (argv of the simulation fixes the thresholds; the variants walk the boundaries).
//
// Reference model (MPI-3.1 3.5): a FIFO channel per ordered pair of ranks, per receiver a queue of posted receives (post
// order) and a queue of unexpected messages (arrival order); an arriving message takes the first posted receive that
// accepts it, a posted receive takes the first unexpected message it accepts; arrival order between different senders is
// free; a standard-mode send may complete at once (buffered) or only when matched (both explored); Ssend completes when
// matched, Bsend at once; Probe returns the first unexpected message it accepts, Iprobe that one or nothing.
// A program is run only if no execution of the model deadlocks and every message is received.
#include <mpi.h>
#include <cstdio>
#include <cstdlib>
#include <cstring>
#include <cstdint>
#include <vector>
#include <set>
#include <map>
#include <string>
#include <algorithm>
#include <unordered_set>
#include <sys/mman.h>
#include <fcntl.h>
#include <unistd.h>

enum { SEND, ISEND, SSEND, BSEND, RECV, IRECV, SENDRECV, PROBE, IPROBE };
static const int ANY = -1;
struct Op { int type, peer, tag, sz, rpeer, rtag, cap; };   // peer/tag/sz: send part; rpeer/rtag/cap: receive/probe part
static bool has_send(const Op& o) { return o.type <= BSEND || o.type == SENDRECV; }
static bool has_recv(const Op& o) { return o.type == RECV || o.type == IRECV || o.type == SENDRECV; }
static bool is_probe(const Op& o) { return o.type == PROBE || o.type == IPROBE; }

static std::string op_str(const Op& o)
{
  char b[96];
  auto pt = [](int v, char* s) { if (v == ANY) strcpy(s, "*"); else sprintf(s, "%d", v); };
  char rp[8], rt[8]; pt(o.rpeer, rp); pt(o.rtag, rt);
  const char* szn = "SML";
  switch (o.type) {
    case SEND: case ISEND: case SSEND: case BSEND: sprintf(b, "%c(%d,%d,%c)", "SIYB"[o.type], o.peer, o.tag, szn[o.sz]); break;
    case RECV: case IRECV: sprintf(b, "%c(%s,%s,%c)", o.type == RECV ? 'R' : 'J', rp, rt, o.cap ? 's' : 'b'); break;
    case SENDRECV: sprintf(b, "X(%d,%d,%c;%s,%s)", o.peer, o.tag, szn[o.sz], rp, rt); break;
    default: sprintf(b, "%c(%s,%s)", o.type == PROBE ? 'P' : 'Q', rp, rt);
  }
  return b;
}

typedef std::vector<std::vector<Op>> Program;
static std::string prog_str(const Program& p)
{
  std::string s;
  for (size_t r = 0; r < p.size(); r++) { s += r ? "|" : ""; for (size_t i = 0; i < p[r].size(); i++) s += (i ? "," : "") + op_str(p[r][i]); }
  return s;
}

static std::vector<Op> alphabet(int rank, int R);
static int parse_any(const char*& c) { if (*c == '*') { c++; return ANY; } int v = 0; while (*c >= '0' && *c <= '9') v = v * 10 + (*c++ - '0'); return v; }
static Program parse_prog(const char* c, int R)
{
  Program p(R);
  int r = 0;
  while (*c) {
    if (*c == '|') { r++; c++; continue; }
    if (*c == ',') { c++; continue; }
    Op o{0, 0, 0, 0, 0, 0, 0};
    char t = *c++; c++;            // type letter and '('
    auto szc = [](char x) { return x == 'S' ? 0 : x == 'M' ? 1 : 2; };
    if (t == 'S' || t == 'I' || t == 'Y' || t == 'B') { o.type = t == 'S' ? SEND : t == 'I' ? ISEND : t == 'Y' ? SSEND : BSEND; o.peer = parse_any(c); c++; o.tag = parse_any(c); c++; o.sz = szc(*c++); }
    else if (t == 'R' || t == 'J') { o.type = t == 'R' ? RECV : IRECV; o.rpeer = parse_any(c); c++; o.rtag = parse_any(c); c++; o.cap = *c++ == 's'; }
    else if (t == 'X') { o.type = SENDRECV; o.peer = parse_any(c); c++; o.tag = parse_any(c); c++; o.sz = szc(*c++); c++; o.rpeer = parse_any(c); c++; o.rtag = parse_any(c); }
    else { o.type = t == 'P' ? PROBE : IPROBE; o.rpeer = parse_any(c); c++; o.rtag = parse_any(c); }
    c++;                           // ')'
    if (r < R) p[r].push_back(o);
  }
  return p;
}

static std::vector<Op> alphabet(int rank, int R, int mask)
{
  std::vector<Op> all = alphabet(rank, R), a;
  for (auto& o : all) if (mask & (1 << o.type)) a.push_back(o);
  return a;
}
static std::vector<Op> alphabet(int rank, int R)
{
  std::vector<Op> a;
  std::vector<int> peers, srcs;
  for (int p = 0; p < R; p++) if (p != rank) { peers.push_back(p); srcs.push_back(p); }
  srcs.push_back(ANY);
  for (int t = SEND; t <= BSEND; t++) for (int p : peers) for (int tag = 0; tag < 2; tag++) for (int sz = 0; sz < 3; sz++) a.push_back(Op{t, p, tag, sz, 0, 0, 0});
  for (int t = RECV; t <= IRECV; t++) for (int s : srcs) for (int tag = -1; tag < 2; tag++) for (int cap = 0; cap < 2; cap++) a.push_back(Op{t, 0, 0, 0, s, tag, cap});
  for (int p : peers) for (int tag = 0; tag < 2; tag++) for (int sz = 0; sz < 3; sz++) for (int s : srcs) for (int rt = -1; rt < 2; rt++) a.push_back(Op{SENDRECV, p, tag, sz, s, rt, 0});
  for (int t = PROBE; t <= IPROBE; t++) for (int s : srcs) for (int tag = -1; tag < 2; tag++) a.push_back(Op{t, 0, 0, 0, s, tag, 0});
  return a;
}

// ---------------------------------------------------------------------------------------------- reference model
struct Msg { int src, dst, tag, sz, id; };
struct Model {
  const Program& P; int R;
  std::vector<Msg> msgs;                      // one per send part, id = index
  std::vector<std::vector<int>> send_id, recv_id, probe_id;   // per rank per op: message id / receive slot / probe slot (-1)
  int nrecv = 0, nprobe = 0;
  std::vector<int> recv_rank, recv_src, recv_tag;
  // exploration
  struct State {
    std::vector<signed char> pc;              // next op of each rank; == size -> in the final Waitall; size+1 -> terminated
    std::vector<signed char> phase;           // 0: op not posted, 1: posted, waiting for its completion
    std::vector<signed char> sent;            // per message: 0 not posted, 1 in channel, 2 unexpected at receiver, 3 matched
    std::vector<signed char> sync;            // per message: 1 = its sender chose to wait for the match
    std::vector<signed char> rstate;          // per receive slot: 0 not posted, 1 posted, 2 matched
    std::vector<signed char> match;           // per receive slot: message id or -1
    std::vector<signed char> probe;           // per probe slot: -2 not done, -1 nothing, else message id
    std::vector<std::vector<signed char>> chan, unexp, posted;   // chan[s*R+d]: ids in flight (FIFO); per rank queues
    std::string key() const
    {
      std::string k;
      auto add = [&](const std::vector<signed char>& v) { k.append((const char*)v.data(), v.size()); k.push_back(127); };
      add(pc); add(phase); add(sent); add(sync); add(rstate); add(match); add(probe);
      for (auto& c : chan) add(c); for (auto& c : unexp) add(c); for (auto& c : posted) add(c);
      return k;
    }
  };
  std::unordered_set<std::string> seen;
  std::set<std::vector<signed char>> outcomes;   // match[] followed by probe[]
  long transitions = 0;
  bool deadlock = false, leftover = false, overflow = false;

  Model(const Program& p) : P(p), R((int)p.size())
  {
    send_id.resize(R); recv_id.resize(R); probe_id.resize(R);
    for (int r = 0; r < R; r++)
      for (auto& o : P[r]) {
        send_id[r].push_back(has_send(o) ? (int)msgs.size() : -1);
        if (has_send(o)) msgs.push_back(Msg{r, o.peer, o.tag, o.sz, (int)msgs.size()});
        recv_id[r].push_back(has_recv(o) ? nrecv : -1);
        if (has_recv(o)) { nrecv++; recv_rank.push_back(r); recv_src.push_back(o.rpeer); recv_tag.push_back(o.rtag); }
        probe_id[r].push_back(is_probe(o) ? nprobe++ : -1);
      }
  }
  bool accepts(int src, int tag, const Msg& m) const { return (src == ANY || src == m.src) && (tag == ANY || tag == m.tag); }
  void post_recv(State& s, int r, int slot) const
  {
    auto& u = s.unexp[r];
    for (size_t i = 0; i < u.size(); i++)
      if (accepts(recv_src[slot], recv_tag[slot], msgs[u[i]])) { s.match[slot] = u[i]; s.rstate[slot] = 2; s.sent[u[i]] = 3; u.erase(u.begin() + i); return; }
    s.rstate[slot] = 1; s.posted[r].push_back(slot);
  }
  bool send_done(const State& s, int m) const { return !s.sync[m] || s.sent[m] == 3; }
  bool rank_final_ok(const State& s, int r) const
  {
    for (size_t i = 0; i < P[r].size(); i++) {
      const Op& o = P[r][i];
      if (o.type == ISEND && !send_done(s, send_id[r][i])) return false;
      if (o.type == IRECV && s.rstate[recv_id[r][i]] != 2) return false;
    }
    return true;
  }
  void explore(const State& s0)
  {
    std::vector<State> stack{s0};
    seen.insert(s0.key());
    while (!stack.empty()) {
      if (seen.size() > 400000) { overflow = true; return; }
      State s = std::move(stack.back()); stack.pop_back();
      std::vector<State> next;
      bool all_done = true;
      for (int r = 0; r < R; r++) {
        int n = (int)P[r].size();
        if (s.pc[r] > n) continue;
        all_done = false;
        if (s.pc[r] == n) { if (rank_final_ok(s, r)) { State t = s; t.pc[r] = n + 1; next.push_back(std::move(t)); } continue; }
        const Op& o = P[r][s.pc[r]];
        int i = s.pc[r], m = send_id[r][i], slot = recv_id[r][i];
        if (s.phase[r] == 0) {
          if (is_probe(o)) {
            int found = -1;
            for (int id : s.unexp[r]) if (accepts(o.rpeer, o.rtag, msgs[id])) { found = id; break; }
            if (found >= 0) { State t = s; t.probe[probe_id[r][i]] = found; t.pc[r]++; next.push_back(std::move(t)); }
            if (o.type == IPROBE) { State t = s; t.probe[probe_id[r][i]] = -1; t.pc[r]++; next.push_back(std::move(t)); }
            continue;
          }
          // post: the send part may choose to be synchronous (standard mode and Isend), must be (Ssend), cannot be (Bsend)
          int choices = (o.type == SEND || o.type == ISEND || o.type == SENDRECV) ? 2 : 1;
          for (int c = 0; c < choices; c++) {
            State t = s;
            if (m >= 0) { t.sent[m] = 1; t.chan[r * R + o.peer].push_back(m); t.sync[m] = o.type == SSEND ? 1 : o.type == BSEND ? 0 : c; }
            if (slot >= 0) post_recv(t, r, slot);
            if (o.type == ISEND || o.type == IRECV) t.pc[r]++; else t.phase[r] = 1;
            next.push_back(std::move(t));
          }
        } else {
          bool done = (m < 0 || send_done(s, m)) && (slot < 0 || s.rstate[slot] == 2);
          if (done) { State t = s; t.phase[r] = 0; t.pc[r]++; next.push_back(std::move(t)); }
        }
      }
      for (int c = 0; c < R * R; c++)
        if (!s.chan[c].empty()) {                      // delivery of the head of a channel
          State t = s;
          int id = t.chan[c].front(); t.chan[c].erase(t.chan[c].begin());
          int d = msgs[id].dst;
          auto& pq = t.posted[d];
          bool matched = false;
          for (size_t k = 0; k < pq.size(); k++)
            if (accepts(recv_src[pq[k]], recv_tag[pq[k]], msgs[id])) { t.match[pq[k]] = id; t.rstate[pq[k]] = 2; t.sent[id] = 3; pq.erase(pq.begin() + k); matched = true; break; }
          if (!matched) { t.sent[id] = 2; t.unexp[d].push_back(id); }
          next.push_back(std::move(t));
        }
      if (all_done) {
        bool inflight = false;
        for (auto& c : s.chan) if (!c.empty()) inflight = true;
        if (inflight) { /* deliveries above continue */ }
        else {
          for (auto& u : s.unexp) if (!u.empty()) leftover = true;
          std::vector<signed char> o = s.match; o.insert(o.end(), s.probe.begin(), s.probe.end());
          outcomes.insert(o);
        }
      } else if (next.empty()) deadlock = true;
      transitions += (long)next.size();
      for (auto& t : next) { std::string k = t.key(); if (seen.insert(k).second) stack.push_back(std::move(t)); }
      if (deadlock) return;       // one deadlocking execution is enough to discard the program
    }
  }
  void run()
  {
    State s;
    s.pc.assign(R, 0); s.phase.assign(R, 0); s.sent.assign(msgs.size(), 0); s.sync.assign(msgs.size(), 0);
    s.rstate.assign(nrecv, 0); s.match.assign(nrecv, -1); s.probe.assign(nprobe, -2);
    s.chan.resize(R * R); s.unexp.resize(R); s.posted.resize(R);
    explore(s);
  }
};

// ---------------------------------------------------------------------------------------------- SMPI side
static const int MAXOBS = 16;
struct Obs { int msg, src, tag, count, err, flag; };      // msg: id decoded from the payload (-1 none / unreadable)
static Obs g_recv[MAXOBS], g_probe[MAXOBS];              // shared by all ranks (smpi/privatization:no): the joint observation
static int g_bad[8];

struct Sizes { int b[3]; int cap_small, cap_big; };

static void run_rank(const Program& P, const Model& M, int rank, MPI_Comm comm, const Sizes& z)
{
  const auto& ops = P[rank];
  std::vector<MPI_Request> reqs;
  std::vector<int> req_slot;                         // receive slot of an Irecv request, -1 for an Isend
  std::vector<std::vector<unsigned char>> sbufs(ops.size()), rbufs(ops.size());
  auto fill = [&](size_t i) { int id = M.send_id[rank][i]; sbufs[i].assign(z.b[ops[i].sz], (unsigned char)(id + 1)); };
  auto observe = [&](int slot, std::vector<unsigned char>& buf, int cap, MPI_Status& st, int rc) {
    Obs& o = g_recv[slot];
    o.src = st.MPI_SOURCE; o.tag = st.MPI_TAG; o.err = rc; o.flag = 1;
    MPI_Get_count(&st, MPI_BYTE, &o.count);
    o.msg = buf[0] == 0xEE ? -1 : buf[0] - 1;
    int n = std::min(o.count < 0 ? 0 : o.count, cap);
    for (int k = 0; k < n; k++) if (buf[k] != buf[0]) g_bad[rank] = 1;          // every byte of the message is its stamp
    for (size_t k = std::max(n, 0); k < buf.size(); k++) if (k >= (size_t)cap && buf[k] != 0xEE) g_bad[rank] = 2;   // nothing beyond the buffer
  };
  for (size_t i = 0; i < ops.size(); i++) {
    const Op& o = ops[i];
    int slot = M.recv_id[rank][i];
    int cap = o.cap ? z.cap_small : z.cap_big;
    int src = o.rpeer == ANY ? MPI_ANY_SOURCE : o.rpeer, rtag = o.rtag == ANY ? MPI_ANY_TAG : o.rtag;
    MPI_Status st; memset(&st, 0, sizeof st);
    int rc = MPI_SUCCESS;
    if (has_send(o)) fill(i);
    if (has_recv(o)) rbufs[i].assign(cap + 8, 0xEE);
    switch (o.type) {
      case SEND: MPI_Send(sbufs[i].data(), (int)sbufs[i].size(), MPI_BYTE, o.peer, o.tag, comm); break;
      case SSEND: MPI_Ssend(sbufs[i].data(), (int)sbufs[i].size(), MPI_BYTE, o.peer, o.tag, comm); break;
      case BSEND: MPI_Bsend(sbufs[i].data(), (int)sbufs[i].size(), MPI_BYTE, o.peer, o.tag, comm); break;
      case ISEND: { MPI_Request q; MPI_Isend(sbufs[i].data(), (int)sbufs[i].size(), MPI_BYTE, o.peer, o.tag, comm, &q); reqs.push_back(q); req_slot.push_back(-1 - (int)i); break; }
      case RECV: rc = MPI_Recv(rbufs[i].data(), cap, MPI_BYTE, src, rtag, comm, &st); observe(slot, rbufs[i], cap, st, rc); break;
      case IRECV: { MPI_Request q; MPI_Irecv(rbufs[i].data(), cap, MPI_BYTE, src, rtag, comm, &q); reqs.push_back(q); req_slot.push_back((int)i); break; }
      case SENDRECV:
        rc = MPI_Sendrecv(sbufs[i].data(), (int)sbufs[i].size(), MPI_BYTE, o.peer, o.tag, rbufs[i].data(), cap, MPI_BYTE, src, rtag, comm, &st);
        observe(slot, rbufs[i], cap, st, rc);
        break;
      case PROBE: case IPROBE: {
        int flag = 1;
        if (o.type == PROBE) rc = MPI_Probe(src, rtag, comm, &st); else rc = MPI_Iprobe(src, rtag, comm, &flag, &st);
        Obs& ob = g_probe[M.probe_id[rank][i]];
        ob.flag = flag; ob.err = rc; ob.msg = -1;
        if (flag) { ob.src = st.MPI_SOURCE; ob.tag = st.MPI_TAG; MPI_Get_count(&st, MPI_BYTE, &ob.count); }
        break;
      }
    }
  }
  for (size_t k = 0; k < reqs.size(); k++) {
    MPI_Status st; memset(&st, 0, sizeof st);
    int rc = MPI_Wait(&reqs[k], &st);
    if (req_slot[k] >= 0) { size_t i = req_slot[k]; observe(M.recv_id[rank][i], rbufs[i], ops[i].cap ? z.cap_small : z.cap_big, st, rc); }
  }
}

int main(int argc, char** argv)
{
  MPI_Init(&argc, &argv);
  setvbuf(stdout, nullptr, _IOLBF, 0);
  int rank, W;
  MPI_Comm_rank(MPI_COMM_WORLD, &rank);
  MPI_Comm_size(MPI_COMM_WORLD, &W);
  if (argc < 5) { MPI_Finalize(); return 2; }
  int R = atoi(argv[1]), bound = atoi(argv[2]), shard = atoi(argv[3]), nshards = atoi(argv[4]);
  long only = -1, after_i = -1; bool verbose = false;
  const char* single = nullptr; const char* odarg = nullptr;
  int A = 16, D = 64, after_v = -1, onlyvar = -1, skipclass = 0, opmask = 0x1ff;
  long dummy[32] = {0};
  long* score = dummy;
  for (int a = 5; a < argc; a++) {
    sscanf(argv[a], "only=%ld", &only); sscanf(argv[a], "A=%d", &A); sscanf(argv[a], "D=%d", &D); sscanf(argv[a], "onlyvar=%d", &onlyvar);
    sscanf(argv[a], "after=%ld:%d", &after_i, &after_v); sscanf(argv[a], "skipclass=%d", &skipclass); sscanf(argv[a], "ops=%d", &opmask);
    if (!strcmp(argv[a], "verbose")) verbose = true;
    if (!strncmp(argv[a], "prog=", 5)) single = argv[a] + 5;
    if (!strncmp(argv[a], "od=", 3)) odarg = argv[a] + 3;
    if (!strncmp(argv[a], "score=", 6) && rank == 0) {
      int fd = open(argv[a] + 6, O_RDWR);
      if (fd >= 0) { score = (long*)mmap(nullptr, 4096, PROT_READ | PROT_WRITE, MAP_SHARED, fd, 0); close(fd); }
    }
  }
  score[0] = -1; score[1] = -1;
  if (R != W) { if (!rank) printf("HARNESS-ERROR world size %d != R %d\n", W, R); MPI_Finalize(); return 2; }
  MPI_Comm comm, sync;
  MPI_Comm_dup(MPI_COMM_WORLD, &comm);
  MPI_Comm_dup(MPI_COMM_WORLD, &sync);
  MPI_Comm_set_errhandler(comm, MPI_ERRORS_RETURN);
  MPI_Comm_set_errhandler(MPI_COMM_WORLD, MPI_ERRORS_RETURN);   // MPI_Wait reports through the world's handler
  MPI_Comm_set_errhandler(MPI_COMM_SELF, MPI_ERRORS_RETURN);
  std::vector<unsigned char> bsendbuf(1 << 16);
  MPI_Buffer_attach(bsendbuf.data(), (int)bsendbuf.size());
  // byte sizes of the classes S < A <= M < D <= L for every variant: the boundaries of both thresholds
  const Sizes variants[3] = {{{1, A, D}, 1, D + 8}, {{A - 1, D - 1, D + 1}, A - 1, D + 8}, {{1, A + 1, D}, 1, D + 8}};
  const int nvariants = 3;

  std::vector<std::vector<Op>> alpha(R);
  for (int r = 0; r < R; r++) alpha[r] = alphabet(r, R, opmask);
  // distributions of `bound` operations over the ranks, at most 3 each
  std::vector<std::vector<int>> dists;
  { std::vector<int> k(R, 0);
    while (true) { int sum = 0; for (int v : k) sum += v; if (sum == bound) dists.push_back(k);
      int i = R - 1; while (i >= 0 && k[i] == 3) k[i--] = 0; if (i < 0) break; k[i]++; } }
  long index = -1, generated = 0, balanced = 0, kept = 0, run = 0, deadlocking = 0, leftover = 0, overflow = 0, multi = 0, nviol = 0;
  long states = 0, transitions = 0, truncs = 0, anysrc = 0, mixed = 0, outcomes_total = 0, skipped = 0;
  auto publish = [&]() { long c[] = {generated, balanced, kept, deadlocking, leftover, overflow, run, multi, states, transitions, truncs, anysrc, mixed, outcomes_total, nviol, skipped};
                         for (int i = 0; i < 16; i++) score[2 + i] = c[i]; };
  // od=<dist>:<index>:<d0>,<d1>,...  resumes the enumeration at that odometer position (whose balanced index is <index>)
  int od_dist = -1; long od_index = -1; std::vector<int> od_digits;
  if (odarg) { const char* c = odarg; od_dist = parse_any(c); c++; od_index = parse_any(c); c++; while (*c) { od_digits.push_back(parse_any(c)); if (*c == ',') c++; } }
  Program singleP;
  if (single) { singleP = parse_prog(single, R); dists.assign(1, std::vector<int>(R, 0)); for (int r = 0; r < R; r++) dists[0][r] = (int)singleP[r].size(); }
  for (size_t di = 0; di < dists.size(); di++) {
    auto& k = dists[di];
    if ((int)di < od_dist) continue;
    int n = 0; for (int v : k) n += v;
    std::vector<int> od(n, 0), owner;
    for (int r = 0; r < R; r++) for (int j = 0; j < k[r]; j++) owner.push_back(r);
    if ((int)di == od_dist) { od = od_digits; index = od_index - 1; }
    if (single) {     // position the odometer on the given program
      for (int r = 0; r < R; r++) alpha[r] = alphabet(r, R);
      int j = 0;
      for (int r = 0; r < R; r++) for (auto& o : singleP[r]) {
        int f = -1;
        for (size_t a = 0; a < alpha[r].size(); a++) if (!memcmp(&alpha[r][a], &o, sizeof(Op))) f = (int)a;
        if (f < 0) { if (!rank) printf("HARNESS-ERROR operation not in the alphabet\n"); MPI_Finalize(); return 2; }
        od[j++] = f;
      }
      only = 0; index = -1;
    }
    bool more = true;
    while (more) {
      // ---- this simulation owns the programs whose (distribution, first two operations) number is = shard mod nshards
      if (!single && only < 0) {
        long c = (long)di;
        for (int j = 0; j < 2 && j < n; j++) c = c * (long)alpha[owner[j]].size() + od[j];
        if (c % nshards != shard) {      // jump over the whole sub-enumeration
          for (int j = 2; j < n; j++) od[j] = (int)alpha[owner[j]].size() - 1;
          goto next_candidate;
        }
      }
      { // ---- candidate program = od
      generated++;
      // cheap necessary condition before building anything: every rank receives exactly as many messages as are sent to it
      int sends_to[8] = {0}, recvs_at[8] = {0};
      for (int j = 0; j < n; j++) { const Op& o = alpha[owner[j]][od[j]]; if (has_send(o)) sends_to[o.peer]++; if (has_recv(o)) recvs_at[owner[j]]++; }
      bool ok = true;
      for (int r = 0; r < R; r++) if (sends_to[r] != recvs_at[r]) ok = false;
      if (ok) {
        balanced++;
        index++;
        if (only < 0 || index == only) {
          Program P(R);
          for (int j = 0; j < n; j++) P[owner[j]].push_back(alpha[owner[j]][od[j]]);
          bool resumed_past = index < after_i;                   // everything up to `after` was done by a previous simulation
          bool trunc_possible = false;
          for (int r = 0; r < R; r++) for (auto& o : P[r]) if (has_recv(o) && o.cap)
            for (int r2 = 0; r2 < R; r2++) for (auto& o2 : P[r2]) if (has_send(o2) && o2.peer == r && o2.sz > 0 && (o.rpeer == ANY || o.rpeer == r2) && (o.rtag == ANY || o.rtag == o2.tag)) trunc_possible = true;
          // class bit 1: a sender sends a message of class M/L and later one of class S to the same rank (the small one
          // travels through another SMPI mailbox)
          bool small_after_big = false;
          for (int r = 0; r < R; r++) for (size_t i = 0; i < P[r].size(); i++) for (size_t i2 = i + 1; i2 < P[r].size(); i2++)
            if (has_send(P[r][i]) && has_send(P[r][i2]) && P[r][i].peer == P[r][i2].peer && P[r][i].sz > 0 && P[r][i2].sz == 0) small_after_big = true;
          // class bit 2 (value 4): a rank posts receives of both capacities (they are posted in different SMPI mailboxes)
          bool mixed_caps = false;
          for (int r = 0; r < R; r++) { bool sm = false, bg = false; for (auto& o : P[r]) if (has_recv(o)) (o.cap ? sm : bg) = true; if (sm && bg) mixed_caps = true; }
          int pclass = (trunc_possible ? 1 : 0) | (small_after_big ? 2 : 0) | (mixed_caps ? 4 : 0);
          if (resumed_past) goto next_candidate;
          if ((only >= 0 || single) && rank == 0) printf("P index=%ld class=%d prog=%s\n", index, pclass, prog_str(P).c_str());
          if (skipclass & pclass) { skipped++; goto next_candidate; }
          {
          Model M(P);
          M.run();
          states += (long)M.seen.size(); transitions += M.transitions;
          if (M.overflow) overflow++;
          else if (M.deadlock) deadlocking++;
          else if (M.leftover) leftover++;
          else {
            kept++;
            if (M.outcomes.size() > 1) multi++;
            outcomes_total += (long)M.outcomes.size();
            bool has_any = false, sizes_differ = false;
            for (auto& rk : P) for (auto& o : rk) if ((has_recv(o) || is_probe(o)) && o.rpeer == ANY) has_any = true;
            for (auto& a : M.msgs) for (auto& b : M.msgs) if (a.src == b.src && a.dst == b.dst && a.sz != b.sz) sizes_differ = true;
            if (has_any) anysrc++;
            if (sizes_differ) mixed++;
            for (int v = 0; v < nvariants; v++) {
              const Sizes& z = variants[v];
              if (index == after_i && v <= after_v) continue;
              if (onlyvar >= 0 && v != onlyvar) continue;
              MPI_Barrier(sync);
              if (rank == 0) { publish(); score[0] = index; score[1] = v; score[18] = (long)di; score[19] = n; for (int j = 0; j < n; j++) score[20 + j] = od[j]; }
              if (rank == 0) { for (auto& o : g_recv) o = Obs{-1, 0, 0, 0, 0, 0}; for (auto& o : g_probe) o = Obs{-1, 0, 0, 0, 0, 0}; memset(g_bad, 0, sizeof g_bad); }
              MPI_Barrier(sync);
              run_rank(P, M, rank, comm, z);
              MPI_Barrier(sync);
              run++;
              if (rank == 0) {
                // ---- judge the joint observation
                std::string why;
                std::vector<signed char> obs(M.nrecv + M.nprobe, -1);
                for (int r = 0; r < R; r++) if (g_bad[r]) why = g_bad[r] == 1 ? "payload-mixed" : "wrote-beyond-buffer";
                for (int s = 0; s < M.nrecv && why.empty(); s++) {
                  const Obs& o = g_recv[s];
                  if (!o.flag) { why = "receive-not-observed"; break; }
                  if (o.msg < 0 || o.msg >= (int)M.msgs.size()) { why = "payload-unknown"; break; }
                  const Msg& m = M.msgs[o.msg];
                  obs[s] = (signed char)o.msg;
                  int cap = -1;
                  { int c = 0; for (int r = 0; r < R; r++) for (size_t i = 0; i < P[r].size(); i++) if (M.recv_id[r][i] == s) c = P[r][i].cap ? z.cap_small : z.cap_big; cap = c; }
                  bool trunc = z.b[m.sz] > cap;
                  if (trunc) truncs++;
                  int cls = MPI_SUCCESS; MPI_Error_class(o.err, &cls);
                  if (m.dst != M.recv_rank[s]) why = "message-for-another-rank";
                  else if (o.src != m.src) why = "status-source";
                  else if (o.tag != m.tag) why = "status-tag";
                  else if (trunc && cls != MPI_ERR_TRUNCATE) why = "truncation-not-reported";
                  else if (!trunc && cls != MPI_SUCCESS) why = "error-on-fitting-message";
                  else if (!trunc && o.count != z.b[m.sz]) why = "status-count";
                }
                // the matching (receive slots) must be allowed; probes are compared as (source, tag, size) of the message
                if (why.empty()) {
                  bool found = false;
                  for (auto& oc : M.outcomes) {
                    bool same = true;
                    for (int s = 0; s < M.nrecv && same; s++) if (oc[s] != obs[s]) same = false;
                    for (int q = 0; q < M.nprobe && same; q++) {
                      const Obs& o = g_probe[q];
                      int id = oc[M.nrecv + q];
                      if (id < 0) { if (o.flag) same = false; }
                      else if (!o.flag || o.src != M.msgs[id].src || o.tag != M.msgs[id].tag || o.count != z.b[M.msgs[id].sz]) same = false;
                    }
                    if (same) { found = true; break; }
                  }
                  if (!found) {
                    // name the rule: overtaking = some receive took a later message of a sender while an earlier one it accepts was still unreceived
                    why = "matching-not-allowed";
                    for (int s = 0; s < M.nrecv; s++)
                      for (auto& m2 : M.msgs)
                        if (obs[s] >= 0 && m2.src == M.msgs[obs[s]].src && m2.dst == M.msgs[obs[s]].dst && m2.id < obs[s] && M.accepts(M.recv_src[s], M.recv_tag[s], m2)) {
                          bool earlier_taken_before = false;
                          for (int s2 = 0; s2 < s; s2++) if (obs[s2] == m2.id && M.recv_rank[s2] == M.recv_rank[s]) earlier_taken_before = true;
                          if (!earlier_taken_before) why = "overtaking";
                        }
                    bool probe_bad = false;
                    for (auto& oc : M.outcomes) { bool same = true; for (int s = 0; s < M.nrecv; s++) if (oc[s] != obs[s]) same = false; if (same) probe_bad = true; }
                    if (probe_bad) why = "probe-status";
                  }
                }
                if (!why.empty()) {
                  nviol++;
                  std::string o;
                  char b[96];
                  for (int s = 0; s < M.nrecv; s++) { sprintf(b, "r%d=m%d/src%d/tag%d/n%d/e%d;", s, g_recv[s].msg, g_recv[s].src, g_recv[s].tag, g_recv[s].count, g_recv[s].err); o += b; }
                  for (int q = 0; q < M.nprobe; q++) { sprintf(b, "p%d=f%d/src%d/tag%d/n%d;", q, g_probe[q].flag, g_probe[q].src, g_probe[q].tag, g_probe[q].count); o += b; }
                  printf("V kind=%s index=%ld variant=%d prog=%s obs=%s allowed=%zu\n", why.c_str(), index, v, prog_str(P).c_str(), o.c_str(), M.outcomes.size());
                } else if (verbose)
                  printf("OK index=%ld variant=%d prog=%s allowed=%zu\n", index, v, prog_str(P).c_str(), M.outcomes.size());
              }
            }
          }
          }
        }
      }
      }
      next_candidate:
      // ---- next candidate
      if (single) break;
      int j = n - 1;
      while (j >= 0 && od[j] + 1 == (int)alpha[owner[j]].size()) od[j--] = 0;
      if (j < 0) more = false; else od[j]++;
    }
  }
  MPI_Barrier(sync);
  if (rank == 0) { publish(); score[0] = -2; }
  if (rank == 0)
    printf("N generated=%ld balanced=%ld mine_kept=%ld deadlocking=%ld leftover=%ld overflow=%ld runs=%ld multi=%ld states=%ld transitions=%ld "
           "truncs=%ld anysrc=%ld mixed=%ld outcomes=%ld violations=%ld skipped=%ld\n",
           generated, balanced, kept, deadlocking, leftover, overflow, run, multi, states, transitions, truncs, anysrc, mixed, outcomes_total, nviol, skipped);
  int sz; void* bp; MPI_Buffer_detach(&bp, &sz);
  MPI_Finalize();
  return 0;
}
