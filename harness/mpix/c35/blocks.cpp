/* C35 (i) — shift_and_frame_private_blocks / merge_private_blocks called directly, for every private-block layout on a
 * line of L units, every message offset and every message size, against interval (set) arithmetic.
 *
 * Oracle: a layout is a set S of private unit positions of an allocation [0,L). A message of `size` units starting at
 * `offset` sees position p (0 <= p < size) private iff offset+p is in S. A byte must be copied iff it is private in the
 * source AND in the destination buffer. The implementation's block lists are expanded to sets and compared:
 *   *-missing    a position that must be copied is not in the result            (violation)
 *   *-head-block-dropped  same, but every missing position lies in the private block that the message starts strictly
 *                inside of (block begin < offset < block end) -- kept apart so that this pattern cannot hide another one
 *   *-malformed  a block with begin > end or end > size, or blocks not sorted/disjoint (violation: check_blocks aborts)
 *   extra        a position in the result that is not private in both (allowed by the statement; counted only)
 *
 * usage: blocks <L> <shard> <nshards>                              whole enumeration (pipeline sharded on the src layout)
 *        blocks one shift <S> <offset> <size>
 *        blocks one merge <A> <B> <size>
 *        blocks one pipe  <Ssrc> <osrc> <Sdst> <odst> <size>       (layouts as bit masks, bit i = unit i private) */
#include <smpi/smpi.h>

#include <cstdio>
#include <cstdlib>
#include <cstring>
#include <string>
#include <utility>
#include <vector>

using Blocks = std::vector<std::pair<size_t, size_t>>;

static long n_shift = 0, n_merge = 0, n_pipe = 0, n_inside = 0, n_extra = 0, n_required_units = 0;
static const int KEEP = 3;
struct Kind {
  std::string name;
  long count = 0;
};
static std::vector<Kind> kinds;

static Blocks blocks_of(unsigned S, int L)
{
  Blocks b;
  int i = 0;
  while (i < L) {
    if (S >> i & 1) {
      int j = i;
      while (j < L && (S >> j & 1))
        j++;
      b.emplace_back(i, j);
      i = j;
    } else
      i++;
  }
  return b;
}
static std::string fmt(const Blocks& b)
{
  std::string s;
  for (auto const& [x, y] : b) {
    if (!s.empty())
      s += "+";
    s += std::to_string((long long)x) + "-" + std::to_string((long long)y);
  }
  return s.empty() ? "none" : s;
}
static void viol(const char* kind, const std::string& ctx, const std::string& det)
{
  size_t k = 0;
  for (; k < kinds.size(); k++)
    if (kinds[k].name == kind)
      break;
  if (k == kinds.size())
    kinds.push_back({kind, 0});
  if (kinds[k].count++ < KEEP) {
    printf("V kind=%s %s %s\n", kind, ctx.c_str(), det.c_str());
    fflush(stdout);
  }
}
/* expand a result to a set of positions < size; returns false if malformed */
static bool expand(const Blocks& r, size_t size, unsigned& set)
{
  set         = 0;
  size_t last = 0;
  for (auto const& [b, e] : r) {
    if (b > e || e > size || b < last)
      return false;
    for (size_t p = b; p < e; p++)
      set |= 1u << p;
    last = e;
  }
  return true;
}
static unsigned window(unsigned S, int offset, int size)
{
  return (S >> offset) & ((1u << size) - 1);
}

/* positions of the message that lie in the private block the message starts strictly inside of (begin < offset < end) */
static unsigned head(unsigned S, int offset, int size)
{
  unsigned h = 0;
  if (offset == 0 || !(S >> (offset - 1) & 1))
    return 0;
  for (int p = 0; p < size && (S >> (offset + p) & 1); p++)
    h |= 1u << p;
  return h;
}

static void check_shift(unsigned S, int L, int offset, int size)
{
  Blocks in = blocks_of(S, L);
  Blocks r  = shift_and_frame_private_blocks(in, offset, size);
  n_shift++;
  unsigned exp = window(S, offset, size), got;
  std::string ctx = "blocks=" + fmt(in) + " offset=" + std::to_string(offset) + " size=" + std::to_string(size);
  for (auto const& [b, e] : in)
    if ((size_t)offset > b && (size_t)offset < e && size > 0) {
      n_inside++;
      break;
    }
  if (!expand(r, size, got)) {
    viol("shift-malformed", ctx, "got=" + fmt(r));
    return;
  }
  if (unsigned miss = exp & ~got)
    viol(miss & ~head(S, offset, size) ? "shift-missing" : "shift-head-block-dropped", ctx,
         "got=" + fmt(r) + " exp=" + fmt(blocks_of(exp, size)));
  if (got & ~exp)
    n_extra++;
}
static void check_merge(unsigned A, unsigned B, int size)
{
  Blocks a = blocks_of(A, size), b = blocks_of(B, size);
  Blocks r = merge_private_blocks(a, b);
  n_merge++;
  unsigned exp = A & B, got;
  std::string ctx = "src=" + fmt(a) + " dst=" + fmt(b) + " size=" + std::to_string(size);
  if (!expand(r, size, got)) {
    viol("merge-malformed", ctx, "got=" + fmt(r));
    return;
  }
  if (exp & ~got)
    viol("merge-missing", ctx, "got=" + fmt(r) + " exp=" + fmt(blocks_of(exp, size)));
  if (got & ~exp)
    n_extra++;
}
static void check_pipe(unsigned Ss, int os, unsigned Sd, int od, int L, int size)
{
  Blocks s = blocks_of(Ss, L), d = blocks_of(Sd, L);
  Blocks r = merge_private_blocks(shift_and_frame_private_blocks(s, os, size), shift_and_frame_private_blocks(d, od, size));
  n_pipe++;
  unsigned exp = window(Ss, os, size) & window(Sd, od, size), got;
  n_required_units += __builtin_popcount(exp);
  if (!expand(r, size, got)) {
    viol("pipeline-malformed", "src=" + fmt(s) + " srcoff=" + std::to_string(os) + " dst=" + fmt(d) + " dstoff=" + std::to_string(od) +
                                   " size=" + std::to_string(size), "got=" + fmt(r));
    return;
  }
  if (unsigned miss = exp & ~got)
    viol(miss & ~(head(Ss, os, size) | head(Sd, od, size)) ? "pipeline-missing" : "pipeline-head-block-dropped", "src=" + fmt(s) + " srcoff=" + std::to_string(os) + " dst=" + fmt(d) + " dstoff=" + std::to_string(od) +
                                 " size=" + std::to_string(size), "got=" + fmt(r) + " exp=" + fmt(blocks_of(exp, size)));
  if (got & ~exp)
    n_extra++;
}

int main(int argc, char** argv)
{
  if (argc >= 3 && !strcmp(argv[1], "one")) {
    int L = 16;
    if (!strcmp(argv[2], "shift"))
      check_shift(strtoul(argv[3], 0, 0), L, atoi(argv[4]), atoi(argv[5]));
    else if (!strcmp(argv[2], "merge"))
      check_merge(strtoul(argv[3], 0, 0), strtoul(argv[4], 0, 0), atoi(argv[5]));
    else
      check_pipe(strtoul(argv[3], 0, 0), atoi(argv[4]), strtoul(argv[5], 0, 0), atoi(argv[6]), L, atoi(argv[7]));
  } else {
    int L = atoi(argv[1]), shard = atoi(argv[2]), nshards = atoi(argv[3]);
    unsigned NS = 1u << L;
    for (unsigned S = 0; S < NS; S++) {
      if (S % nshards == (unsigned)shard)
        for (int o = 0; o <= L; o++)
          for (int n = 0; n <= L - o; n++)
            check_shift(S, L, o, n);
    }
    for (int n = 0; n <= L; n++)
      for (unsigned A = 0; A < (1u << n); A++) {
        if (A % nshards != (unsigned)shard)
          continue;
        for (unsigned B = 0; B < (1u << n); B++)
          check_merge(A, B, n);
      }
    for (unsigned Ss = 0; Ss < NS; Ss++) {
      if (Ss % nshards != (unsigned)shard)
        continue;
      for (int os = 0; os <= L; os++)
        for (unsigned Sd = 0; Sd < NS; Sd++)
          for (int od = 0; od <= L; od++) {
            int mx = L - (os > od ? os : od);
            for (int n = 0; n <= mx; n++)
              check_pipe(Ss, os, Sd, od, L, n);
          }
    }
  }
  for (auto const& k : kinds)
    printf("S kind=%s count=%ld\n", k.name.c_str(), k.count);
  printf("N shift=%ld merge=%ld pipe=%ld offset_inside_block=%ld extra=%ld required_units=%ld\n", n_shift, n_merge, n_pipe,
         n_inside, n_extra, n_required_units);
  return 0;
}
