/* C35 (ii) — end to end: messages between buffers allocated with SMPI_PARTIAL_SHARED_MALLOC, 2 ranks.
 *
 * An allocation has NP pages of 4096 bytes; a layout is a mask, page i is private iff bit i is set, the maximal runs of
 * the other pages are declared shared (mask with all bits set = plain malloc, no shared block at all). Messages are
 * measured in half pages (H = 2048 bytes) so that they can start inside, before and across private blocks:
 * every (source layout, source offset, destination layout, destination offset, size >= 1 fitting in both) x
 * {MPI_Send, MPI_Ssend, MPI_Isend+Wait}. The protocol (detached copy / rendezvous / eager mailbox) is chosen by the
 * --cfg options given by the driver; `cfg` on the command line is only a label.
 *
 * Oracle (the property statement): after the receive, every byte p of the message with source position private in the
 * source allocation AND destination position private in the destination allocation holds the byte the sender wrote there
 * (kind e2e-missing; e2e-head-block-dropped when every missing byte lies in the private block that the message starts
 * strictly inside of, in the source or in the destination allocation); private bytes of the destination allocation outside the message still hold the canary
 * (kind e2e-outside). Bytes whose source is shared are unconstrained.
 *
 * usage: e2e <cfg-label> <NP> <shard> <nshards> <only> */
#include <mpi.h>
#include <stdio.h>
#include <stdlib.h>
#include <string.h>

#define PAGE 4096
#define H 2048
#define KEEP 2
#define MAXNP 6

static int me, NP, U;
static long shard, nshards, only, ord = 0;
static const char* cfg;
static unsigned char* bufs[1 << MAXNP];
static const char* knames[8];
static long kcount[8];
static int nk = 0;
static long n_cases = 0, n_inside = 0, n_required = 0, n_bytes_checked = 0;

static void viol(const char* kind, const char* ctx, const char* det)
{
  int k;
  for (k = 0; k < nk; k++)
    if (!strcmp(knames[k], kind))
      break;
  if (k == nk)
    knames[nk++] = kind;
  if (kcount[k]++ < KEEP) {
    printf("V kind=%s cfg=%s ord=%ld %s %s\n", kind, cfg, ord - 1, ctx, det);
    fflush(stdout);
  }
}

static unsigned char* alloc_layout(unsigned mask)
{
  size_t size = (size_t)NP * PAGE;
  if (mask == (1u << NP) - 1) {
    unsigned char* p = malloc(size);
    memset(p, 0, size);
    return p;
  }
  size_t off[2 * MAXNP];
  int nb = 0, i = 0;
  while (i < NP) {
    if (!(mask >> i & 1)) {
      int j = i;
      while (j < NP && !(mask >> j & 1))
        j++;
      off[2 * nb]     = (size_t)i * PAGE;
      off[2 * nb + 1] = (size_t)j * PAGE;
      nb++;
      i = j;
    } else
      i++;
  }
  return SMPI_PARTIAL_SHARED_MALLOC(size, off, nb);
}
static int priv(unsigned mask, size_t pos)
{
  return mask >> (pos / PAGE) & 1;
}
static void fmt_mask(unsigned mask, char* b)
{
  for (int i = 0; i < NP; i++)
    b[i] = mask >> i & 1 ? 'P' : 's';
  b[NP] = 0;
}
static unsigned char pattern(size_t q, long o)
{
  return 0x80 | ((q * 5 + (q >> 8) * 3 + o) & 0x7f);
}

int main(int argc, char** argv)
{
  MPI_Init(&argc, &argv);
  MPI_Comm_rank(MPI_COMM_WORLD, &me);
  if (argc < 6) {
    MPI_Finalize();
    return 2;
  }
  cfg     = argv[1];
  NP      = atoi(argv[2]);
  shard   = atol(argv[3]);
  nshards = atol(argv[4]);
  only    = atol(argv[5]);
  U       = 2 * NP;
  unsigned NM = 1u << NP;
  for (unsigned m = 0; m < NM; m++)
    bufs[m] = alloc_layout(m);
  static const char* modes[3] = {"Send", "Ssend", "Isend"};
  char ctx[256], det[160], sb[16], db[16];
  for (unsigned sm = 0; sm < NM; sm++)
    for (int so = 0; so < U; so++)
      for (unsigned dm = 0; dm < NM; dm++)
        for (int dof = 0; dof < U; dof++) {
          int mx = U - (so > dof ? so : dof);
          for (int n = 1; n <= mx; n++)
            for (int mode = 0; mode < 3; mode++) {
              long cur = ord++;
              if (only >= 0 ? cur != only : cur % nshards != shard)
                continue;
              n_cases++;
              size_t sbase = (size_t)so * H, dbase = (size_t)dof * H, len = (size_t)n * H;
              /* message starts strictly inside a private block (previous half page private too) in src or dst */
              if ((so > 0 && priv(sm, sbase) && priv(sm, sbase - H)) || (dof > 0 && priv(dm, dbase) && priv(dm, dbase - H)))
                n_inside++;
              char ack = 0;
              if (me == 0) {
                unsigned char* src = bufs[sm];
                for (size_t p = 0; p < len; p++)
                  if (priv(sm, sbase + p))
                    src[sbase + p] = pattern(sbase + p, cur);
                if (mode == 0)
                  MPI_Send(src + sbase, (int)len, MPI_BYTE, 1, 1, MPI_COMM_WORLD);
                else if (mode == 1)
                  MPI_Ssend(src + sbase, (int)len, MPI_BYTE, 1, 1, MPI_COMM_WORLD);
                else {
                  MPI_Request rq;
                  MPI_Isend(src + sbase, (int)len, MPI_BYTE, 1, 1, MPI_COMM_WORLD, &rq);
                  MPI_Wait(&rq, MPI_STATUS_IGNORE);
                }
                MPI_Recv(&ack, 1, MPI_CHAR, 1, 2, MPI_COMM_WORLD, MPI_STATUS_IGNORE);
              } else if (me == 1) {
                unsigned char* dst   = bufs[dm];
                unsigned char canary = cur & 0x7f;
                size_t total         = (size_t)NP * PAGE;
                for (size_t q = 0; q < total; q++)
                  if (priv(dm, q))
                    dst[q] = canary;
                MPI_Recv(dst + dbase, (int)len, MPI_BYTE, 0, 1, MPI_COMM_WORLD, MPI_STATUS_IGNORE);
                long missing = 0, firstmiss = -1, outside = 0, firstout = -1, headmiss = 0;
                /* the private block the message starts strictly inside of, on either side (its end, as a message byte) */
                size_t shead = 0, dhead = 0;
                if (sbase > 0 && priv(sm, sbase) && priv(sm, sbase - 1))
                  while (shead < len && priv(sm, sbase + shead))
                    shead++;
                if (dbase > 0 && priv(dm, dbase) && priv(dm, dbase - 1))
                  while (dhead < len && priv(dm, dbase + dhead))
                    dhead++;
                for (size_t q = 0; q < total; q++) {
                  if (!priv(dm, q))
                    continue;
                  n_bytes_checked++;
                  if (q >= dbase && q < dbase + len) {
                    size_t p = q - dbase;
                    if (!priv(sm, sbase + p))
                      continue;
                    n_required++;
                    if (dst[q] != pattern(sbase + p, cur)) {
                      if (!missing)
                        firstmiss = (long)p;
                      missing++;
                      if (p < shead || p < dhead)
                        headmiss++;
                    }
                  } else if (dst[q] != canary) {
                    if (!outside)
                      firstout = (long)q;
                    outside++;
                  }
                }
                if (missing || outside) {
                  fmt_mask(sm, sb);
                  fmt_mask(dm, db);
                  snprintf(ctx, sizeof ctx, "mode=%s np=%d src=%s srcoff=%d dst=%s dstoff=%d size=%d", modes[mode], NP, sb, so, db,
                           dof, n);
                  if (missing) {
                    snprintf(det, sizeof det, "missing_bytes=%ld first_at_message_byte=%ld", missing, firstmiss);
                    viol(headmiss == missing ? "e2e-head-block-dropped" : "e2e-missing", ctx, det);
                  }
                  if (outside) {
                    snprintf(det, sizeof det, "touched_bytes=%ld first_at_alloc_byte=%ld", outside, firstout);
                    viol("e2e-outside", ctx, det);
                  }
                }
                MPI_Send(&ack, 1, MPI_CHAR, 0, 2, MPI_COMM_WORLD);
              }
            }
        }
  if (me == 1) {
    for (int k = 0; k < nk; k++)
      printf("S kind=%s count=%ld\n", knames[k], kcount[k]);
    printf("N cfg=%s np=%d cases=%ld start_inside_private_block=%ld required_bytes=%ld private_bytes_checked=%ld total_ord=%ld\n", cfg, NP,
           n_cases, n_inside, n_required, n_bytes_checked, ord);
  }
  fflush(stdout);
  MPI_Finalize();
  return 0;
}
