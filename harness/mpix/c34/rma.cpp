// C34 interpreter: enumerates one-sided programs, computes by brute force every result the synchronisation allows
// (reference: plain sequential memory operations, independent of SimGrid), runs the program on SMPI and checks that the
// final window memory of every rank and every fetched value is one of the allowed results.
//
//   rma <R> <bound> <shard> <nshards> [score=<file>] [od=<dist>:<index>:<digits>] [after=<index>:<mode>] [prog=<text>] [onlymode=<m>] [verbose]
//
// Window: 2 int cells per rank, cell c of rank r starts at 100+10r+c. Operations (value v is unique per operation:
// 10*(rank+1)+position, so that serialisations can be told apart):
//   P(t,c) Put v      G(t,c) Get      A(t,c) Accumulate(v, MPI_SUM)     F(t,c) Get_accumulate(v, MPI_SUM) -> old value
//   C(t,c,k) Compare_and_swap(compare = k ? initial value of the cell : 0, swap = v) -> old value
// Synchronisation modes and what they allow:
//   0 fence      : Win_fence; ops; Win_fence           -> any order of all operations of the epoch (permutations)
//   1 exclusive  : every op in its own Win_lock(EXCLUSIVE,t)/Win_unlock(t) -> interleavings keeping each rank's order
//   2 lock_all   : Win_lock_all; (op; Win_flush(t))*; Win_unlock_all       -> interleavings keeping each rank's order
#include <mpi.h>
#include <cstdio>
#include <cstdlib>
#include <cstring>
#include <vector>
#include <set>
#include <string>
#include <algorithm>
#include <unordered_set>
#include <sys/mman.h>
#include <fcntl.h>
#include <unistd.h>

enum { PUT, GET, ACC, GACC, CAS };
struct Op { int type, t, c, k; };
typedef std::vector<std::vector<Op>> Program;
static const int CELLS = 2, MAXR = 4;
static int init_val(int r, int c) { return 100 + 10 * r + c; }

static std::string op_str(const Op& o)
{
  char b[32];
  if (o.type == CAS) sprintf(b, "C(%d,%d,%d)", o.t, o.c, o.k); else sprintf(b, "%c(%d,%d)", "PGAF"[o.type], o.t, o.c);
  return b;
}
static std::string prog_str(const Program& p)
{
  std::string s;
  for (size_t r = 0; r < p.size(); r++) { s += r ? "|" : ""; for (size_t i = 0; i < p[r].size(); i++) s += (i ? "," : "") + op_str(p[r][i]); }
  return s;
}
static int num(const char*& c) { int v = 0; while (*c >= '0' && *c <= '9') v = v * 10 + (*c++ - '0'); return v; }
static Program parse_prog(const char* c, int R)
{
  Program p(R);
  int r = 0;
  while (*c) {
    if (*c == '|') { r++; c++; continue; }
    if (*c == ',') { c++; continue; }
    Op o{0, 0, 0, 0};
    char t = *c++; c++;
    o.type = t == 'P' ? PUT : t == 'G' ? GET : t == 'A' ? ACC : t == 'F' ? GACC : CAS;
    o.t = num(c); c++; o.c = num(c);
    if (o.type == CAS) { c++; o.k = num(c); }
    c++;
    if (r < R) p[r].push_back(o);
  }
  return p;
}
static std::vector<Op> alphabet(int R)
{
  std::vector<Op> a;
  for (int t = 0; t < R; t++) for (int c = 0; c < CELLS; c++) {
    for (int ty = PUT; ty <= GACC; ty++) a.push_back(Op{ty, t, c, 0});
    a.push_back(Op{CAS, t, c, 0}); a.push_back(Op{CAS, t, c, 1});
  }
  return a;
}

// ------------------------------------------------------------------------------------------------ reference
struct Ref {
  const Program& P; int R, mode;
  std::vector<int> owner, pos;                 // flattened operations
  std::set<std::vector<int>> outcomes;          // memory (R*CELLS) followed by one fetched value per operation (0 if none)
  std::unordered_set<std::string> seen;
  long transitions = 0;
  Ref(const Program& p, int m) : P(p), R((int)p.size()), mode(m) { for (int r = 0; r < R; r++) for (size_t i = 0; i < P[r].size(); i++) { owner.push_back(r); pos.push_back((int)i); } }
  static int value(int r, int i) { return 10 * (r + 1) + i; }
  void apply(int j, std::vector<int>& st) const
  {
    const Op& o = P[owner[j]][pos[j]];
    int& cell = st[o.t * CELLS + o.c];
    int v = value(owner[j], pos[j]);
    int& fetched = st[R * CELLS + j];
    switch (o.type) {
      case PUT: cell = v; break;
      case GET: fetched = cell; break;
      case ACC: cell += v; break;
      case GACC: fetched = cell; cell += v; break;
      case CAS: fetched = cell; if (cell == (o.k ? init_val(o.t, o.c) : 0)) cell = v; break;
    }
  }
  void run()
  {
    int n = (int)owner.size();
    std::vector<int> st(R * CELLS + n, 0);
    for (int r = 0; r < R; r++) for (int c = 0; c < CELLS; c++) st[r * CELLS + c] = init_val(r, c);
    struct Node { unsigned used; std::vector<int> st; };
    std::vector<Node> stack{{0u, st}};
    auto key = [&](const Node& nd) { std::string k((const char*)&nd.used, sizeof nd.used); k.append((const char*)nd.st.data(), nd.st.size() * sizeof(int)); return k; };
    seen.insert(key(stack[0]));
    while (!stack.empty()) {
      Node nd = std::move(stack.back()); stack.pop_back();
      if (nd.used == (1u << n) - 1) { outcomes.insert(nd.st); continue; }
      for (int j = 0; j < n; j++) {
        if (nd.used & (1u << j)) continue;
        if (mode != 0) {        // program order of the origin is kept: all its earlier operations are done
          bool ok = true;
          for (int j2 = 0; j2 < j; j2++) if (owner[j2] == owner[j] && !(nd.used & (1u << j2))) ok = false;
          if (!ok) continue;
        }
        Node nx{nd.used | (1u << j), nd.st};
        apply(j, nx.st);
        transitions++;
        if (seen.insert(key(nx)).second) stack.push_back(std::move(nx));
      }
    }
  }
};

// MPI-3.1 11.7: operations of one access epoch (or of concurrent epochs under a shared lock) on the same location are
// only defined if they are all Gets, or all accumulate-type calls with the same operation (Accumulate/Get_accumulate
// with MPI_SUM here), or all Compare_and_swap. Mode 1 serialises every operation (exclusive lock per operation): always
// defined. Mode 2 orders the operations of one origin (Win_flush after each): the rule applies to locations touched by
// two origins. Mode 0 (one fence epoch): the rule applies to every location touched twice.
static bool defined_by_mpi(const Program& P, int mode)
{
  if (mode == 1) return true;
  int R = (int)P.size();
  for (int t = 0; t < R; t++) for (int c = 0; c < CELLS; c++) {
    int n = 0, fam[3] = {0, 0, 0}, origins = 0;
    for (int r = 0; r < R; r++) { bool touched = false;
      for (auto& o : P[r]) if (o.t == t && o.c == c) { n++; touched = true; if (o.type == GET) fam[0]++; else if (o.type == ACC || o.type == GACC) fam[1]++; else if (o.type == CAS) fam[2]++; }
      if (touched) origins++; }
    if (n < 2 || (mode == 2 && origins < 2)) continue;
    if (fam[0] != n && fam[1] != n && fam[2] != n) return false;
  }
  return true;
}

// ------------------------------------------------------------------------------------------------ SMPI side
static int g_mem[MAXR * CELLS], g_fetched[16];      // shared by all ranks (smpi/privatization:no)

static void run_rank(const Program& P, int mode, int rank, MPI_Win win, int* base, int first_flat)
{
  const auto& ops = P[rank];
  int origin[4], result[4], compare[4];
  for (int i = 0; i < 4; i++) result[i] = -777;
  if (mode == 0) MPI_Win_fence(0, win);
  if (mode == 2) MPI_Win_lock_all(0, win);
  for (size_t i = 0; i < ops.size(); i++) {
    const Op& o = ops[i];
    origin[i] = Ref::value(rank, (int)i);
    if (mode == 1) MPI_Win_lock(MPI_LOCK_EXCLUSIVE, o.t, 0, win);
    switch (o.type) {
      case PUT: MPI_Put(&origin[i], 1, MPI_INT, o.t, o.c, 1, MPI_INT, win); break;
      case GET: MPI_Get(&result[i], 1, MPI_INT, o.t, o.c, 1, MPI_INT, win); break;
      case ACC: MPI_Accumulate(&origin[i], 1, MPI_INT, o.t, o.c, 1, MPI_INT, MPI_SUM, win); break;
      case GACC: MPI_Get_accumulate(&origin[i], 1, MPI_INT, &result[i], 1, MPI_INT, o.t, o.c, 1, MPI_INT, MPI_SUM, win); break;
      case CAS: compare[i] = o.k ? init_val(o.t, o.c) : 0; MPI_Compare_and_swap(&origin[i], &compare[i], &result[i], MPI_INT, o.t, o.c, win); break;
    }
    if (mode == 1) MPI_Win_unlock(o.t, win);
    if (mode == 2) MPI_Win_flush(o.t, win);
  }
  if (mode == 0) MPI_Win_fence(0, win);
  if (mode == 2) MPI_Win_unlock_all(win);
  for (size_t i = 0; i < ops.size(); i++) g_fetched[first_flat + i] = (ops[i].type == PUT || ops[i].type == ACC) ? 0 : result[i];
}

int main(int argc, char** argv)
{
  MPI_Init(&argc, &argv);
  setvbuf(stdout, nullptr, _IOLBF, 0);
  int rank, W;
  MPI_Comm_rank(MPI_COMM_WORLD, &rank);
  MPI_Comm_size(MPI_COMM_WORLD, &W);
  if (argc < 5) { MPI_Finalize(); return 2; }
  int R = atoi(argv[1]), bound = atoi(argv[2]), shard = atoi(argv[3]), nshards = atoi(argv[4]);
  long after_i = -1; int after_m = -1, onlymode = -1; bool verbose = false, nameonly = false;
  const char* single = nullptr; const char* odarg = nullptr;
  long dummy[64] = {0}; long* score = dummy;
  for (int a = 5; a < argc; a++) {
    sscanf(argv[a], "after=%ld:%d", &after_i, &after_m); sscanf(argv[a], "onlymode=%d", &onlymode);
    if (!strcmp(argv[a], "verbose")) verbose = true;
    if (!strcmp(argv[a], "nameonly")) nameonly = true;
    if (!strncmp(argv[a], "prog=", 5)) single = argv[a] + 5;
    if (!strncmp(argv[a], "od=", 3)) odarg = argv[a] + 3;
    if (!strncmp(argv[a], "score=", 6) && rank == 0) { int fd = open(argv[a] + 6, O_RDWR); if (fd >= 0) { score = (long*)mmap(nullptr, 4096, PROT_READ | PROT_WRITE, MAP_SHARED, fd, 0); close(fd); } }
  }
  if (R != W || R > MAXR) { if (!rank) printf("HARNESS-ERROR world size\n"); MPI_Finalize(); return 2; }
  score[0] = -1; score[1] = -1;
  MPI_Comm comm; MPI_Comm_dup(MPI_COMM_WORLD, &comm);
  int* base = nullptr; MPI_Win win;
  MPI_Alloc_mem(CELLS * sizeof(int), MPI_INFO_NULL, &base);
  MPI_Win_create(base, CELLS * sizeof(int), sizeof(int), MPI_INFO_NULL, comm, &win);

  std::vector<Op> alpha = alphabet(R);
  std::vector<std::vector<int>> dists;
  { std::vector<int> k(R, 0);
    while (true) { int sum = 0; for (int v : k) sum += v; if (sum == bound) dists.push_back(k);
      int i = R - 1; while (i >= 0 && k[i] == 3) k[i--] = 0; if (i < 0) break; k[i]++; } }
  int od_dist = -1; long od_index = -1; std::vector<int> od_digits;
  if (odarg) { const char* c = odarg; od_dist = num(c); c++; od_index = num(c); c++; while (*c) { od_digits.push_back(num(c)); if (*c == ',') c++; } }
  Program singleP;
  if (single) { singleP = parse_prog(single, R); dists.assign(1, std::vector<int>(R, 0)); for (int r = 0; r < R; r++) dists[0][r] = (int)singleP[r].size(); }
  long index = -1, generated = 0, relevant = 0, runs = 0, multi = 0, states = 0, transitions = 0, outcomes_total = 0, nviol = 0, conflicts = 0, undefined_progs = 0;
  auto publish = [&]() { long c[] = {generated, relevant, runs, multi, states, transitions, outcomes_total, nviol, conflicts, undefined_progs}; for (int i = 0; i < 10; i++) score[2 + i] = c[i]; };
  bool break_all = false;
  for (size_t di = 0; di < dists.size() && !break_all; di++) {
    auto& k = dists[di];
    if ((int)di < od_dist) continue;
    int n = 0; for (int v : k) n += v;
    std::vector<int> od(n, 0), owner;
    for (int r = 0; r < R; r++) for (int j = 0; j < k[r]; j++) owner.push_back(r);
    if ((int)di == od_dist) { od = od_digits; index = od_index - 1; }
    if (single) { int j = 0; for (int r = 0; r < R; r++) for (auto& o : singleP[r]) { int f = -1; for (size_t a = 0; a < alpha.size(); a++) if (!memcmp(&alpha[a], &o, sizeof(Op))) f = (int)a; if (f < 0) { if (!rank) printf("HARNESS-ERROR operation not in the alphabet\n"); MPI_Finalize(); return 2; } od[j++] = f; } index = -1; }
    bool more = true;
    while (more) {
      bool mine = true;
      if (!single) { long c = (long)di; for (int j = 0; j < 2 && j < n; j++) c = c * (long)alpha.size() + od[j]; mine = c % nshards == shard; }
      if (!mine) { for (int j = 2; j < n; j++) od[j] = (int)alpha.size() - 1; }
      else {
        generated++;
        // relevance: two operations touch the same cell (otherwise nothing can collide); single-operation programs are kept
        bool rel = n == 1;
        for (int a = 0; a < n; a++) for (int b2 = a + 1; b2 < n; b2++) if (alpha[od[a]].t == alpha[od[b2]].t && alpha[od[a]].c == alpha[od[b2]].c) rel = true;
        if (rel) {
          relevant++; index++;
          Program P(R);
          for (int j = 0; j < n; j++) P[owner[j]].push_back(alpha[od[j]]);
          bool cross = false;     // two different origins on one cell
          for (int a = 0; a < n; a++) for (int b2 = a + 1; b2 < n; b2++) if (owner[a] != owner[b2] && alpha[od[a]].t == alpha[od[b2]].t && alpha[od[a]].c == alpha[od[b2]].c) cross = true;
          if ((single || nameonly) && rank == 0) printf("P index=%ld prog=%s\n", index, prog_str(P).c_str());
          if (nameonly) { more = false; di = dists.size(); break_all = true; }
          if (break_all) break;
          for (int mode = 0; mode < 3; mode++) {
            if (index == after_i && mode <= after_m) continue;
            if (onlymode >= 0 && mode != onlymode) continue;
            if (!defined_by_mpi(P, mode)) { undefined_progs++; continue; }
            Ref ref(P, mode);
            ref.run();
            states += (long)ref.seen.size(); transitions += ref.transitions; outcomes_total += (long)ref.outcomes.size();
            if (ref.outcomes.size() > 1) multi++;
            if (cross) conflicts++;
            MPI_Barrier(comm);
            if (rank == 0) { publish(); score[0] = index; score[1] = mode; score[18] = (long)di; score[19] = n; for (int j = 0; j < n; j++) score[20 + j] = od[j]; memset(g_fetched, 0, sizeof g_fetched); }
            for (int c = 0; c < CELLS; c++) base[c] = init_val(rank, c);
            MPI_Barrier(comm);
            int first = 0; for (int r = 0; r < rank; r++) first += (int)P[r].size();
            run_rank(P, mode, rank, win, base, first);
            MPI_Barrier(comm);
            for (int c = 0; c < CELLS; c++) g_mem[rank * CELLS + c] = base[c];
            MPI_Barrier(comm);
            runs++;
            if (rank == 0) {
              std::vector<int> obs(g_mem, g_mem + R * CELLS);
              obs.insert(obs.end(), g_fetched, g_fetched + n);
              if (!ref.outcomes.count(obs)) {
                nviol++;
                std::string o, al; char b[24];
                for (int v : obs) { sprintf(b, "%d,", v); o += b; }
                int shown = 0;
                for (auto& oc : ref.outcomes) { if (shown++ == 3) { al += "..."; break; } for (int v : oc) { sprintf(b, "%d,", v); al += b; } al += ";"; }
                // name what differs from the nearest allowed outcome: memory or a fetched value
                const char* kind = "memory";
                for (auto& oc : ref.outcomes) if (std::equal(oc.begin(), oc.begin() + R * CELLS, obs.begin())) kind = "fetched-value";
                printf("V kind=%s mode=%d index=%ld prog=%s obs=%s allowed=%zu:%s\n", kind, mode, index, prog_str(P).c_str(), o.c_str(), ref.outcomes.size(), al.c_str());
              } else if (verbose) printf("OK mode=%d prog=%s allowed=%zu\n", mode, prog_str(P).c_str(), ref.outcomes.size());
            }
          }
        }
      }
      if (single) break;
      int j = n - 1;
      while (j >= 0 && od[j] + 1 == (int)alpha.size()) od[j--] = 0;
      if (j < 0) more = false; else od[j]++;
    }
  }
  MPI_Barrier(comm);
  if (rank == 0) { publish(); score[0] = -2;
    printf("N generated=%ld relevant=%ld runs=%ld multi=%ld states=%ld transitions=%ld outcomes=%ld violations=%ld conflicts=%ld undefined=%ld\n",
           generated, relevant, runs, multi, states, transitions, outcomes_total, nviol, conflicts, undefined_progs); }
  MPI_Win_free(&win);
  MPI_Free_mem(base);
  MPI_Finalize();
  return 0;
}
