/* C36 privatisation: interpreter of small per-rank programs over global / static variables.
 *
 *   priv <programs-file> <first> <last>        runs programs first..last-1 of the file, in sequence
 * A line of the file is "<A> <B> <pattern>": rank r runs A if (pattern==0 ? r==0 : r%2==0) else B ("-" = empty program).
 * Ops: G write globals (.bss, .data and the last element of a 16 kB .bss array), S write statics (file-scope .bss/.data and a function-local static),
 *      C check own values, B MPI_Barrier, R ring Sendrecv of one int from/to *global* buffers (eager, detached copy),
 *      Q ring Sendrecv of 1 kB from/to global arrays (above smpi/send-is-detached-thresh:128, not detached: copied by the kernel while another rank is loaded),
 *      Z sleep for a rank-dependent time.
 * Every program starts with: every rank writes fresh values into all its variables, then MPI_Barrier; it ends with a
 * check. A check also follows every blocking op. Expected values live on the rank's own stack (private by construction).
 * Values are (writer rank+1)*1000000 + serial, so a wrong value names the rank it comes from.
 * Output: "P idx=.." progress markers, "V kind=... prog=A:B:pattern idx=.. np=.. rank=.. step=.. var=.. got=.. exp=.." and one "N ..." per rank. */
#include <mpi.h>
#include <stdio.h>
#include <stdlib.h>
#include <string.h>
#include <unistd.h>

#define BIG 256
int g_bss;
int g_data = 7;
static int s_bss;
static int s_data = 9;
int g_xfer;
int g_recv;
int g_bigs[BIG];
int g_bigr[BIG];
#define FAR 4096
int g_far[FAR]; /* its last element is 16 kB further: in the anonymous part of .bss, after the file-backed rw- mapping */
static int* fstatic(void)
{
  static int f_static = 11;
  return &f_static;
}
enum { V_GBSS, V_GDATA, V_SBSS, V_SDATA, V_FSTATIC, V_GFAR, NVARS };
static const char* const vname[NVARS] = {"g_bss", "g_data", "s_bss", "s_data", "f_static", "g_far_last"};

struct st { /* lives in main's frame */
  int rank, np, idx, step, nsync, pviol;
  long exp[NVARS];
  long checks, writes, viol, progs;
  const char *a, *b;
  int pattern;
};

static int* var(int v)
{
  switch (v) {
    case V_GBSS:
      return &g_bss;
    case V_GDATA:
      return &g_data;
    case V_SBSS:
      return &s_bss;
    case V_SDATA:
      return &s_data;
    case V_GFAR:
      return &g_far[FAR - 1];
    default:
      return fstatic();
  }
}

static void viol(struct st* s, const char* what, const char* var_name, long got, long exp)
{
  long w           = got / 1000000 - 1;
  const char* kind = (w >= 0 && w < s->np && w != s->rank) ? "foreign-value" : "wrong-value";
  s->viol++;
  if (s->pviol++ < 12) /* at most twelve records per program and rank */
    printf("V kind=%s%s prog=%s:%s:%d idx=%d np=%d rank=%d step=%d var=%s got=%ld exp=%ld\n", what, kind, s->a, s->b,
           s->pattern, s->idx, s->np, s->rank, s->step, var_name, got, exp);
}

static void check(struct st* s)
{
  for (int v = 0; v < NVARS; v++) {
    s->checks++;
    long got = *var(v);
    if (got != s->exp[v])
      viol(s, "", vname[v], got, s->exp[v]);
  }
}

static void write_vars(struct st* s, int first, int last, long serial)
{
  for (int v = first; v <= last; v++) {
    long val  = (long)(s->rank + 1) * 1000000 + serial;
    *var(v)   = (int)val;
    s->exp[v] = val;
    s->writes++;
  }
}

static void ring(struct st* s, int big)
{
  int right = (s->rank + 1) % s->np, left = (s->rank + s->np - 1) % s->np;
  /* the k-th collective op of the program: the same k on every rank, whatever its own step number is */
  long mine = (long)(s->rank + 1) * 1000000 + 500000 + (s->idx * 4 + s->nsync) % 400000;
  long from = (long)(left + 1) * 1000000 + 500000 + (s->idx * 4 + s->nsync) % 400000;
  s->nsync++;
  MPI_Status status;
  if (big) {
    for (int i = 0; i < BIG; i++) {
      g_bigs[i] = (int)mine;
      g_bigr[i] = -1;
    }
    MPI_Sendrecv(g_bigs, BIG, MPI_INT, right, 7, g_bigr, BIG, MPI_INT, left, 7, MPI_COMM_WORLD, &status);
    for (int i = 0; i < BIG; i++) {
      s->checks += 2;
      if (g_bigr[i] != from) {
        viol(s, "ring-recv-", "g_bigr", g_bigr[i], from);
        break;
      }
      if (g_bigs[i] != mine) {
        viol(s, "ring-sendbuf-", "g_bigs", g_bigs[i], mine);
        break;
      }
    }
  } else {
    g_xfer = (int)mine;
    g_recv = -1;
    MPI_Sendrecv(&g_xfer, 1, MPI_INT, right, 5, &g_recv, 1, MPI_INT, left, 5, MPI_COMM_WORLD, &status);
    s->checks += 2;
    if (g_recv != from)
      viol(s, "ring-recv-", "g_recv", g_recv, from);
    if (g_xfer != mine)
      viol(s, "ring-sendbuf-", "g_xfer", g_xfer, mine);
  }
}

static void run_program(struct st* s, const char* ops)
{
  /* common prefix: fresh rank-specific values everywhere, then a barrier (every rank has been switched in and out) */
  s->step  = -1;
  s->nsync = 0;
  s->pviol = 0;
  write_vars(s, 0, NVARS - 1, (long)(s->idx % 20000) * 16);
  MPI_Barrier(MPI_COMM_WORLD);
  check(s);
  if (strcmp(ops, "-") != 0)
    for (s->step = 0; ops[s->step]; s->step++) {
      long serial = (long)(s->idx % 20000) * 16 + 1 + s->step;
      switch (ops[s->step]) {
        case 'G':
          write_vars(s, V_GBSS, V_GDATA, serial);
          write_vars(s, V_GFAR, V_GFAR, serial);
          break;
        case 'S':
          write_vars(s, V_SBSS, V_FSTATIC, serial);
          break;
        case 'C':
          check(s);
          break;
        case 'B':
          MPI_Barrier(MPI_COMM_WORLD);
          check(s);
          break;
        case 'R':
          ring(s, 0);
          check(s);
          break;
        case 'Q':
          ring(s, 1);
          check(s);
          break;
        case 'Z':
          usleep((useconds_t)(1000 * (1 + (s->rank * 2 + s->idx) % 3)));
          check(s);
          break;
        default:
          fprintf(stderr, "bad op %c\n", ops[s->step]);
          MPI_Abort(MPI_COMM_WORLD, 2);
      }
    }
  s->step = 9;
  check(s);
  s->progs++;
}

int main(int argc, char** argv)
{
  struct st s;
  memset(&s, 0, sizeof s);
  MPI_Init(&argc, &argv);
  MPI_Comm_rank(MPI_COMM_WORLD, &s.rank);
  MPI_Comm_size(MPI_COMM_WORLD, &s.np);
  if (argc < 4) {
    fprintf(stderr, "usage: priv file first last\n");
    MPI_Abort(MPI_COMM_WORLD, 2);
  }
  int first = atoi(argv[2]), last = atoi(argv[3]);
  /* initial values of the loader, before anything was written */
  s.exp[V_GBSS] = 0, s.exp[V_GDATA] = 7, s.exp[V_SBSS] = 0, s.exp[V_SDATA] = 9, s.exp[V_FSTATIC] = 11, s.exp[V_GFAR] = 0;
  s.a = s.b = "init";
  s.idx     = -1;
  check(&s);
  FILE* f = fopen(argv[1], "r");
  if (f == NULL) {
    fprintf(stderr, "cannot open %s\n", argv[1]);
    MPI_Abort(MPI_COMM_WORLD, 2);
  }
  char a[16], b[16];
  int pattern;
  for (int idx = 0; fscanf(f, "%15s %15s %d", a, b, &pattern) == 3; idx++) {
    if (idx < first || idx >= last)
      continue;
    s.idx     = idx;
    s.a       = a;
    s.b       = b;
    s.pattern = pattern;
    int useA  = pattern == 0 ? s.rank == 0 : s.rank % 2 == 0;
    if (s.rank == 0 && idx % 16 == 0) { /* progress marker: a crash is located in [idx, idx+16) and bisected by the driver */
      printf("P idx=%d\n", idx);
      fflush(stdout);
    }
    run_program(&s, useA ? a : b);
  }
  fclose(f);
  printf("N rank=%d np=%d progs=%ld checks=%ld writes=%ld viol=%ld\n", s.rank, s.np, s.progs, s.checks, s.writes, s.viol);
  MPI_Finalize();
  return 0;
}
