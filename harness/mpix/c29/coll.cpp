// C29 interpreter: runs a range of (np, root, count, type, op, variant) cases of ONE collective inside one SMPI
// simulation (world = 17 ranks, communicator sizes 1..17 obtained with MPI_Comm_split) and compares the buffers of every
// rank with a sequential reference computed locally from a pure value function.  Built with smpicxx, run by smpimain.
//
//   coll <name> <grid q|t> list                      rank 0 prints "C id np root count ty op var nontrivial" and exits
//   coll <name> <grid q|t> run <scorefile> [sizes=lo-hi] [nocatch] a:b ...   runs case ids in [a,b) for every range
//
// "REFUSED id rank=r msg=..." : the algorithm threw std::invalid_argument (its explicit refusal) for this case.
// Output (line buffered): "BAD id rank=r kind=K idx=i got=.. exp=.." (first mismatch of a rank in a case),
// "ERR id rank=r code=c" (MPI call returned an error code), "DONE rank" when a rank has finished all its cases.
// scorefile: int32 cur[32] (case id a rank is inside, -1 between cases, -2 finished) + int32 enter[32] (barrier stamps)
// + int32 last[32] (last case a rank started),
// mmap'ed MAP_SHARED so that it survives a crash of the simulation.
#include <mpi.h>
#include <cstdio>
#include <cstdlib>
#include <cstring>
#include <cstdint>
#include <string>
#include <vector>
#include <algorithm>
#include <stdexcept>
#include <sys/mman.h>
#include <fcntl.h>
#include <unistd.h>

enum Kind { BCAST, REDUCE, ALLREDUCE, ALLGATHER, ALLGATHERV, ALLTOALL, ALLTOALLV, GATHER, SCATTER, REDUCE_SCATTER, BARRIER,
            GATHERV, SCATTERV, SCAN, EXSCAN, ALLTOALLW, REDUCE_SCATTER_BLOCK, NKIND };
static const char* kind_names[NKIND] = {"bcast", "reduce", "allreduce", "allgather", "allgatherv", "alltoall", "alltoallv",
                                        "gather", "scatter", "reduce_scatter", "barrier", "gatherv", "scatterv", "scan",
                                        "exscan", "alltoallw", "reduce_scatter_block"};
enum Op { SUM, PROD, MAX, MIN, MAXLOC, BXOR, USER, NOOP };
enum Ty { TINT, TDOUBLE, TDERIVED };

struct Case { int id, np, root, count, ty, op, var; };

static bool is_rooted(int k) { return k == BCAST || k == REDUCE || k == GATHER || k == SCATTER || k == GATHERV || k == SCATTERV; }
static bool is_reduction(int k) { return k == REDUCE || k == ALLREDUCE || k == REDUCE_SCATTER || k == SCAN || k == EXSCAN || k == REDUCE_SCATTER_BLOCK; }
static int nvariants(int k)
{
  switch (k) {
    case ALLGATHERV: case ALLTOALLV: case GATHERV: case SCATTERV: case ALLTOALLW: case REDUCE_SCATTER: return 2;
    case BARRIER: return 3;
    default: return 1;
  }
}

static std::vector<Case> enumerate(int kind, bool quick)
{
  std::vector<Case> out;
  std::vector<int> sizes;
  if (quick) sizes = {1, 2, 3, 4, 5, 8};
  else for (int n = 1; n <= 17; n++) sizes.push_back(n);
  for (int np : sizes) {
    std::vector<int> counts, roots;
    if (kind == BARRIER) counts = {0};
    else if (quick) counts = {0, 1, np + 1};
    else counts = {0, 1, 2, np - 1, np, np + 1, 1000};
    std::sort(counts.begin(), counts.end());
    counts.erase(std::unique(counts.begin(), counts.end()), counts.end());
    if (!is_rooted(kind)) roots = {0};
    else if (quick) { roots = {0}; if (np > 1) roots.push_back(np - 1); }
    else for (int r = 0; r < np; r++) roots.push_back(r);
    for (int count : counts)
      for (int ty = 0; ty < (kind == BARRIER ? 1 : 3); ty++) {
        std::vector<int> ops;
        if (!is_reduction(kind)) ops = {NOOP};
        else if (ty == TINT) ops = {SUM, PROD, MAX, MIN, MAXLOC, BXOR, USER};
        else if (ty == TDOUBLE) ops = {SUM, PROD, MAX, MIN, MAXLOC, USER};
        else ops = {USER};
        for (int op : ops)
          for (int root : roots)
            for (int var = 0; var < nvariants(kind); var++)
              out.push_back(Case{(int)out.size(), np, root, count, ty, op, var});
      }
  }
  return out;
}

// ------------------------------------------------------------------------------------------------ element types
static inline uint32_t mix(uint32_t a, uint32_t b, uint32_t c)
{
  uint32_t h = a * 2654435761u ^ (b + 0x9e3779b9u) * 40503u ^ (c + 77u) * 2246822519u;
  h ^= h >> 15; h *= 2246822519u; h ^= h >> 13; h *= 3266489917u; h ^= h >> 16;
  return h;
}
// scalar generator for reductions: small integers so that double arithmetic is exact in any association order
static inline int gen_scalar(int op, uint32_t h)
{
  switch (op) {
    case PROD: { static const int t[5] = {1, 2, -1, 1, 1}; return t[h % 5]; }
    case MAX: case MIN: return (int)(h % 23) - 11;
    case BXOR: return (int)h;
    case MAXLOC: return (int)(h % 3);
    case USER: return 1 + (int)(h % 4);
    default: return (int)(h % 9) - 3;
  }
}
static inline int user_int(int a, int b) { return (int)(((uint32_t)a + 1u) * ((uint32_t)b + 1u) - 1u); } // assoc+commut in Z/2^32

struct EI { int v; };
struct ED { double v; };
struct E2 { int a, b; };
struct PII { int v, i; };
struct PDI { double v; int i; };

template <class T> static T tfold(int op, T a, T b)
{
  switch (op) {
    case SUM: return a + b;
    case PROD: return a * b;
    case MAX: return a > b ? a : b;
    case MIN: return a < b ? a : b;
    default: abort();
  }
}
struct TrEI { typedef EI E; static E gen(int op, int rank, uint32_t h) { return E{gen_scalar(op, h)}; }
  static E mv(int tag, long idx) { return E{tag * 4096 + (int)idx + 1}; }
  static E fold(int op, E a, E b) { if (op == BXOR) return E{a.v ^ b.v}; if (op == USER) return E{user_int(a.v, b.v)}; return E{tfold<int>(op, a.v, b.v)}; }
  static bool eq(E a, E b) { return a.v == b.v; } static double num(E a) { return a.v; } };
struct TrED { typedef ED E; static E gen(int op, int rank, uint32_t h) { return E{(double)gen_scalar(op, h)}; }
  static E mv(int tag, long idx) { return E{tag * 4096.0 + idx + 1 + 0.5}; }
  static E fold(int op, E a, E b) { if (op == USER) return E{a.v + b.v + 1}; return E{tfold<double>(op, a.v, b.v)}; }
  static bool eq(E a, E b) { return a.v == b.v; } static double num(E a) { return a.v; } };
struct TrE2 { typedef E2 E; static E gen(int op, int rank, uint32_t h) { return E{gen_scalar(USER, h), gen_scalar(SUM, h >> 8)}; }
  static E mv(int tag, long idx) { return E{tag * 4096 + (int)idx + 1, -(tag * 4096 + (int)idx + 1)}; }
  static E fold(int op, E a, E b) { return E{user_int(a.a, b.a), a.b + b.b + 1}; }
  static bool eq(E a, E b) { return a.a == b.a && a.b == b.b; } static double num(E a) { return a.a * 1e6 + a.b; } };
struct TrPII { typedef PII E; static E gen(int op, int rank, uint32_t h) { return E{gen_scalar(MAXLOC, h), rank}; }
  static E mv(int tag, long idx) { return E{tag, (int)idx}; }
  static E fold(int op, E a, E b) { if (a.v > b.v) return a; if (b.v > a.v) return b; return E{a.v, a.i < b.i ? a.i : b.i}; }
  static bool eq(E a, E b) { return a.v == b.v && a.i == b.i; } static double num(E a) { return a.v * 100 + a.i; } };
struct TrPDI { typedef PDI E; static E gen(int op, int rank, uint32_t h) { E e; memset(&e, 0, sizeof e); e.v = gen_scalar(MAXLOC, h); e.i = rank; return e; }
  static E mv(int tag, long idx) { E e; memset(&e, 0, sizeof e); e.v = tag; e.i = (int)idx; return e; }
  static E fold(int op, E a, E b) { if (a.v > b.v) return a; if (b.v > a.v) return b; E e = a; e.i = a.i < b.i ? a.i : b.i; return e; }
  static bool eq(E a, E b) { return a.v == b.v && a.i == b.i; } static double num(E a) { return a.v * 100 + a.i; } };

// ------------------------------------------------------------------------------------------------ per-rank context
// No mutable global anywhere in this file: the program is run with smpi/privatization:no (all ranks share the globals).
struct Ctx { MPI_Datatype derived; MPI_Op user; int32_t* score; int wrank; };

static void user_fn(void* in, void* inout, int* len, MPI_Datatype* dt)
{
  if (*dt == MPI_INT) { int* a = (int*)in; int* b = (int*)inout; for (int i = 0; i < *len; i++) b[i] = user_int(a[i], b[i]); }
  else if (*dt == MPI_DOUBLE) { double* a = (double*)in; double* b = (double*)inout; for (int i = 0; i < *len; i++) b[i] = a[i] + b[i] + 1; }
  else {
    int sz = 0; MPI_Type_size(*dt, &sz);   // the only other type the interpreter reduces with the user op: contiguous(2, MPI_INT)
    if (sz != (int)sizeof(E2)) { printf("HARNESS-ERROR user op called with an unexpected datatype\n"); fflush(stdout); abort(); }
    E2* a = (E2*)in; E2* b = (E2*)inout; for (int i = 0; i < *len; i++) b[i] = TrE2::fold(USER, a[i], b[i]);
  }
}

static MPI_Op mpi_op(int op, MPI_Op g_user)
{
  switch (op) { case SUM: return MPI_SUM; case PROD: return MPI_PROD; case MAX: return MPI_MAX; case MIN: return MPI_MIN;
    case MAXLOC: return MPI_MAXLOC; case BXOR: return MPI_BXOR; case USER: return g_user; default: return MPI_OP_NULL; }
}

// canary-framed typed buffer
static const size_t GUARD = 64;
template <class E> struct Buf {
  std::vector<unsigned char> mem; size_t n;
  explicit Buf(size_t n_) : mem(2 * GUARD + n_ * sizeof(E) + 1), n(n_) { memset(mem.data(), 0xC3, mem.size()); memset(mem.data() + GUARD, 0xA5, n * sizeof(E)); }
  E* p() { return (E*)(mem.data() + GUARD); }
  E& operator[](size_t i) { return p()[i]; }
  bool guards_ok() const { for (size_t i = 0; i < GUARD; i++) if (mem[i] != 0xC3 || mem[GUARD + n * sizeof(E) + i] != 0xC3) return false; return true; }
  bool untouched(size_t i) const { const unsigned char* q = mem.data() + GUARD + i * sizeof(E); for (size_t k = 0; k < sizeof(E); k++) if (q[k] != 0xA5) return false; return true; }
};

struct Rep { const Case* c; int rank; bool failed; };
static void bad(Rep& rp, const char* kind, long idx, double got, double exp)
{
  if (rp.failed) return;
  rp.failed = true;
  printf("BAD %d rank=%d kind=%s idx=%ld got=%.17g exp=%.17g\n", rp.c->id, rp.rank, kind, idx, got, exp);
}

static inline int cntv(int count, int j) { return count - std::min(count, j % 3); }

// hand-made dissemination barrier with point-to-point messages on a private communicator (nothing under test in it)
static void p2p_barrier(MPI_Comm comm, int rank, int np)
{
  char s = 0, r = 0;
  for (int d = 1; d < np; d <<= 1)
    MPI_Sendrecv(&s, 1, MPI_CHAR, (rank + d) % np, 7777, &r, 1, MPI_CHAR, (rank - d + np) % np, 7777, comm, MPI_STATUS_IGNORE);
}

#define CALL(blocking, nonblocking)                                                                                     \
  do {                                                                                                                 \
    if (!nb) rc = blocking;                                                                                            \
    else { MPI_Request rq = MPI_REQUEST_NULL; rc = nonblocking; if (rc == MPI_SUCCESS) rc = MPI_Wait(&rq, MPI_STATUS_IGNORE); }          \
  } while (0)

template <class Tr> static void run_case(const Ctx& cx, int kind, bool nb, const Case& c, MPI_Comm comm, int rank, MPI_Datatype dt)
{
  typedef typename Tr::E E;
  const int n = c.np, cnt = c.count, root = c.root, op = c.op;
  Rep rp{&c, rank, false};
  int rc = MPI_SUCCESS;
  MPI_Op mop = mpi_op(op, cx.user);
  auto rgen = [&](int r, long idx) { return Tr::gen(op, r, mix(c.id, r, (uint32_t)idx)); };
  auto redref = [&](int upto, long idx) { E acc = rgen(0, idx); for (int r = 1; r < upto; r++) acc = Tr::fold(op, acc, rgen(r, idx)); return acc; };
  auto check_send = [&](Buf<E>& s, std::vector<E>& copy) {
    if (!s.guards_ok()) bad(rp, "overrun-send", -1, 0, 0);
    for (size_t i = 0; i < copy.size(); i++) if (memcmp(&s[i], &copy[i], sizeof(E))) { bad(rp, "sendbuf-modified", i, Tr::num(s[i]), Tr::num(copy[i])); break; }
  };
  auto snapshot = [&](Buf<E>& s) { return std::vector<E>(s.p(), s.p() + s.n); };
  auto expect = [&](Buf<E>& b, size_t i, E e) { if (!rp.failed && !Tr::eq(b[i], e)) bad(rp, b.untouched(i) ? "missing" : "wrong", i, Tr::num(b[i]), Tr::num(e)); };
  auto expect_untouched = [&](Buf<E>& b, size_t i) { if (!rp.failed && !b.untouched(i)) bad(rp, "gap-written", i, Tr::num(b[i]), 0); };

  switch (kind) {
    case BCAST: {
      Buf<E> b(cnt);
      if (rank == root) for (int i = 0; i < cnt; i++) b[i] = Tr::mv(root, i);
      CALL(MPI_Bcast(b.p(), cnt, dt, root, comm), MPI_Ibcast(b.p(), cnt, dt, root, comm, &rq));
      if (rc) break;
      if (!b.guards_ok()) bad(rp, "overrun", -1, 0, 0);
      for (int i = 0; i < cnt; i++) expect(b, i, Tr::mv(root, i));
      break;
    }
    case REDUCE: case ALLREDUCE: case SCAN: case EXSCAN: {
      Buf<E> s(cnt), r(cnt);
      for (int i = 0; i < cnt; i++) s[i] = rgen(rank, i);
      auto copy = snapshot(s);
      if (kind == REDUCE) CALL(MPI_Reduce(s.p(), r.p(), cnt, dt, mop, root, comm), MPI_Ireduce(s.p(), r.p(), cnt, dt, mop, root, comm, &rq));
      else if (kind == ALLREDUCE) CALL(MPI_Allreduce(s.p(), r.p(), cnt, dt, mop, comm), MPI_Iallreduce(s.p(), r.p(), cnt, dt, mop, comm, &rq));
      else if (kind == SCAN) CALL(MPI_Scan(s.p(), r.p(), cnt, dt, mop, comm), MPI_Iscan(s.p(), r.p(), cnt, dt, mop, comm, &rq));
      else CALL(MPI_Exscan(s.p(), r.p(), cnt, dt, mop, comm), MPI_Iexscan(s.p(), r.p(), cnt, dt, mop, comm, &rq));
      if (rc) break;
      if (!r.guards_ok()) bad(rp, "overrun", -1, 0, 0);
      check_send(s, copy);
      if (kind == REDUCE && rank != root) break; // recvbuf not significant
      if (kind == EXSCAN && rank == 0) break;    // undefined on rank 0
      int upto = kind == SCAN ? rank + 1 : kind == EXSCAN ? rank : n;
      for (int i = 0; i < cnt; i++) expect(r, i, redref(upto, i));
      break;
    }
    case REDUCE_SCATTER: case REDUCE_SCATTER_BLOCK: {
      std::vector<int> rc_(n), off(n + 1, 0);
      for (int j = 0; j < n; j++) { rc_[j] = (kind == REDUCE_SCATTER && c.var == 1) ? cntv(cnt, j) : cnt; off[j + 1] = off[j] + rc_[j]; }
      Buf<E> s(off[n]), r(rc_[rank]);
      for (int i = 0; i < off[n]; i++) s[i] = rgen(rank, i);
      auto copy = snapshot(s);
      if (kind == REDUCE_SCATTER) CALL(MPI_Reduce_scatter(s.p(), r.p(), rc_.data(), dt, mop, comm), MPI_Ireduce_scatter(s.p(), r.p(), rc_.data(), dt, mop, comm, &rq));
      else CALL(MPI_Reduce_scatter_block(s.p(), r.p(), cnt, dt, mop, comm), MPI_Ireduce_scatter_block(s.p(), r.p(), cnt, dt, mop, comm, &rq));
      if (rc) break;
      if (!r.guards_ok()) bad(rp, "overrun", -1, 0, 0);
      check_send(s, copy);
      for (int i = 0; i < rc_[rank]; i++) expect(r, i, redref(n, off[rank] + i));
      break;
    }
    case ALLGATHER: case GATHER: {
      Buf<E> s(cnt), r((size_t)n * cnt);
      for (int i = 0; i < cnt; i++) s[i] = Tr::mv(rank, i);
      auto copy = snapshot(s);
      if (kind == ALLGATHER) CALL(MPI_Allgather(s.p(), cnt, dt, r.p(), cnt, dt, comm), MPI_Iallgather(s.p(), cnt, dt, r.p(), cnt, dt, comm, &rq));
      else CALL(MPI_Gather(s.p(), cnt, dt, r.p(), cnt, dt, root, comm), MPI_Igather(s.p(), cnt, dt, r.p(), cnt, dt, root, comm, &rq));
      if (rc) break;
      if (!r.guards_ok()) bad(rp, "overrun", -1, 0, 0);
      check_send(s, copy);
      if (kind == GATHER && rank != root) break;
      for (int j = 0; j < n; j++) for (int i = 0; i < cnt; i++) expect(r, (size_t)j * cnt + i, Tr::mv(j, i));
      break;
    }
    case ALLGATHERV: case GATHERV: {
      int gap = c.var;
      std::vector<int> cs(n), ds(n); int tot = 0;
      for (int j = 0; j < n; j++) { cs[j] = c.var ? cntv(cnt, j) : cnt; ds[j] = tot; tot += cs[j] + gap; }
      Buf<E> s(cs[rank]), r(tot);
      for (int i = 0; i < cs[rank]; i++) s[i] = Tr::mv(rank, i);
      auto copy = snapshot(s);
      if (kind == ALLGATHERV) CALL(MPI_Allgatherv(s.p(), cs[rank], dt, r.p(), cs.data(), ds.data(), dt, comm), MPI_Iallgatherv(s.p(), cs[rank], dt, r.p(), cs.data(), ds.data(), dt, comm, &rq));
      else CALL(MPI_Gatherv(s.p(), cs[rank], dt, r.p(), cs.data(), ds.data(), dt, root, comm), MPI_Igatherv(s.p(), cs[rank], dt, r.p(), cs.data(), ds.data(), dt, root, comm, &rq));
      if (rc) break;
      if (!r.guards_ok()) bad(rp, "overrun", -1, 0, 0);
      check_send(s, copy);
      if (kind == GATHERV && rank != root) break;
      for (int j = 0; j < n; j++) {
        for (int i = 0; i < cs[j]; i++) expect(r, ds[j] + i, Tr::mv(j, i));
        for (int g = 0; g < gap; g++) expect_untouched(r, ds[j] + cs[j] + g);
      }
      break;
    }
    case SCATTER: {
      Buf<E> s(rank == root ? (size_t)n * cnt : 0), r(cnt);
      if (rank == root) for (int j = 0; j < n; j++) for (int i = 0; i < cnt; i++) s[(size_t)j * cnt + i] = Tr::mv(j, i);
      auto copy = snapshot(s);
      CALL(MPI_Scatter(s.p(), cnt, dt, r.p(), cnt, dt, root, comm), MPI_Iscatter(s.p(), cnt, dt, r.p(), cnt, dt, root, comm, &rq));
      if (rc) break;
      if (!r.guards_ok()) bad(rp, "overrun", -1, 0, 0);
      check_send(s, copy);
      for (int i = 0; i < cnt; i++) expect(r, i, Tr::mv(rank, i));
      break;
    }
    case SCATTERV: {
      int gap = c.var;
      std::vector<int> cs(n), ds(n); int tot = 0;
      for (int j = 0; j < n; j++) { cs[j] = c.var ? cntv(cnt, j) : cnt; ds[j] = tot; tot += cs[j] + gap; }
      Buf<E> s(rank == root ? tot : 0), r(cs[rank]);
      if (rank == root) for (int j = 0; j < n; j++) for (int i = 0; i < cs[j]; i++) s[ds[j] + i] = Tr::mv(j, i);
      auto copy = snapshot(s);
      CALL(MPI_Scatterv(s.p(), cs.data(), ds.data(), dt, r.p(), cs[rank], dt, root, comm), MPI_Iscatterv(s.p(), cs.data(), ds.data(), dt, r.p(), cs[rank], dt, root, comm, &rq));
      if (rc) break;
      if (!r.guards_ok()) bad(rp, "overrun", -1, 0, 0);
      check_send(s, copy);
      for (int i = 0; i < cs[rank]; i++) expect(r, i, Tr::mv(rank, i));
      break;
    }
    case ALLTOALL: {
      Buf<E> s((size_t)n * cnt), r((size_t)n * cnt);
      for (int j = 0; j < n; j++) for (int i = 0; i < cnt; i++) s[(size_t)j * cnt + i] = Tr::mv(rank * 32 + j, i);
      auto copy = snapshot(s);
      CALL(MPI_Alltoall(s.p(), cnt, dt, r.p(), cnt, dt, comm), MPI_Ialltoall(s.p(), cnt, dt, r.p(), cnt, dt, comm, &rq));
      if (rc) break;
      if (!r.guards_ok()) bad(rp, "overrun", -1, 0, 0);
      check_send(s, copy);
      for (int j = 0; j < n; j++) for (int i = 0; i < cnt; i++) expect(r, (size_t)j * cnt + i, Tr::mv(j * 32 + rank, i));
      break;
    }
    case ALLTOALLV: case ALLTOALLW: {
      int gap = c.var;
      auto cnt2 = [&](int from, int to) { return c.var ? cntv(cnt, from + 2 * to) : cnt; };
      std::vector<int> sc(n), sd(n), rcn(n), rd(n); int st = 0, rt = 0;
      for (int j = 0; j < n; j++) { sc[j] = cnt2(rank, j); sd[j] = st; st += sc[j] + gap; rcn[j] = cnt2(j, rank); rd[j] = rt; rt += rcn[j] + gap; }
      Buf<E> s(st), r(rt);
      for (int j = 0; j < n; j++) for (int i = 0; i < sc[j]; i++) s[sd[j] + i] = Tr::mv(rank * 32 + j, i);
      auto copy = snapshot(s);
      if (kind == ALLTOALLV)
        CALL(MPI_Alltoallv(s.p(), sc.data(), sd.data(), dt, r.p(), rcn.data(), rd.data(), dt, comm), MPI_Ialltoallv(s.p(), sc.data(), sd.data(), dt, r.p(), rcn.data(), rd.data(), dt, comm, &rq));
      else {
        std::vector<int> sdb(n), rdb(n); std::vector<MPI_Datatype> ts(n, dt);
        for (int j = 0; j < n; j++) { sdb[j] = sd[j] * (int)sizeof(E); rdb[j] = rd[j] * (int)sizeof(E); }
        CALL(MPI_Alltoallw(s.p(), sc.data(), sdb.data(), ts.data(), r.p(), rcn.data(), rdb.data(), ts.data(), comm), MPI_Ialltoallw(s.p(), sc.data(), sdb.data(), ts.data(), r.p(), rcn.data(), rdb.data(), ts.data(), comm, &rq));
      }
      if (rc) break;
      if (!r.guards_ok()) bad(rp, "overrun", -1, 0, 0);
      check_send(s, copy);
      for (int j = 0; j < n; j++) {
        for (int i = 0; i < rcn[j]; i++) expect(r, rd[j] + i, Tr::mv(j * 32 + rank, i));
        for (int g = 0; g < gap; g++) expect_untouched(r, rd[j] + rcn[j] + g);
      }
      break;
    }
    case BARRIER: {
      int32_t* enter = cx.score + 32;
      int d = c.var == 0 ? rank : c.var == 1 ? n - 1 - rank : (rank == n - 1 ? 5 : 0);
      if (d) smpi_usleep(1000 * d);
      enter[rank] = c.id;
      CALL(MPI_Barrier(comm), MPI_Ibarrier(comm, &rq));
      if (rc) break;
      for (int j = 0; j < n; j++) if (enter[j] != c.id) { bad(rp, "left-before-entered", j, enter[j], c.id); break; }
      break;
    }
  }
  if (rc != MPI_SUCCESS) { int cls = 0; MPI_Error_class(rc, &cls); printf("ERR %d rank=%d code=%d class=%d\n", c.id, rank, rc, cls); }
}

int main(int argc, char** argv)
{
  MPI_Init(&argc, &argv);
  setvbuf(stdout, nullptr, _IOLBF, 0);
  int wsize;
  Ctx cx;
  int& g_wrank = cx.wrank;
  MPI_Comm_rank(MPI_COMM_WORLD, &g_wrank);
  MPI_Comm_size(MPI_COMM_WORLD, &wsize);
  if (argc < 4) { if (!g_wrank) fprintf(stderr, "usage: coll <name> <q|t> list | run <scorefile> a:b ...\n"); MPI_Finalize(); return 2; }
  std::string name = argv[1];
  bool nb = false;
  int kind = -1;
  for (int k = 0; k < NKIND; k++) if (name == kind_names[k]) kind = k;
  if (kind < 0 && name[0] == 'i') { for (int k = 0; k < NKIND; k++) if (name.substr(1) == kind_names[k]) { kind = k; nb = true; } }
  if (kind < 0) { if (!g_wrank) fprintf(stderr, "unknown collective %s\n", argv[1]); MPI_Finalize(); return 2; }
  bool quick = argv[2][0] == 'q';
  std::vector<Case> cases = enumerate(kind, quick);
  if (!strcmp(argv[3], "list")) {
    if (!g_wrank) for (auto& c : cases) {
      bool moves = kind == BARRIER ? c.np >= 2 : (c.np >= 2 && c.count >= 1);
      printf("C %d %d %d %d %d %d %d %d\n", c.id, c.np, c.root, c.count, c.ty, c.op, c.var, (int)moves);
    }
    MPI_Finalize();
    return 0;
  }
  if (argc < 6) { MPI_Finalize(); return 2; }
  int fd = open(argv[4], O_RDWR);
  if (fd < 0) { perror("scorefile"); abort(); }
  int32_t*& g_score = cx.score;
  g_score = (int32_t*)mmap(nullptr, 4096, PROT_READ | PROT_WRITE, MAP_SHARED, fd, 0);
  close(fd);
  std::vector<std::pair<int, int>> ranges;
  bool nocatch = false;
  for (int a = 5; a < argc; a++) if (!strcmp(argv[a], "nocatch")) nocatch = true;
  for (int a = 5; a < argc; a++) { int lo, hi; if (sscanf(argv[a], "%d:%d", &lo, &hi) == 2) ranges.push_back({lo, hi}); }

  MPI_Type_contiguous(2, MPI_INT, &cx.derived);
  MPI_Type_commit(&cx.derived);
  MPI_Op_create(user_fn, 1, &cx.user);
  std::vector<MPI_Comm> comm(wsize + 1, MPI_COMM_NULL), sync(wsize + 1, MPI_COMM_NULL);
  // All communicator sizes lo..hi are created up front whatever the cases requested, so that a case sees the same
  // library state in a batch and when it is re-run alone (some algorithms are influenced by other communicators).
  // "sizes=2-17": the driver found that creating the 1-rank communicator already dies with this algorithm selected.
  int size_lo = 1, size_hi = wsize;
  for (int a = 5; a < argc; a++) sscanf(argv[a], "sizes=%d-%d", &size_lo, &size_hi);
  for (int np = std::max(1, size_lo); np <= std::min(wsize, size_hi); np++) {
    MPI_Comm_split(MPI_COMM_WORLD, g_wrank < np ? 0 : MPI_UNDEFINED, g_wrank, &comm[np]);
    if (comm[np] != MPI_COMM_NULL) { MPI_Comm_dup(comm[np], &sync[np]); MPI_Comm_set_errhandler(comm[np], MPI_ERRORS_RETURN); }
  }
  g_score[g_wrank] = -1;
  for (auto& rg : ranges)
    for (int id = std::max(0, rg.first); id < rg.second && id < (int)cases.size(); id++) {
      const Case& c = cases[id];
      if (g_wrank >= c.np || c.np < size_lo || c.np > size_hi) continue;
      int rank;
      MPI_Comm_rank(comm[c.np], &rank);
      p2p_barrier(sync[c.np], rank, c.np);
      g_score[g_wrank] = id;
      g_score[64 + g_wrank] = id;   // last case started (kept): the suspect when a run dies between two cases
      try {
        if (c.op == MAXLOC) {
          if (c.ty == TINT) run_case<TrPII>(cx, kind, nb, c, comm[c.np], rank, MPI_2INT);
          else run_case<TrPDI>(cx, kind, nb, c, comm[c.np], rank, MPI_DOUBLE_INT);
        } else if (c.ty == TINT) run_case<TrEI>(cx, kind, nb, c, comm[c.np], rank, MPI_INT);
        else if (c.ty == TDOUBLE) run_case<TrED>(cx, kind, nb, c, comm[c.np], rank, MPI_DOUBLE);
        else run_case<TrE2>(cx, kind, nb, c, comm[c.np], rank, cx.derived);
      } catch (const std::invalid_argument& e) {
        // the algorithm's explicit refusal ("... can't be used with ..."): thrown on entry, before any communication.
        // With "nocatch" on the command line the exception is left alone and aborts the run as it does for a user.
        if (nocatch) throw;
        printf("REFUSED %d rank=%d msg=%s\n", c.id, rank, e.what());
      }
      g_score[g_wrank] = -1;
    }
  g_score[g_wrank] = -2;
  printf("DONE %d\n", g_wrank);
  MPI_Finalize();
  return 0;
}
