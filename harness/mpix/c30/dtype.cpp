/* C30 — derived datatypes: layout (size / lb / ub / extent) and data movement of every type tree of a bounded family.
 *
 * A tree is a chain  C1[ C2[ ... [leaf] ] ]  of constructor instances (a struct instance may in addition place the leaf next
 * to its sub-tree). Constructor instances come from two alphabets: FULL (every parameter in {0,1,2,3}, index lists of 1..2
 * blocks) and SMALL (about 30 hand-picked instances with parameters in {1,2,3}: contiguous, gapped, overlapping, unsorted,
 * shifted, resized smaller / larger than the content, 1-D and 2-D sub-arrays). Families (argv "fam"):
 *   1   FULL[leaf]                                   2a  FULL[SMALL[leaf]]        2b  SMALL[FULL[leaf]]      2f  FULL[FULL[leaf]]
 *   3a  FULL[SMALL[SMALL[leaf]]]   3b  SMALL[FULL[SMALL[leaf]]]   3c  SMALL[SMALL[FULL[leaf]]]
 * leaf = B (MPI_BYTE, byte parameters in bytes) or I (MPI_INT, byte parameters x4, so that everything stays int-aligned).
 *
 * Reference model (MPI-3.1 section 4.1, written here from the standard): a datatype is its type map = ordered list of
 * (displacement, length) byte segments, plus lb/ub:
 *   copies of T placed at displacements d_k:  segments = concat_k (d_k + seg(T));  lb = min_k d_k+lb(T);  ub = max_k d_k+ub(T)
 *   contiguous(n) d_k = k*ex   vector(n,bl,s) d = (j*s+i)*ex   hvector d = j*S+i*ex   indexed d = (D_j+i)*ex   hindexed d = D_j+i*ex
 *   struct d = D_j + i*ex_j (per-block types)   resized(lb,ext): same segments, lb:=lb, ub:=lb+ext (sticky markers)
 *   subarray: elements of the sub-box in the given order at (linear index in the full array)*ex, lb:=0, ub:=prod(sizes)*ex (sticky)
 *   sticky rule of MPI (a marker overrides the entries) vs plain min/max: when both readings differ for a tree, both are accepted.
 *   A tree containing an empty component (count/blocklength 0) has unconstrained lb/ub/extent (only its size and its data
 *   movement are checked): MPI defines min/max over an empty type map nowhere. The model then adopts the implementation's
 *   lb/ub for that sub-tree, since they decide where its copies go inside the enclosing constructors.
 * count copies of T for a buffer: copy c at c*extent(T).
 *
 * Tests per tree (counts 0..3):  size, lb, ub, extent;  Pack (typed -> bytes), Unpack (bytes -> typed, canary everywhere else),
 * Sendrecv with oneself typed->leaf-contiguous and leaf-contiguous->typed (Datatype::copy path); in mode p2p: rank 0 sends typed,
 * rank 1 receives contiguous leaves, and back (serialize / unserialize path of real messages).
 * Receiving into / unpacking into a type whose copies overlap is erroneous in MPI and skipped.
 *
 * usage: dtype <mode:local|p2p|name> <fam> <leaf:B|I> <shard> <nshards> <only|-1> <start> [zeromove=1]
 *        zeromove=0: types of size 0 are built and measured but not packed/sent (see the driver: zero-size probe)
 * Minimal-failure attribution: a failure class (size, bounds, gather, scatter, touch, api) of a tree is reported only when no
 * tree obtained by deleting one constructor level fails in the same class; otherwise it is inherited from that smaller tree.
 * records: P idx= (every 512 trees), V first minimal violation per (class, shape), S minimal totals, A all-failure totals,
 *          N counters, X crash (signal handler), T (mode name: the tree of an index) */
#include <mpi.h>

#include <algorithm>
#include <csignal>
#include <cstdio>
#include <cstdlib>
#include <cstring>
#include <map>
#include <string>
#include <unistd.h>
#include <vector>

enum Ctor { CONTIG, VECTOR, HVECTOR, INDEXED, HINDEXED, IDXBLOCK, STRUCT, RESIZED, SUBARRAY };
static const char* cname[] = {"contig", "vector", "hvector", "indexed", "hindexed", "idxblock", "struct", "resized", "subarray"};
/* the class that implements each constructor in smpi_datatype_derived.cpp (Type_Hvector, Type_Hindexed, Type_Struct, ...) */
static const char* cclass[] = {"Vec", "Vec", "Vec", "Idx", "Idx", "Idx", "Struct", "Resized", "Subarray"};

/* one constructor instance; byte parameters are stored in units (multiplied by the leaf unit when used) */
struct Inst {
  Ctor c;
  int n = 0, bl = 0, stride = 0;       /* contig/vector/hvector/idxblock */
  std::vector<int> bls, disps;         /* index lists (element or byte-unit displacements) */
  std::vector<int> kid;                /* struct: 1 = sub-tree, 0 = leaf, per block */
  int lb = 0, ext = 0;                 /* resized: ext >= 0 units, -1 = true extent of the child, -2 = true extent + 1 unit */
  int nd = 0, order = 0;               /* subarray */
  int sizes[2] = {1, 1}, subs[2] = {1, 1}, starts[2] = {0, 0};
  bool has_zero() const /* a zero count / blocklength somewhere in this instance */
  {
    if (c == CONTIG)
      return n == 0;
    if (c == VECTOR || c == HVECTOR)
      return n == 0 || bl == 0;
    if (c == IDXBLOCK)
      return bl == 0 || disps.empty();
    if (c == INDEXED || c == HINDEXED || c == STRUCT) {
      for (int b : bls)
        if (b == 0)
          return true;
      return bls.empty();
    }
    return false;
  }
  std::string str() const
  {
    char b[160];
    std::string s = cname[c];
    auto list     = [](const std::vector<int>& a, const std::vector<int>& d, const std::vector<int>* k) {
      std::string r;
      for (size_t i = 0; i < a.size(); i++) {
        char t[40];
        snprintf(t, sizeof t, "%s%d@%d%s", i ? "," : "", a[i], d[i], k ? ((*k)[i] ? "T" : "L") : "");
        r += t;
      }
      return r.empty() ? std::string("-") : r;
    };
    switch (c) {
      case CONTIG: snprintf(b, sizeof b, "(%d)", n); break;
      case VECTOR:
      case HVECTOR: snprintf(b, sizeof b, "(%d,%d,%d)", n, bl, stride); break;
      case INDEXED:
      case HINDEXED: return s + "(" + list(bls, disps, nullptr) + ")";
      case STRUCT: return s + "(" + list(bls, disps, &kid) + ")";
      case IDXBLOCK: {
        std::string r = "(" + std::to_string(bl) + ":";
        for (size_t i = 0; i < disps.size(); i++)
          r += (i ? "," : "") + std::to_string(disps[i]);
        return s + r + ")";
      }
      case RESIZED: snprintf(b, sizeof b, "(%d,%s)", lb, ext == -1 ? "te" : ext == -2 ? "te+1" : std::to_string(ext).c_str()); break;
      case SUBARRAY:
        if (nd == 1)
          snprintf(b, sizeof b, "(%c:%d/%d+%d)", order ? 'F' : 'C', subs[0], sizes[0], starts[0]);
        else
          snprintf(b, sizeof b, "(%c:%d/%d+%d,%d/%d+%d)", order ? 'F' : 'C', subs[0], sizes[0], starts[0], subs[1], sizes[1], starts[1]);
        break;
    }
    return s + b;
  }
};

/* ------------------------------------------------------------------ alphabets */
static std::vector<Inst> FULL, SMALL;
static void add_lists(std::vector<Inst>& out, Ctor c, bool with_kid)
{
  for (int cnt = 0; cnt <= 2; cnt++) {
    int combos = 1;
    for (int i = 0; i < cnt; i++)
      combos *= 16;
    for (int x = 0; x < combos; x++) {
      Inst t;
      t.c   = c;
      int y = x;
      for (int i = 0; i < cnt; i++) {
        t.bls.push_back(y % 4);
        t.disps.push_back((y / 4) % 4);
        y /= 16;
      }
      if (!with_kid) {
        out.push_back(t);
      } else if (cnt == 0) {
        out.push_back(t);
      } else if (cnt == 1) {
        t.kid = {1};
        out.push_back(t);
      } else {
        for (int k = 1; k <= 3; k++) { /* TT, TL, LT */
          t.kid = {k != 3, k != 2};
          out.push_back(t);
        }
      }
    }
  }
}
static void build_alphabets()
{
  Inst t;
  for (int n = 0; n <= 3; n++) {
    t   = Inst();
    t.c = CONTIG;
    t.n = n;
    FULL.push_back(t);
  }
  for (int h = 0; h < 2; h++)
    for (int n = 0; n <= 3; n++)
      for (int bl = 0; bl <= 3; bl++)
        for (int s = 0; s <= 3; s++) {
          t        = Inst();
          t.c      = h ? HVECTOR : VECTOR;
          t.n      = n;
          t.bl     = bl;
          t.stride = s;
          FULL.push_back(t);
        }
  add_lists(FULL, INDEXED, false);
  add_lists(FULL, HINDEXED, false);
  for (int bl = 0; bl <= 3; bl++)
    for (int cnt = 0; cnt <= 2; cnt++)
      for (int x = 0; x < (cnt == 0 ? 1 : cnt == 1 ? 4 : 16); x++) {
        t    = Inst();
        t.c  = IDXBLOCK;
        t.bl = bl;
        if (cnt >= 1)
          t.disps.push_back(x % 4);
        if (cnt == 2)
          t.disps.push_back(x / 4);
        FULL.push_back(t);
      }
  add_lists(FULL, STRUCT, true);
  for (int lb = 0; lb <= 3; lb++)
    for (int e = -2; e <= 3; e++) {
      t     = Inst();
      t.c   = RESIZED;
      t.lb  = lb;
      t.ext = e;
      FULL.push_back(t);
    }
  for (int order = 0; order < 2; order++) {
    for (int s0 = 1; s0 <= 3; s0++)
      for (int u0 = 1; u0 <= s0; u0++)
        for (int a0 = 0; a0 + u0 <= s0; a0++) {
          t           = Inst();
          t.c         = SUBARRAY;
          t.nd        = 1;
          t.order     = order;
          t.sizes[0]  = s0;
          t.subs[0]   = u0;
          t.starts[0] = a0;
          FULL.push_back(t);
          for (int s1 = 1; s1 <= 3; s1++)
            for (int u1 = 1; u1 <= s1; u1++)
              for (int a1 = 0; a1 + u1 <= s1; a1++) {
                Inst q      = t;
                q.nd        = 2;
                q.sizes[1]  = s1;
                q.subs[1]   = u1;
                q.starts[1] = a1;
                FULL.push_back(q);
              }
        }
  }
  /* SMALL */
  auto S = [&](Inst x) { SMALL.push_back(x); };
  auto V = [&](Ctor c, int n, int bl, int s) {
    Inst x;
    x.c = c, x.n = n, x.bl = bl, x.stride = s;
    return x;
  };
  auto L = [&](Ctor c, std::vector<int> bls, std::vector<int> d, std::vector<int> kid = {}) {
    Inst x;
    x.c = c, x.bls = bls, x.disps = d, x.kid = kid;
    return x;
  };
  auto R = [&](int lb, int e) {
    Inst x;
    x.c = RESIZED, x.lb = lb, x.ext = e;
    return x;
  };
  S(V(CONTIG, 1, 0, 0));
  S(V(CONTIG, 2, 0, 0));
  S(V(VECTOR, 2, 1, 2));
  S(V(VECTOR, 2, 2, 3));
  S(V(VECTOR, 1, 2, 1));
  S(V(VECTOR, 3, 1, 1));
  S(V(VECTOR, 2, 2, 1)); /* overlapping */
  S(V(HVECTOR, 2, 1, 2));
  S(V(HVECTOR, 2, 1, 3));
  S(V(HVECTOR, 2, 2, 1));
  S(L(INDEXED, {1}, {1}));
  S(L(INDEXED, {1, 2}, {0, 2}));
  S(L(INDEXED, {2, 1}, {3, 0})); /* unsorted */
  S(L(HINDEXED, {1}, {1}));
  S(L(HINDEXED, {1, 1}, {0, 3}));
  S(L(HINDEXED, {2, 1}, {2, 0}));
  {
    Inst x;
    x.c = IDXBLOCK, x.bl = 1, x.disps = {1, 0};
    S(x);
    x.bl = 2, x.disps = {0, 3};
    S(x);
  }
  S(L(STRUCT, {1, 1}, {0, 2}, {1, 1}));
  S(L(STRUCT, {1, 2}, {1, 3}, {1, 0}));
  S(L(STRUCT, {2}, {1}, {1}));
  S(L(STRUCT, {1, 1}, {3, 0}, {0, 1}));
  S(R(0, 1));
  S(R(1, 3));
  S(R(0, -1));
  S(R(2, -2));
  S(R(0, 3));
  for (int q = 0; q < 3; q++) {
    Inst x;
    x.c = SUBARRAY;
    if (q == 0)
      x.nd = 1, x.sizes[0] = 3, x.subs[0] = 2, x.starts[0] = 1;
    else
      x.nd = 2, x.order = q - 1, x.sizes[0] = 2, x.sizes[1] = 3, x.subs[0] = 1, x.subs[1] = 2, x.starts[0] = 1, x.starts[1] = 0;
    S(x);
  }
}

/* ------------------------------------------------------------------ model */
struct Seg {
  long d, len;
};
struct Model {
  std::vector<Seg> segs;
  long size = 0, lb = 0, ub = 0;
  bool slb = false, sub_ = false; /* sticky markers present */
  bool has_empty = false;         /* an empty component somewhere below */
  long ext() const { return ub - lb; }
  long tlb() const
  {
    long m = 0;
    bool f = true;
    for (auto& s : segs)
      if (f || s.d < m)
        m = s.d, f = false;
    return m;
  }
  long tub() const
  {
    long m = 0;
    for (auto& s : segs)
      m = std::max(m, s.d + s.len);
    return m;
  }
};
static void push_seg(std::vector<Seg>& v, long d, long len)
{
  if (len <= 0)
    return;
  if (!v.empty() && v.back().d + v.back().len == d)
    v.back().len += len;
  else
    v.push_back({d, len});
}
struct Placer { /* accumulates copies of child models under the sticky or the plain rule */
  bool sticky;
  Model out;
  bool any = false, anyslb = false, anysub = false;
  long lbs = 0, ubs = 0, lbp = 0, ubp = 0;
  bool fs = true, fu = true, fp = true;
  explicit Placer(bool st) : sticky(st) {}
  void place(const Model& c, long d)
  {
    for (auto& s : c.segs)
      push_seg(out.segs, d + s.d, s.len);
    out.size += c.size;
    if (c.has_empty)
      out.has_empty = true;
    long l = d + c.lb, u = d + c.ub;
    if (fp || l < lbp)
      lbp = l;
    if (fp || u > ubp)
      ubp = u;
    fp = false;
    if (c.slb) {
      if (fs || l < lbs)
        lbs = l;
      fs     = false;
      anyslb = true;
    }
    if (c.sub_) {
      if (fu || u > ubs)
        ubs = u;
      fu     = false;
      anysub = true;
    }
    any = true;
  }
  Model done()
  {
    if (!any) {
      out.has_empty = true;
      out.lb = out.ub = 0;
      return out;
    }
    out.lb   = (sticky && anyslb) ? lbs : lbp;
    out.ub   = (sticky && anysub) ? ubs : ubp;
    out.slb  = anyslb;
    out.sub_ = anysub;
    return out;
  }
};
static Model leaf_model(long u)
{
  Model m;
  m.segs = {{0, u}};
  m.size = u;
  m.lb   = 0;
  m.ub   = u;
  return m;
}
static Model apply_model(const Inst& t, const Model& kid, const Model& leaf, long u, bool sticky)
{
  Placer p(sticky);
  long ex = kid.ext();
  switch (t.c) {
    case CONTIG:
      for (int k = 0; k < t.n; k++)
        p.place(kid, k * ex);
      break;
    case VECTOR:
    case HVECTOR:
      for (int j = 0; j < t.n; j++)
        for (int i = 0; i < t.bl; i++)
          p.place(kid, (t.c == VECTOR ? (long)j * t.stride * ex : (long)j * t.stride * u) + i * ex);
      break;
    case INDEXED:
    case HINDEXED:
      for (size_t j = 0; j < t.bls.size(); j++)
        for (int i = 0; i < t.bls[j]; i++)
          p.place(kid, (t.c == INDEXED ? (long)t.disps[j] * ex : (long)t.disps[j] * u) + i * ex);
      break;
    case IDXBLOCK:
      for (size_t j = 0; j < t.disps.size(); j++)
        for (int i = 0; i < t.bl; i++)
          p.place(kid, ((long)t.disps[j] + i) * ex);
      break;
    case STRUCT:
      for (size_t j = 0; j < t.bls.size(); j++) {
        const Model& c = t.kid[j] ? kid : leaf;
        for (int i = 0; i < t.bls[j]; i++)
          p.place(c, (long)t.disps[j] * u + i * c.ext());
      }
      break;
    case RESIZED: {
      Model m = kid;
      long e  = t.ext >= 0 ? t.ext * u : (kid.tub() - kid.tlb()) + (t.ext == -2 ? u : 0);
      m.lb    = t.lb * u;
      m.ub    = m.lb + e;
      m.slb = m.sub_ = true;
      return m;
    }
    case SUBARRAY: {
      long tot = 1;
      for (int d = 0; d < t.nd; d++)
        tot *= t.sizes[d];
      if (t.nd == 1) {
        for (int i = 0; i < t.subs[0]; i++)
          p.place(kid, (long)(t.starts[0] + i) * ex);
      } else if (t.order == 0) { /* C: last dimension fastest */
        for (int i = 0; i < t.subs[0]; i++)
          for (int j = 0; j < t.subs[1]; j++)
            p.place(kid, ((long)(t.starts[0] + i) * t.sizes[1] + (t.starts[1] + j)) * ex);
      } else { /* Fortran: first dimension fastest */
        for (int j = 0; j < t.subs[1]; j++)
          for (int i = 0; i < t.subs[0]; i++)
            p.place(kid, ((long)(t.starts[1] + j) * t.sizes[0] + (t.starts[0] + i)) * ex);
      }
      Model m = p.done();
      m.lb    = 0;
      m.ub    = tot * ex;
      m.slb = m.sub_ = true;
      return m;
    }
  }
  return p.done();
}

/* ------------------------------------------------------------------ the real thing */
static int apply_mpi(const Inst& t, MPI_Datatype kid, MPI_Datatype leaf, long u, long kid_true_extent, MPI_Datatype* out)
{
  std::vector<int> bls = t.bls, disps = t.disps;
  std::vector<MPI_Aint> ad(t.disps.size() + 1);
  for (size_t i = 0; i < t.disps.size(); i++)
    ad[i] = (MPI_Aint)t.disps[i] * u;
  bls.push_back(0);
  disps.push_back(0);
  switch (t.c) {
    case CONTIG: return MPI_Type_contiguous(t.n, kid, out);
    case VECTOR: return MPI_Type_vector(t.n, t.bl, t.stride, kid, out);
    case HVECTOR: return MPI_Type_create_hvector(t.n, t.bl, (MPI_Aint)t.stride * u, kid, out);
    case INDEXED: return MPI_Type_indexed((int)t.bls.size(), bls.data(), disps.data(), kid, out);
    case HINDEXED: return MPI_Type_create_hindexed((int)t.bls.size(), bls.data(), ad.data(), kid, out);
    case IDXBLOCK: return MPI_Type_create_indexed_block((int)t.disps.size(), t.bl, disps.data(), kid, out);
    case STRUCT: {
      std::vector<MPI_Datatype> ty(t.bls.size() + 1, leaf);
      for (size_t i = 0; i < t.bls.size(); i++)
        ty[i] = t.kid[i] ? kid : leaf;
      return MPI_Type_create_struct((int)t.bls.size(), bls.data(), ad.data(), ty.data(), out);
    }
    case RESIZED: {
      long e = t.ext >= 0 ? t.ext * u : kid_true_extent + (t.ext == -2 ? u : 0);
      return MPI_Type_create_resized(kid, (MPI_Aint)t.lb * u, (MPI_Aint)e, out);
    }
    case SUBARRAY: return MPI_Type_create_subarray(t.nd, (int*)t.sizes, (int*)t.subs, (int*)t.starts, t.order ? MPI_ORDER_FORTRAN : MPI_ORDER_C, kid, out);
  }
  return MPI_ERR_OTHER;
}

/* ------------------------------------------------------------------ bookkeeping */
static int me, np;
static const char *mode, *fam;
static char leafc;
static long shard, nshards, only, start_idx, zeromove = 1;
static std::vector<long> only_list; /* argv only = -1 | i | i,j,k: just these trees */
static volatile long cur_idx = -1;
static long n_trees = 0, n_bounds_checked = 0, n_bounds_unconstrained = 0, n_ambiguous = 0, n_move = 0, n_overlap_skipped = 0, n_noncontig = 0,
            n_resized_inner = 0, n_bytes = 0, n_zero_skipped = 0;

/* classes of failure; a tree's outcome is a mask of classes + the first detail of each */
enum Cls { C_SIZE, C_BOUNDS, C_GATHER, C_SCATTER, C_TOUCH, C_API, NCLS };
static const char* clsname[NCLS] = {"size", "bounds", "gather", "scatter", "touch", "api"};
struct Outcome {
  unsigned mask = 0;
  std::string det[NCLS];
};
static Outcome* cur_out = nullptr;
static bool counting    = true; /* false while a reduced tree is evaluated: its statistics are not those of the enumeration */
static int cls_of(const std::string& kind)
{
  if (kind == "size")
    return C_SIZE;
  if (kind == "lb" || kind == "ub" || kind == "extent" || kind == "lb-and-extent")
    return C_BOUNDS;
  if (kind.find("-overrun") != std::string::npos || kind.find("-touched") != std::string::npos)
    return C_TOUCH;
  if (kind == "pack" || kind == "self-gather" || kind == "p2p-gather")
    return C_GATHER;
  if (kind == "unpack" || kind == "self-scatter" || kind == "p2p-scatter")
    return C_SCATTER;
  return C_API;
}
static void viol(const char* kind, int count, const std::string& det)
{
  int c = cls_of(kind);
  if (!(cur_out->mask >> c & 1)) {
    cur_out->mask |= 1u << c;
    cur_out->det[c] = std::string("what=") + kind + " count=" + std::to_string(count) + " " + det;
  }
}
static void on_signal(int sig)
{
  char b[96];
  int n = snprintf(b, sizeof b, "\nX idx=%ld sig=%d rank=%d\n", (long)cur_idx, sig, me);
  if (write(1, b, n) < 0) {
  }
  _exit(70);
}

static long MARGIN = 64; /* set per movement: 512 + span of the copies, so that a misplaced copy stays inside the buffer */
static const unsigned char CAN = 0xC7;
static unsigned char pat(long i)
{
  return (unsigned char)(1 + (i * 7 + (i >> 8) * 13) % 199); /* never 0xC7=199, never 0 */
}

/* all data-movement tests of one committed type */
static void test_movement(MPI_Datatype T, MPI_Datatype leaf, long u, const Model& m, int maxcount)
{
  long ex = m.ext();
  for (int count = 0; count <= maxcount; count++) {
    /* layout of count copies */
    std::vector<Seg> segs;
    long maxend = 0, minstart = 0;
    for (int c = 0; c < count; c++)
      for (auto& s : m.segs) {
        push_seg(segs, c * ex + s.d, s.len);
        maxend   = std::max(maxend, c * ex + s.d + s.len);
        minstart = std::min(minstart, c * ex + s.d);
      }
    if (minstart < 0)
      continue; /* cannot happen with non-negative parameters; be safe */
    long total = m.size * count;
    MARGIN     = 512 + 2 * maxend;
    long span  = maxend + MARGIN;
    /* overlap? */
    bool overlap = false;
    {
      std::vector<Seg> srt = segs;
      std::sort(srt.begin(), srt.end(), [](const Seg& a, const Seg& b) { return a.d < b.d; });
      for (size_t i = 1; i < srt.size(); i++)
        if (srt[i - 1].d + srt[i - 1].len > srt[i].d)
          overlap = true;
    }
    std::vector<unsigned char> typed(MARGIN + span), flat(MARGIN + total + MARGIN), expect;
    unsigned char* tb = typed.data() + MARGIN;
    unsigned char* fb = flat.data() + MARGIN;
    auto fill_typed_pattern = [&]() {
      for (long i = 0; i < (long)typed.size(); i++)
        typed[i] = pat(i);
    };
    auto gathered = [&]() { /* what the type map selects from the pattern-filled typed buffer */
      std::vector<unsigned char> g;
      for (auto& s : segs)
        for (long i = 0; i < s.len; i++)
          g.push_back(pat(MARGIN + s.d + i));
      return g;
    };
    auto check_flat = [&](const char* kind, long produced) {
      std::vector<unsigned char> g = gathered();
      if (counting) {
        n_move++;
        n_bytes += total;
      }
      if (memcmp(fb, g.data(), total)) {
        long first = 0;
        while (fb[first] == g[first])
          first++;
        viol(kind, count, "first_wrong_byte=" + std::to_string(first) + " of=" + std::to_string(total));
      }
      for (long i = 0; i < MARGIN; i++)
        if (flat[i] != CAN || flat[MARGIN + total + i] != CAN) {
          viol((std::string(kind) + "-overrun").c_str(), count, "contiguous buffer written outside its " + std::to_string(total) + " bytes");
          break;
        }
      (void)produced;
    };
    auto check_typed = [&](const char* kind) { /* typed buffer was canary, flat had pattern j -> positions in type-map order */
      if (counting) {
        n_move++;
        n_bytes += total;
      }
      std::vector<unsigned char> want(typed.size(), CAN);
      long j = 0;
      for (auto& s : segs)
        for (long i = 0; i < s.len; i++)
          want[MARGIN + s.d + i] = pat(1000 + j++);
      if (memcmp(typed.data(), want.data(), typed.size())) {
        long first = 0, missing = 0, touched = 0;
        bool f = true;
        for (long i = 0; i < (long)typed.size(); i++)
          if (typed[i] != want[i]) {
            if (f)
              first = i - MARGIN, f = false;
            if (want[i] == CAN)
              touched++;
            else
              missing++;
          }
        viol(touched && !missing ? (std::string(kind) + "-touched").c_str() : kind, count,
             "first_bad_offset=" + std::to_string(first) + " wrong_selected=" + std::to_string(missing) + " touched_unselected=" + std::to_string(touched));
      }
    };
    auto fill_flat_pattern = [&]() {
      std::fill(flat.begin(), flat.end(), CAN);
      for (long j = 0; j < total; j++)
        fb[j] = pat(1000 + j);
    };
    int nleaf = (int)(total / u);
    if (!strcmp(mode, "local")) {
      /* Pack */
      fill_typed_pattern();
      std::fill(flat.begin(), flat.end(), CAN);
      int pos = 0, psz = -1;
      MPI_Pack_size(count, T, MPI_COMM_WORLD, &psz);
      int rc = MPI_Pack(tb, count, T, fb, (int)total, &pos, MPI_COMM_WORLD);
      if (rc != MPI_SUCCESS || pos != total)
        viol("pack-position", count, "rc=" + std::to_string(rc) + " position=" + std::to_string(pos) + " exp=" + std::to_string(total));
      else
        check_flat("pack", pos);
      if (psz < total)
        viol("pack-size", count, "pack_size=" + std::to_string(psz) + " needed=" + std::to_string(total));
      /* Sendrecv with oneself: typed -> contiguous leaves */
      fill_typed_pattern();
      std::fill(flat.begin(), flat.end(), CAN);
      MPI_Status st;
      rc = MPI_Sendrecv(tb, count, T, me, 3, fb, nleaf, leaf, me, 3, MPI_COMM_WORLD, &st);
      if (rc != MPI_SUCCESS)
        viol("self-gather-error", count, "rc=" + std::to_string(rc));
      else
        check_flat("self-gather", total);
      if (overlap) {
        if (counting)
          n_overlap_skipped++;
        continue;
      }
      /* Unpack */
      fill_flat_pattern();
      std::fill(typed.begin(), typed.end(), CAN);
      pos = 0;
      rc  = MPI_Unpack(fb, (int)total, &pos, tb, count, T, MPI_COMM_WORLD);
      if (rc != MPI_SUCCESS || pos != total)
        viol("unpack-position", count, "rc=" + std::to_string(rc) + " position=" + std::to_string(pos) + " exp=" + std::to_string(total));
      else
        check_typed("unpack");
      /* Sendrecv with oneself: contiguous leaves -> typed */
      fill_flat_pattern();
      std::fill(typed.begin(), typed.end(), CAN);
      rc = MPI_Sendrecv(fb, nleaf, leaf, me, 4, tb, count, T, me, 4, MPI_COMM_WORLD, &st);
      if (rc != MPI_SUCCESS)
        viol("self-scatter-error", count, "rc=" + std::to_string(rc));
      else
        check_typed("self-scatter");
    } else { /* p2p: 0 --typed--> 1 (contiguous), 1 --contiguous--> 0 (typed) */
      if (me == 0) {
        fill_typed_pattern();
        MPI_Send(tb, count, T, 1, 5, MPI_COMM_WORLD);
        if (!overlap) {
          std::fill(typed.begin(), typed.end(), CAN);
          MPI_Recv(tb, count, T, 1, 6, MPI_COMM_WORLD, MPI_STATUS_IGNORE);
          check_typed("p2p-scatter");
        } else if (counting)
          n_overlap_skipped++;
      } else {
        std::fill(flat.begin(), flat.end(), CAN);
        MPI_Recv(fb, nleaf, leaf, 0, 5, MPI_COMM_WORLD, MPI_STATUS_IGNORE);
        check_flat("p2p-gather", total);
        if (!overlap) {
          fill_flat_pattern();
          MPI_Send(fb, nleaf, leaf, 0, 6, MPI_COMM_WORLD);
        }
      }
    }
  }
}

static std::string chain_str(const std::vector<const Inst*>& chain, bool shape)
{
  std::string r;
  int depth = (int)chain.size();
  for (int i = 0; i < depth; i++) {
    if (shape) /* depth <= 2: constructor names; depth 3: implementation classes, to keep the number of groups reasonable */
      r += std::string(i ? ">" : "") + (depth >= 3 ? cclass[chain[i]->c] : cname[chain[i]->c]) + (chain[i]->has_zero() ? "~z" : "");
    else
      r += chain[i]->str() + "[";
  }
  if (!shape) {
    r += leafc;
    r += std::string(depth, ']');
  }
  return r.empty() ? "leaf" : r;
}

/* one tree: chain[0] is the outermost constructor. Every level is committed (legal, and SMPI refuses uncommitted old types
   in MPI_Type_create_subarray, which is probed once by the driver instead of being met everywhere). */
static Outcome evaluate(const std::vector<const Inst*>& chain, MPI_Datatype leaf, long u)
{
  Outcome out;
  Outcome* saved = cur_out;
  cur_out        = &out;
  int depth      = (int)chain.size();
  Model lm = leaf_model(u), ms = lm, mp = lm;
  MPI_Datatype cur = leaf;
  std::vector<MPI_Datatype> made;
  bool created = true;
  for (int i = depth - 1; i >= 0; i--) {
    long kte = ms.tub() - ms.tlb();
    Model ns = apply_model(*chain[i], ms, lm, u, true);
    Model npl = apply_model(*chain[i], mp, lm, u, false);
    MPI_Datatype nt = MPI_DATATYPE_NULL;
    int rc          = apply_mpi(*chain[i], cur, leaf, u, kte, &nt);
    if (rc != MPI_SUCCESS || nt == MPI_DATATYPE_NULL) {
      viol("create-error", -1, "level=" + std::to_string(i) + " rc=" + std::to_string(rc));
      created = false;
      break;
    }
    MPI_Type_commit(&nt);
    made.push_back(nt);
    cur = nt;
    ms  = ns;
    mp  = npl;
    if (ms.has_empty) {
      /* MPI does not define lb/ub of a type with an empty component: whatever the implementation chose is right, and it is what
         places the copies of this type inside its parents. The model adopts it (the type map itself is still the model's). */
      MPI_Aint l = 0, e = 0;
      MPI_Type_get_extent(nt, &l, &e);
      ms.lb = mp.lb = l;
      ms.ub = mp.ub = l + e;
    }
  }
  if (created && depth > 0) {
    bool same_map = ms.segs.size() == mp.segs.size() && ms.lb == mp.lb && ms.ub == mp.ub;
    for (size_t i = 0; same_map && i < ms.segs.size(); i++)
      if (ms.segs[i].d != mp.segs[i].d || ms.segs[i].len != mp.segs[i].len)
        same_map = false;
    int size = -1;
    MPI_Aint lb = -1, ext = -1;
    MPI_Type_size(cur, &size);
    MPI_Type_get_extent(cur, &lb, &ext);
    char b[200];
    if (size != ms.size) {
      snprintf(b, sizeof b, "got=%d exp=%ld", size, ms.size);
      viol("size", -1, b);
    }
    if (ms.has_empty) {
      if (counting)
        n_bounds_unconstrained++;
    } else {
      if (counting) {
        n_bounds_checked++;
        if (!same_map)
          n_ambiguous++;
      }
      bool oks = lb == ms.lb && lb + ext == ms.ub, okp = lb == mp.lb && lb + ext == mp.ub;
      if (!oks && !okp) {
        snprintf(b, sizeof b, "got_lb=%ld got_ub=%ld got_extent=%ld exp_lb=%ld exp_ub=%ld exp_extent=%ld", (long)lb, (long)(lb + ext), (long)ext, ms.lb,
                 ms.ub, ms.ext());
        bool l = lb != ms.lb && lb != mp.lb, e = ext != ms.ext() && ext != mp.ext();
        viol(l && e ? "lb-and-extent" : l ? "lb" : e ? "extent" : "ub", -1, b);
      }
    }
    if (counting && ms.segs.size() > 1)
      n_noncontig++;
    /* data movement needs an unambiguous map. When the implementation's extent disagrees with the model (reported above) or is
       unconstrained, only counts 0 and 1 are moved: a single copy does not depend on the extent. */
    if (same_map && ms.size == 0 && !zeromove) {
      if (counting)
        n_zero_skipped++; /* the driver found that moving zero-size types kills the simulation: reported once, not per tree */
    } else if (same_map)
      test_movement(cur, leaf, u, ms, (lb == ms.lb && ext == ms.ext()) ? 3 : 1);
  }
  for (int i = (int)made.size() - 1; i >= 0; i--)
    MPI_Type_free(&made[i]);
  cur_out = saved;
  return out;
}

/* Minimal-failure attribution: a failure class of a tree is reported only if no tree obtained by deleting one constructor
   level fails in the same class (otherwise it is inherited from a smaller tree, which is reported in its own family). */
static std::map<std::string, unsigned> memo;
static std::map<std::string, long> kall, kmin;
static long n_failing_trees = 0, n_minimal_trees = 0;
static void run_tree(const std::vector<const Inst*>& chain, MPI_Datatype leaf, long u)
{
  n_trees++;
  counting    = true;
  Outcome o   = evaluate(chain, leaf, u);
  counting    = false;
  unsigned inherited = 0;
  for (size_t del = 0; del < chain.size(); del++) {
    std::vector<const Inst*> red;
    for (size_t i = 0; i < chain.size(); i++)
      if (i != del)
        red.push_back(chain[i]);
    std::string key = chain_str(red, false);
    auto it         = memo.find(key);
    if (it == memo.end())
      it = memo.emplace(key, red.empty() ? 0u : evaluate(red, leaf, u).mask).first;
    inherited |= it->second;
  }
  counting = true;
  if (!o.mask)
    return;
  n_failing_trees++;
  std::string shape = chain_str(chain, true), tree;
  unsigned minimal = o.mask & ~inherited;
  if (minimal)
    n_minimal_trees++;
  for (int c = 0; c < NCLS; c++) {
    if (!(o.mask >> c & 1))
      continue;
    std::string k = std::string(clsname[c]) + "/" + shape;
    kall[k]++;
    if (!(minimal >> c & 1))
      continue;
    if (kmin[k]++ < 1 || only >= 0) { /* explicit tree lists (replay, confirmation): print every minimal violation */
      if (tree.empty())
        tree = chain_str(chain, false);
      printf("V kind=%s fam=%s leaf=%c idx=%ld mode=%s tree=%s rank=%d %s\n", k.c_str(), fam, leafc, (long)cur_idx, mode, tree.c_str(), me, o.det[c].c_str());
      fflush(stdout);
    }
  }
}

int main(int argc, char** argv)
{
  MPI_Init(&argc, &argv);
  MPI_Comm_rank(MPI_COMM_WORLD, &me);
  MPI_Comm_size(MPI_COMM_WORLD, &np);
  MPI_Comm_set_errhandler(MPI_COMM_WORLD, MPI_ERRORS_RETURN);
  if (argc < 8) {
    MPI_Finalize();
    return 2;
  }
  mode      = argv[1];
  fam       = argv[2];
  leafc     = argv[3][0];
  shard     = atol(argv[4]);
  nshards   = atol(argv[5]);
  only      = atol(argv[6]);
  if (only >= 0)
    for (const char* c = argv[6]; c && *c; c = strchr(c, ',') ? strchr(c, ',') + 1 : nullptr)
      only_list.push_back(atol(c));
  start_idx = atol(argv[7]);
  if (argc > 8)
    zeromove = atol(argv[8]);
  struct sigaction sa;
  memset(&sa, 0, sizeof sa);
  sa.sa_handler = on_signal;
  sa.sa_flags   = SA_ONSTACK;
  for (int s : {SIGSEGV, SIGBUS, SIGFPE, SIGABRT})
    sigaction(s, &sa, nullptr);
  build_alphabets();
  if (!strcmp(mode, "probe")) { /* may an uncommitted derived type be the old type of a constructor? (MPI: yes) */
    MPI_Datatype v, sa = MPI_DATATYPE_NULL;
    int sizes[2] = {2, 2}, subs[2] = {1, 1}, starts[2] = {0, 0};
    MPI_Type_vector(2, 1, 2, MPI_BYTE, &v);
    int rc = MPI_Type_create_subarray(2, sizes, subs, starts, MPI_ORDER_C, v, &sa);
    if (rc != MPI_SUCCESS)
      printf("V kind=api/subarray-of-uncommitted-type fam=probe leaf=B idx=0 mode=probe tree=subarray(C:1/2+0,1/2+0)[vector(2,1,2)[B]]-uncommitted rank=%d what=create-error rc=%d\n", me, rc);
    printf("N rank=%d mode=probe fam=probe leaf=B trees=1 total_trees=1\n", me);
    fflush(stdout);
    MPI_Finalize();
    return 0;
  }
  MPI_Datatype leaf = leafc == 'B' ? MPI_BYTE : MPI_INT;
  long u            = leafc == 'B' ? 1 : 4;
  /* FULL instances that make sense directly on a leaf: struct patterns with the leaf next to the sub-tree only differ when
     there is a sub-tree, so at the innermost level only the all-T patterns are kept */
  std::vector<const Inst*> full, full_inner, small;
  for (auto& t : FULL) {
    full.push_back(&t);
    bool plain = true;
    for (int k : t.kid)
      if (!k)
        plain = false;
    if (plain)
      full_inner.push_back(&t);
  }
  for (auto& t : SMALL) {
    bool plain = true;
    for (int k : t.kid)
      if (!k)
        plain = false;
    (void)plain;
    small.push_back(&t);
  }
  std::vector<const std::vector<const Inst*>*> levels; /* outermost first */
  std::string f = fam;
  if (f == "1")
    levels = {&full_inner};
  else if (f == "2a")
    levels = {&full, &small};
  else if (f == "2b")
    levels = {&small, &full_inner};
  else if (f == "2f")
    levels = {&full, &full_inner};
  else if (f == "3a")
    levels = {&full, &small, &small};
  else if (f == "3b")
    levels = {&small, &full, &small};
  else if (f == "3c")
    levels = {&small, &small, &full_inner};
  else {
    MPI_Finalize();
    return 2;
  }
  long total = 1;
  for (auto* l : levels)
    total *= (long)l->size();
  /* block sharding: consecutive trees share their reduced trees, so every shard evaluates few of them */
  long lo = only >= 0 ? 0 : std::max(start_idx, total * shard / nshards), hi = only >= 0 ? (long)only_list.size() : total * (shard + 1) / nshards;
  for (long it = lo; it < hi; it++) {
    long idx = only >= 0 ? only_list[it] : it;
    if (idx < 0 || idx >= total)
      continue;
    cur_idx = idx;
    if (me == 0 && (n_trees & 511) == 0 && strcmp(mode, "name")) {
      printf("P idx=%ld\n", idx);
      fflush(stdout);
    }
    std::vector<const Inst*> chain;
    long x = idx;
    for (int l = (int)levels.size() - 1; l >= 0; l--) { /* innermost level varies fastest */
      chain.insert(chain.begin(), (*levels[l])[x % (long)levels[l]->size()]);
      x /= (long)levels[l]->size();
    }
    if (!strcmp(mode, "name")) {
      if (me == 0)
        printf("T idx=%ld tree=%s shape=%s\n", idx, chain_str(chain, false).c_str(), chain_str(chain, true).c_str());
      continue;
    }
    run_tree(chain, leaf, u);
  }
  cur_idx = -2;
  for (auto const& [k, n] : kmin)
    printf("S rank=%d kind=%s count=%ld\n", me, k.c_str(), n);
  for (auto const& [k, n] : kall)
    printf("A rank=%d kind=%s count=%ld\n", me, k.c_str(), n);
  printf("N rank=%d mode=%s fam=%s leaf=%c trees=%ld total_trees=%ld bounds_checked=%ld bounds_unconstrained=%ld ambiguous_sticky=%ld moves=%ld "
         "overlap_skipped=%ld noncontiguous=%ld bytes_moved=%ld zero_size_not_moved=%ld failing_trees=%ld minimal_failing_trees=%ld reduced_trees_evaluated=%ld\n",
         me, mode, fam, leafc, n_trees, total, n_bounds_checked, n_bounds_unconstrained, n_ambiguous, n_move, n_overlap_skipped, n_noncontig, n_bytes,
         n_zero_skipped, n_failing_trees, n_minimal_trees, (long)memo.size());
  fflush(stdout);
  MPI_Finalize();
  return 0;
}
