/* C31 — predefined reduction operators x predefined datatypes x operand pairs from extremes.
 *
 * For every (operator, datatype) pair — "pair index" = op_index * ntypes + type_index — and counts {0,1,3}:
 *   mode local      MPI_Reduce_local(in, inout)                       (1 rank)
 *   mode allreduce  2 ranks, rank 0 contributes a, rank 1 contributes b, MPI_Allreduce into a framed receive buffer
 *   mode rma        2 ranks, MPI_REPLACE through MPI_Accumulate and MPI_NO_OP through MPI_Get_accumulate (fence epochs)
 * all buffers are framed by 64 canary bytes on both sides.
 *
 * Oracle: the element-wise definition of MPI-3.1 section 5.9 written with plain C++ operators on the machine type that has
 * the datatype's category and the size the implementation reports (MPI_Type_size / extent):
 *   MAX MIN SUM PROD on integers/floats, SUM PROD on complex (the complex product), LAND LOR LXOR (result 0/1),
 *   BAND BOR BXOR on integers/byte, MINLOC/MAXLOC on (value,index) pairs with ties giving the lowest index.
 *   Signed integer SUM/PROD whose exact result does not fit are left unconstrained (C leaves it undefined).
 * Which pairs MUST be supported comes from the MPI table (C integer, floating point, logical, complex, byte, multi-language,
 * C pair types), restricted to the datatypes MPI does not mark optional: the "if available" Fortran-sized types
 * (MPI_INTEGERn, MPI_REALn, MPI_COMPLEXn), the C++ types (MPI_CXX_*) and the non-standard MPI_2FLOAT/2DOUBLE/2LONG may be
 * refused. Any pair that need not be supported may either be rejected (error code or abort with the operator/type message,
 * nothing written) or accepted -- and then it must give the natural element-wise result like any other.
 *
 * usage: ops <mode> <first_pair> <last_pair> <only_case|-1> [counts, default 0,1,3]      (case ordinals are counted inside each pair)
 * records: P pair=.. (before each pair, rank 0), V violation (first per kind/op/type), S totals, T type table, N counters */
#include <mpi.h>

#include <cfloat>
#include <climits>
#include <cmath>
#include <complex>
#include <cstdint>
#include <cstdio>
#include <cstdlib>
#include <cstring>
#include <map>
#include <string>
#include <vector>

/* smpi.h defines the MPI_CXX_*_COMPLEX macros on top of symbols it declares under misspelt names; the library exports them */
extern SMPI_Datatype smpi_MPI_CXX_FLOAT_COMPLEX;
extern SMPI_Datatype smpi_MPI_CXX_DOUBLE_COMPLEX;
extern SMPI_Datatype smpi_MPI_CXX_LONG_DOUBLE_COMPLEX;

enum Op { MAX_, MIN_, SUM_, PROD_, LAND_, LOR_, LXOR_, BAND_, BOR_, BXOR_, MINLOC_, MAXLOC_, REPLACE_, NOOP_, NOPS };
static const char* opname[NOPS] = {"MPI_MAX",  "MPI_MIN", "MPI_SUM",  "MPI_PROD",   "MPI_LAND",   "MPI_LOR",     "MPI_LXOR",
                                   "MPI_BAND", "MPI_BOR", "MPI_BXOR", "MPI_MINLOC", "MPI_MAXLOC", "MPI_REPLACE", "MPI_NO_OP"};
static MPI_Op ophandle(int o)
{
  MPI_Op h[NOPS] = {MPI_MAX, MPI_MIN, MPI_SUM, MPI_PROD, MPI_LAND, MPI_LOR, MPI_LXOR, MPI_BAND, MPI_BOR, MPI_BXOR, MPI_MINLOC, MPI_MAXLOC, MPI_REPLACE, MPI_NO_OP};
  return h[o];
}
enum Group { G_CINT = 1, G_FINT = 2, G_FLOAT = 4, G_LOGICAL = 8, G_COMPLEX = 16, G_BYTE = 32, G_MULTI = 64, G_PAIR = 128, G_OPT = 256, G_NONE = 0 };
static bool mpi_valid(int op, int group)
{
  if (group & G_OPT) /* optional in MPI ("if available", Fortran / C++ bindings): the implementation may refuse them */
    return false;
  switch (op) {
    case MAX_:
    case MIN_:
      return group & (G_CINT | G_FINT | G_FLOAT | G_MULTI);
    case SUM_:
    case PROD_:
      return group & (G_CINT | G_FINT | G_FLOAT | G_MULTI | G_COMPLEX);
    case LAND_:
    case LOR_:
    case LXOR_:
      return group & (G_CINT | G_LOGICAL);
    case BAND_:
    case BOR_:
    case BXOR_:
      return group & (G_CINT | G_FINT | G_BYTE | G_MULTI);
    case MINLOC_:
    case MAXLOC_:
      return group & G_PAIR;
    default:
      return false; /* MPI_REPLACE / MPI_NO_OP: RMA only */
  }
}
enum Cat { SINT, UINT, FLT, BOOLC, CPLX, PAIRI, PAIRV };
struct TypeInfo {
  const char* name;
  MPI_Datatype dt;
  Cat cat;
  int group;
  int mpi_size;   /* size MPI mandates when it does (0 = platform C type) */
  int valsize;    /* PAIRI/PAIRV: size of the value member; value category below */
  Cat valcat;
};

static int me, np;
static const char* mode;
static long only_case, case_ord = 0, cur_pair = 0;
static long n_cases = 0, n_elems = 0, n_unconstrained = 0, n_rejected = 0, n_accepted_nomeaning = 0, n_ties = 0, n_extreme = 0;
static std::map<std::string, long> kcount;
static const int FR = 64;
static const int MAXC = 8;
static std::vector<int> counts;
static const unsigned char CAN = 0xA5;

static std::string curop, curtype;
static void viol(const char* kind, const std::string& ctx, const std::string& det)
{
  std::string k = std::string(kind) + "|" + curop + "|" + curtype;
  if (kcount[k]++ < 1) {
    printf("V kind=%s/%s/%s/%s via=%s op=%s type=%s pair=%ld case=%ld %s rank=%d %s\n", kind, mode, curop.c_str(), curtype.c_str(), mode,
           curop.c_str(), curtype.c_str(), cur_pair, case_ord - 1, ctx.c_str(), me, det.c_str());
    fflush(stdout);
  }
}

/* ------------------------------------------------------------------ value formatting */
static std::string i128s(__int128 v)
{
  if (v == 0)
    return "0";
  bool neg = v < 0;
  unsigned __int128 u = neg ? -(unsigned __int128)v : (unsigned __int128)v;
  std::string s;
  while (u) {
    s.insert(s.begin(), char('0' + (int)(u % 10)));
    u /= 10;
  }
  return neg ? "-" + s : s;
}
template <class T> struct is_cplx {
  static const bool value = false;
};
template <> struct is_cplx<std::complex<float>> {
  static const bool value = true;
};
template <> struct is_cplx<std::complex<double>> {
  static const bool value = true;
};
template <> struct is_cplx<std::complex<long double>> {
  static const bool value = true;
};
template <class T> std::string fmt(const T& v)
{
  char b[96];
  if constexpr (is_cplx<T>::value) {
    snprintf(b, sizeof b, "(%Lg,%Lg)", (long double)v.real(), (long double)v.imag());
    return b;
  } else if constexpr (std::is_floating_point<T>::value) {
    snprintf(b, sizeof b, "%.9Lg", (long double)v);
    return b;
  } else if constexpr (std::is_same<T, bool>::value) {
    return v ? "true" : "false";
  } else if constexpr (std::is_signed<T>::value || std::is_same<T, __int128>::value) {
    return i128s((__int128)v);
  } else {
    snprintf(b, sizeof b, "%llu", (unsigned long long)v);
    return b;
  }
}
template <class V, class I> struct Pair {
  V value;
  I index;
};
template <class V, class I> std::string fmt(const Pair<V, I>& p)
{
  return "(" + fmt(p.value) + "," + fmt(p.index) + ")";
}

/* ------------------------------------------------------------------ alphabets */
template <class T> std::vector<T> alphabet()
{
  std::vector<T> a;
  if constexpr (is_cplx<T>::value) {
    const double c[4] = {-1.5, 0, 1, 2.5};
    for (double re : c)
      for (double im : c)
        a.push_back(T((typename T::value_type)re, (typename T::value_type)im));
  } else if constexpr (std::is_same<T, bool>::value) {
    a = {false, true};
  } else if constexpr (std::is_floating_point<T>::value) {
    a = {(T)-1.5, (T)0, (T)1, (T)1e30};
  } else if constexpr (std::is_same<T, __int128>::value) {
    __int128 mx = (__int128)(((unsigned __int128)1 << 127) - 1);
    a           = {-mx - 1, -1, 0, 1, 2, mx};
  } else if constexpr (std::is_signed<T>::value) {
    a = {std::numeric_limits<T>::min(), (T)-1, (T)0, (T)1, (T)2, std::numeric_limits<T>::max()};
  } else {
    a = {(T)0, (T)1, (T)2, std::numeric_limits<T>::max()};
  }
  return a;
}
template <class V, class I> std::vector<Pair<V, I>> pair_alphabet()
{
  std::vector<Pair<V, I>> a;
  for (V v : alphabet<V>())
    for (int i = 0; i < 2; i++) {
      Pair<V, I> p;
      memset(&p, 0, sizeof p); /* padding bytes deterministic */
      p.value = v;
      p.index = (I)i;
      a.push_back(p);
    }
  return a;
}

/* ------------------------------------------------------------------ oracle: result of  in (op) inout ; status */
enum Res { OK, UNCONSTRAINED, NOMEANING };
template <class T> Res oracle(int op, const T& a, const T& b, T& r)
{
  if (op == REPLACE_) {
    r = a;
    return OK;
  }
  if (op == NOOP_) {
    r = b;
    return OK;
  }
  if constexpr (is_cplx<T>::value) {
    if (op == SUM_) {
      r = a + b;
      return OK;
    }
    if (op == PROD_) { /* textbook product; operands are small, nothing overflows */
      r = T(a.real() * b.real() - a.imag() * b.imag(), a.real() * b.imag() + a.imag() * b.real());
      return OK;
    }
    return NOMEANING;
  } else {
    constexpr bool isint = std::is_integral<T>::value || std::is_same<T, __int128>::value;
    constexpr bool sgn   = (std::is_signed<T>::value && std::is_integral<T>::value) || std::is_same<T, __int128>::value;
    switch (op) {
      case MAX_:
        r = a < b ? b : a;
        return OK;
      case MIN_:
        r = a < b ? a : b;
        return OK;
      case SUM_:
      case PROD_:
        if constexpr (std::is_same<T, bool>::value) {
          r = op == SUM_ ? (a || b) : (a && b); /* bool arithmetic in C++ */
          return OK;
        } else if constexpr (sgn) {
          T out;
          bool ovf = op == SUM_ ? __builtin_add_overflow(a, b, &out) : __builtin_mul_overflow(a, b, &out);
          r        = out;
          return ovf ? UNCONSTRAINED : OK;
        } else {
          r = op == SUM_ ? (T)(a + b) : (T)(a * b);
          return OK;
        }
      case LAND_:
        r = (T)(a && b);
        return OK;
      case LOR_:
        r = (T)(a || b);
        return OK;
      case LXOR_:
        r = (T)(bool(a) != bool(b));
        return OK;
      case BAND_:
      case BOR_:
      case BXOR_:
        if constexpr (isint) {
          r = op == BAND_ ? (T)(a & b) : op == BOR_ ? (T)(a | b) : (T)(a ^ b);
          return OK;
        } else
          return NOMEANING;
      default:
        return NOMEANING;
    }
  }
}
template <class V, class I> Res oracle(int op, const Pair<V, I>& a, const Pair<V, I>& b, Pair<V, I>& r)
{
  if (op == REPLACE_) {
    r = a;
    return OK;
  }
  if (op == NOOP_) {
    r = b;
    return OK;
  }
  if (op != MINLOC_ && op != MAXLOC_)
    return NOMEANING;
  bool a_better = op == MINLOC_ ? a.value < b.value : a.value > b.value;
  bool b_better = op == MINLOC_ ? b.value < a.value : b.value > a.value;
  if (a_better)
    r = a;
  else if (b_better)
    r = b;
  else {
    r = a.index < b.index ? a : b; /* tie: lowest index */
    n_ties++;
  }
  return OK;
}
template <class T> bool same(const T& x, const T& y)
{
  if constexpr (is_cplx<T>::value)
    return (x.real() == y.real() || (std::isnan(x.real()) && std::isnan(y.real()))) &&
           (x.imag() == y.imag() || (std::isnan(x.imag()) && std::isnan(y.imag())));
  else if constexpr (std::is_floating_point<T>::value)
    return x == y || (std::isnan(x) && std::isnan(y));
  else
    return x == y;
}
template <class V, class I> bool same(const Pair<V, I>& x, const Pair<V, I>& y)
{
  return same(x.value, y.value) && same(x.index, y.index);
}

/* ------------------------------------------------------------------ framed buffers */
struct Framed {
  std::vector<unsigned char> mem;
  size_t bytes;
  explicit Framed(size_t n) : mem(n + 2 * FR, CAN), bytes(n) {}
  unsigned char* data() { return mem.data() + FR; }
  bool intact() const
  {
    for (int i = 0; i < FR; i++)
      if (mem[i] != CAN || mem[FR + bytes + i] != CAN)
        return false;
    return true;
  }
};

/* ------------------------------------------------------------------ one (op,type) pair */
template <class T> void run_pair(const TypeInfo& ti, int op, const std::vector<T>& alpha)
{
  size_t na = alpha.size(), npairs = na * na;
  bool valid = mpi_valid(op, ti.group);
  bool is_rma = !strcmp(mode, "rma");
  if (is_rma && op != REPLACE_ && op != NOOP_)
    return;
  MPI_Win win = MPI_WIN_NULL;
  Framed target(MAXC * sizeof(T));
  if (is_rma)
    MPI_Win_create(target.data(), MAXC * sizeof(T), sizeof(T), MPI_INFO_NULL, MPI_COMM_WORLD, &win);
  for (int count : counts) {
    for (size_t p = 0; p < (count == 0 ? 1 : npairs); p++) {
      long cur = case_ord++;
      if (only_case >= 0 && cur != only_case)
        continue;
      n_cases++;
      T a[MAXC], b[MAXC], exp[MAXC];
      memset(a, 0, sizeof a);
      memset(b, 0, sizeof b);
      memset(exp, 0, sizeof exp);
      Res st[MAXC];
      for (int i = 0; i < count; i++) {
        size_t q = (p + (size_t)i * 7) % npairs;
        a[i]     = alpha[q / na];
        b[i]     = alpha[q % na];
        st[i]    = oracle(op, a[i], b[i], exp[i]);
        if (st[i] == UNCONSTRAINED)
          n_unconstrained++;
      }
      std::string ctx = "count=" + std::to_string(count) + " a=" + (count ? fmt(a[0]) : "-") + " b=" + (count ? fmt(b[0]) : "-");
      Framed in(MAXC * sizeof(T)), inout(MAXC * sizeof(T)), res(MAXC * sizeof(T));
      memset(in.data(), 0x11, in.bytes);
      memset(inout.data(), 0x22, inout.bytes);
      memset(res.data(), 0x33, res.bytes);
      int rc               = MPI_SUCCESS;
      unsigned char* outp  = nullptr; /* where the result is expected */
      std::vector<unsigned char> before;
      bool i_check = true;
      if (!strcmp(mode, "local")) {
        memcpy(in.data(), a, count * sizeof(T));
        memcpy(inout.data(), b, count * sizeof(T));
        before.assign(inout.data(), inout.data() + inout.bytes);
        rc   = MPI_Reduce_local(in.data(), inout.data(), count, ti.dt, ophandle(op));
        outp = inout.data();
      } else if (!strcmp(mode, "allreduce")) {
        memcpy(in.data(), me == 0 ? (void*)a : (void*)b, count * sizeof(T));
        before.assign(inout.data(), inout.data() + inout.bytes);
        rc   = MPI_Allreduce(in.data(), inout.data(), count, ti.dt, ophandle(op), MPI_COMM_WORLD);
        outp = inout.data();
      } else { /* rma: rank 0 is the origin, rank 1 owns the target */
        memset(target.data(), 0x22, target.bytes);
        if (me == 1)
          memcpy(target.data(), b, count * sizeof(T));
        before.assign(target.data(), target.data() + target.bytes);
        memcpy(in.data(), a, count * sizeof(T));
        MPI_Win_fence(0, win);
        if (me == 0) {
          if (op == REPLACE_)
            rc = MPI_Accumulate(in.data(), count, ti.dt, 1, 0, count, ti.dt, MPI_REPLACE, win);
          else
            rc = MPI_Get_accumulate(in.data(), count, ti.dt, res.data(), count, ti.dt, 1, 0, count, ti.dt, MPI_NO_OP, win);
        }
        MPI_Win_fence(0, win);
        if (me == 0) {
          /* origin: NO_OP must have fetched the old target value b; REPLACE returns nothing */
          if (op == NOOP_ && rc == MPI_SUCCESS) {
            for (int i = 0; i < count; i++) {
              T got;
              memcpy(&got, res.data() + i * sizeof(T), sizeof(T));
              n_elems++;
              if (!same(got, b[i]))
                viol("wrong-result", ctx, "elem=" + std::to_string(i) + " fetched=" + fmt(got) + " exp=" + fmt(b[i]));
            }
          }
          if (!res.intact() || !in.intact())
            viol("frame-overrun", ctx, "origin buffers");
          if (rc != MPI_SUCCESS)
            viol("valid-pair-rejected", ctx, "rc=" + std::to_string(rc));
          i_check = false;
        }
        outp  = target.data();
        valid = true;
      }
      if (!i_check)
        continue;
      Framed& outbuf = is_rma ? target : inout;
      if (rc != MPI_SUCCESS) {
        n_rejected++;
        if (valid)
          viol("valid-pair-rejected", ctx, "rc=" + std::to_string(rc));
        if (memcmp(outp, before.data(), outbuf.bytes))
          viol("rejected-but-wrote", ctx, "rc=" + std::to_string(rc));
      } else {
        for (int i = 0; i < count; i++) {
          T got;
          memcpy(&got, outp + i * sizeof(T), sizeof(T));
          n_elems++;
          if (st[i] == NOMEANING) {
            n_accepted_nomeaning++;
            continue;
          }
          if (st[i] == UNCONSTRAINED)
            continue;
          if (!same(got, exp[i]))
            viol("wrong-result", ctx,
                 "elem=" + std::to_string(i) + " in=" + fmt(a[i]) + " inout=" + fmt(b[i]) + " got=" + fmt(got) + " exp=" + fmt(exp[i]));
        }
        /* bytes after the count elements must be untouched */
        if (memcmp(outp + count * sizeof(T), before.data() + count * sizeof(T), outbuf.bytes - count * sizeof(T)))
          viol("wrote-beyond-count", ctx, "");
      }
      if (!in.intact() || !outbuf.intact())
        viol("frame-overrun", ctx, "canary frame damaged");
      if (!is_rma || me == 0) {
        const void* orig = (!strcmp(mode, "allreduce") && me == 1) ? (const void*)b : (const void*)a;
        if (memcmp(in.data(), orig, count * sizeof(T)))
          viol("input-modified", ctx, "");
      }
    }
  }
  if (is_rma)
    MPI_Win_free(&win);
}

/* pick the machine type from category and reported size */
template <class V> void run_pairtype(const TypeInfo& ti, int op, bool same_index)
{
  if (same_index)
    run_pair(ti, op, pair_alphabet<V, V>());
  else
    run_pair(ti, op, pair_alphabet<V, int>());
}
static bool dispatch(const TypeInfo& ti, int op, size_t size, size_t extent)
{
  switch (ti.cat) {
    case SINT:
      if (size == 1) run_pair(ti, op, alphabet<int8_t>());
      else if (size == 2) run_pair(ti, op, alphabet<int16_t>());
      else if (size == 4) run_pair(ti, op, alphabet<int32_t>());
      else if (size == 8) run_pair(ti, op, alphabet<int64_t>());
      else if (size == 16) run_pair(ti, op, alphabet<__int128>());
      else return false;
      return true;
    case UINT:
      if (size == 1) run_pair(ti, op, alphabet<uint8_t>());
      else if (size == 2) run_pair(ti, op, alphabet<uint16_t>());
      else if (size == 4) run_pair(ti, op, alphabet<uint32_t>());
      else if (size == 8) run_pair(ti, op, alphabet<uint64_t>());
      else return false;
      return true;
    case FLT:
      if (size == 4) run_pair(ti, op, alphabet<float>());
      else if (size == 8) run_pair(ti, op, alphabet<double>());
      else if (size == 16) run_pair(ti, op, alphabet<long double>());
      else return false;
      return true;
    case BOOLC:
      if (size == 1) run_pair(ti, op, alphabet<bool>());
      else return false;
      return true;
    case CPLX:
      if (size == 8) run_pair(ti, op, alphabet<std::complex<float>>());
      else if (size == 16) run_pair(ti, op, alphabet<std::complex<double>>());
      else if (size == 32) run_pair(ti, op, alphabet<std::complex<long double>>());
      else return false;
      return true;
    case PAIRI:
    case PAIRV: {
      bool sv = ti.cat == PAIRV;
      size_t want;
      if (ti.valcat == FLT && ti.valsize == 4) { want = sv ? sizeof(Pair<float, float>) : sizeof(Pair<float, int>); if (extent != want) return false; run_pairtype<float>(ti, op, sv); }
      else if (ti.valcat == FLT && ti.valsize == 8) { want = sv ? sizeof(Pair<double, double>) : sizeof(Pair<double, int>); if (extent != want) return false; run_pairtype<double>(ti, op, sv); }
      else if (ti.valcat == FLT && ti.valsize == 16) { want = sizeof(Pair<long double, int>); if (extent != want || sv) return false; run_pairtype<long double>(ti, op, false); }
      else if (ti.valcat == SINT && ti.valsize == 2) { want = sizeof(Pair<short, int>); if (extent != want || sv) return false; run_pairtype<short>(ti, op, false); }
      else if (ti.valcat == SINT && ti.valsize == 4) { want = sizeof(Pair<int, int>); if (extent != want) return false; run_pairtype<int>(ti, op, true); }
      else if (ti.valcat == SINT && ti.valsize == 8) { want = sv ? sizeof(Pair<long, long>) : sizeof(Pair<long, int>); if (extent != want) return false; run_pairtype<long>(ti, op, sv); }
      else return false;
      return true;
    }
  }
  return false;
}

int main(int argc, char** argv)
{
  MPI_Init(&argc, &argv);
  MPI_Comm_rank(MPI_COMM_WORLD, &me);
  MPI_Comm_size(MPI_COMM_WORLD, &np);
  MPI_Comm_set_errhandler(MPI_COMM_WORLD, MPI_ERRORS_RETURN);
  if (argc < 5) {
    MPI_Finalize();
    return 2;
  }
  mode           = argv[1];
  long first     = atol(argv[2]);
  long last      = atol(argv[3]);
  only_case      = atol(argv[4]);
  for (const char* c = argc > 5 ? argv[5] : "0,1,3"; c && *c; c = strchr(c, ',') ? strchr(c, ',') + 1 : nullptr)
    if (atoi(c) <= MAXC)
      counts.push_back(atoi(c));
  const bool sc  = CHAR_MIN < 0;
#define TI(n, cat, grp, msz) {#n, n, cat, grp, msz, 0, SINT}
#define TP(n, cat, vcat, vsz) {#n, n, cat, G_PAIR, 0, vsz, vcat}
#define TPO(n, cat, vcat, vsz) {#n, n, cat, G_PAIR | G_OPT, 0, vsz, vcat}
  std::vector<TypeInfo> types = {
      TI(MPI_CHAR, sc ? SINT : UINT, G_NONE, 1), TI(MPI_SHORT, SINT, G_CINT, 0), TI(MPI_INT, SINT, G_CINT, 0), TI(MPI_LONG, SINT, G_CINT, 0),
      TI(MPI_LONG_LONG, SINT, G_CINT, 0), TI(MPI_SIGNED_CHAR, SINT, G_CINT, 1), TI(MPI_UNSIGNED_CHAR, UINT, G_CINT, 1),
      TI(MPI_UNSIGNED_SHORT, UINT, G_CINT, 0), TI(MPI_UNSIGNED, UINT, G_CINT, 0), TI(MPI_UNSIGNED_LONG, UINT, G_CINT, 0),
      TI(MPI_UNSIGNED_LONG_LONG, UINT, G_CINT, 0), TI(MPI_FLOAT, FLT, G_FLOAT, 0), TI(MPI_DOUBLE, FLT, G_FLOAT, 0),
      TI(MPI_LONG_DOUBLE, FLT, G_FLOAT, 0), TI(MPI_WCHAR, (wchar_t)-1 < 0 ? SINT : UINT, G_NONE, 0), TI(MPI_C_BOOL, BOOLC, G_LOGICAL, 0),
      TI(MPI_INT8_T, SINT, G_CINT, 1), TI(MPI_INT16_T, SINT, G_CINT, 2), TI(MPI_INT32_T, SINT, G_CINT, 4), TI(MPI_INT64_T, SINT, G_CINT, 8),
      TI(MPI_UINT8_T, UINT, G_CINT, 1), TI(MPI_UINT16_T, UINT, G_CINT, 2), TI(MPI_UINT32_T, UINT, G_CINT, 4), TI(MPI_UINT64_T, UINT, G_CINT, 8),
      TI(MPI_BYTE, UINT, G_BYTE, 1), TI(MPI_C_FLOAT_COMPLEX, CPLX, G_COMPLEX, 0), TI(MPI_C_DOUBLE_COMPLEX, CPLX, G_COMPLEX, 0),
      TI(MPI_C_LONG_DOUBLE_COMPLEX, CPLX, G_COMPLEX, 0), TI(MPI_AINT, SINT, G_MULTI, 0), TI(MPI_OFFSET, SINT, G_MULTI, 0),
      TI(MPI_COUNT, SINT, G_MULTI, 0), TI(MPI_REAL, FLT, G_FLOAT, 0), TI(MPI_REAL4, FLT, G_FLOAT | G_OPT, 4), TI(MPI_REAL8, FLT, G_FLOAT | G_OPT, 8),
      TI(MPI_REAL16, FLT, G_FLOAT | G_OPT, 16), TI(MPI_COMPLEX8, CPLX, G_COMPLEX | G_OPT, 8), TI(MPI_COMPLEX16, CPLX, G_COMPLEX | G_OPT, 16),
      TI(MPI_COMPLEX32, CPLX, G_COMPLEX | G_OPT, 32), TI(MPI_INTEGER1, SINT, G_FINT | G_OPT, 1), TI(MPI_INTEGER2, SINT, G_FINT | G_OPT, 2),
      TI(MPI_INTEGER4, SINT, G_FINT | G_OPT, 4), TI(MPI_INTEGER8, SINT, G_FINT | G_OPT, 8), TI(MPI_INTEGER16, SINT, G_FINT | G_OPT, 16),
      TI(MPI_CXX_BOOL, BOOLC, G_LOGICAL | G_OPT, 0), TI(MPI_CXX_FLOAT_COMPLEX, CPLX, G_COMPLEX | G_OPT, 0), TI(MPI_CXX_DOUBLE_COMPLEX, CPLX, G_COMPLEX | G_OPT, 0),
      TI(MPI_CXX_LONG_DOUBLE_COMPLEX, CPLX, G_COMPLEX | G_OPT, 0),
      TP(MPI_FLOAT_INT, PAIRI, FLT, 4), TP(MPI_DOUBLE_INT, PAIRI, FLT, 8), TP(MPI_LONG_INT, PAIRI, SINT, 8), TP(MPI_SHORT_INT, PAIRI, SINT, 2),
      TP(MPI_2INT, PAIRI, SINT, 4), TP(MPI_LONG_DOUBLE_INT, PAIRI, FLT, 16), TPO(MPI_2FLOAT, PAIRV, FLT, 4), TPO(MPI_2DOUBLE, PAIRV, FLT, 8),
      TPO(MPI_2LONG, PAIRV, SINT, 8)};
  int nt = (int)types.size();
  for (int op = 0; op < NOPS; op++)
    for (int t = 0; t < nt; t++) {
      long pair = (long)op * nt + t;
      if (pair < first || pair > last)
        continue;
      const TypeInfo& ti = types[t];
      int size           = -1;
      MPI_Aint lb = 0, extent = -1;
      MPI_Type_size(ti.dt, &size);
      MPI_Type_get_extent(ti.dt, &lb, &extent);
      curop    = opname[op];
      curtype  = ti.name;
      cur_pair = pair;
      case_ord = 0;
      if (me == 0) {
        printf("P pair=%ld op=%s type=%s valid=%d size=%d extent=%ld mpisize=%d\n", pair, opname[op], ti.name, mpi_valid(op, ti.group) ? 1 : 0, size,
               (long)extent, ti.mpi_size);
        fflush(stdout);
      }
      n_cases = n_elems = n_unconstrained = n_rejected = n_accepted_nomeaning = n_ties = 0;
      kcount.clear();
      bool ok = dispatch(ti, op, (size_t)size, (size_t)extent);
      if (!ok && me == 0)
        printf("T skipped=1 type=%s size=%d extent=%ld\n", ti.name, size, (long)extent);
      for (auto const& [k, n] : kcount) {
        size_t p1 = k.find('|'), p2 = k.find('|', p1 + 1);
        printf("S rank=%d kind=%s/%s/%s/%s count=%ld\n", me, k.substr(0, p1).c_str(), mode, k.substr(p1 + 1, p2 - p1 - 1).c_str(),
               k.substr(p2 + 1).c_str(), n);
      }
      printf("N rank=%d mode=%s pair=%ld cases=%ld elems=%ld unconstrained=%ld rejected_cases=%ld accepted_without_natural_meaning=%ld ties=%ld\n", me,
             mode, pair, n_cases, n_elems, n_unconstrained, n_rejected, n_accepted_nomeaning, n_ties);
      fflush(stdout);
    }
  fflush(stdout);
  MPI_Finalize();
  return 0;
}
