// E5 "lmmx": exhaustive, stateful exploration of modification histories on the real simgrid::kernel::lmm::System.
//
//   lmmx --mode c15|c16|c17|c18 --solver maxmin|bmf|fairbottleneck --sel 0|1 --nc N --pol SF.. --lim l0,l1,..
//        --V slots --ops NXFVPCS --pnew .. --wnew .. --wx .. --bv .. --pset .. --bc .. --cb0 B
//        --start 0|1|2 --prefix HIST --depth D [--replay HIST] [--check-dump FILE]
//
// A *state* is the complete (visible + hidden) state of the system(s) driven by a history; states are de-duplicated on
// a fingerprint of that state, so that every distinct state is expanded once (BFS, level = history length).
// Systems cannot be copied, so a state is re-created by replaying its (shortest) history on fresh systems.
// Output: one JSON object on stdout.
#include "simgrid/kernel/resource/Action.hpp"
#include "simgrid/kernel/resource/Model.hpp"
#include "src/kernel/lmm/bmf.hpp"
#include "src/kernel/lmm/fair_bottleneck.hpp"
#include "src/kernel/lmm/maxmin.hpp"
#include <simgrid/s4u.hpp>

#include "oracle.hpp"

#include <climits>
#include <csetjmp>
#include <csignal>
#include <cstdio>
#include <cstdlib>
#include <fcntl.h>
#include <map>
#include <sys/mman.h>
#include <sys/time.h>
#include <unistd.h>
#include <unordered_set>

using namespace simgrid::kernel;
using oracle::PlainSystem;
using oracle::Verdict;

struct DummyAction : resource::Action {
  using resource::Action::Action;
  void update_remains_lazy(double) override {}
};

/* ------------------------------------------------------------------------------------------------ configuration */
struct Config {
  std::string mode = "c17", solver = "maxmin", pol = "SS", prefix, ops = "NXFVPCS";
  int sel = 1, nc = 2, V = 3, start = 0, depth = 3, maxviol = 200;
  int latex = 0; // 1: expand() allowed on any live variable at any time; 0: only while the variable is being created
  std::vector<int> lim;
  std::vector<double> pnew{0, 1}, wnew{0.5, 1}, wx{0.5, 1}, bv{-1, 0.5}, pset{0, 1, 2}, bc{1, 2};
  double cb0 = 1;
};
static Config cfg;

static std::vector<double> parse_list(const char* s)
{
  std::vector<double> r;
  std::string str(s);
  size_t pos = 0;
  while (pos < str.size()) {
    size_t e = str.find(',', pos);
    if (e == std::string::npos)
      e = str.size();
    if (e > pos)
      r.push_back(atof(str.substr(pos, e - pos).c_str()));
    pos = e + 1;
  }
  return r;
}

/* ------------------------------------------------------------------------------------------------ operations */
struct OpX {
  char kind = '?'; // N X F B(var bound) P(penalty) C(cnst bound) S
  int a = 0, b = 0;
  double x = 0, y = 0; // N: x=penalty y=weight
};
static std::string num(double x)
{
  char buf[32];
  snprintf(buf, sizeof buf, "%g", x);
  return buf;
}
static std::string ops_to_str(const OpX& o)
{
  switch (o.kind) {
    case 'N':
      return "N:" + num(o.x) + ":" + std::to_string(o.a) + ":" + num(o.y); // N:penalty:cnst:weight
    case 'X':
      return "X:" + std::to_string(o.a) + ":" + std::to_string(o.b) + ":" + num(o.x); // X:var:cnst:weight
    case 'F':
      return "F:" + std::to_string(o.a);
    case 'B':
      return "VB:" + std::to_string(o.a) + ":" + num(o.x);
    case 'P':
      return "SP:" + std::to_string(o.a) + ":" + num(o.x);
    case 'C':
      return "CB:" + std::to_string(o.a) + ":" + num(o.x);
    case 'S':
      return "S";
  }
  return "?";
}
static std::string op_class(const OpX& o)
{
  switch (o.kind) {
    case 'N':
      return o.x > 0 ? "new-enabled" : "new-disabled";
    case 'X':
      return "expand";
    case 'F':
      return "free";
    case 'B':
      return "set-var-bound";
    case 'P':
      return o.x > 0 ? "set-penalty-positive" : "set-penalty-0";
    case 'C':
      return "set-cnst-bound";
    case 'S':
      return "solve";
  }
  return "?";
}
static bool parse_op(const std::string& t, OpX& o)
{
  std::vector<std::string> f;
  size_t pos = 0;
  while (pos <= t.size()) {
    size_t e = t.find(':', pos);
    if (e == std::string::npos)
      e = t.size();
    f.push_back(t.substr(pos, e - pos));
    pos = e + 1;
  }
  o = OpX();
  if (f[0] == "N" && f.size() == 4) {
    o.kind = 'N';
    o.x    = atof(f[1].c_str());
    o.a    = atoi(f[2].c_str());
    o.y    = atof(f[3].c_str());
  } else if (f[0] == "X" && f.size() == 4) {
    o.kind = 'X';
    o.a    = atoi(f[1].c_str());
    o.b    = atoi(f[2].c_str());
    o.x    = atof(f[3].c_str());
  } else if (f[0] == "F" && f.size() == 2) {
    o.kind = 'F';
    o.a    = atoi(f[1].c_str());
  } else if (f[0] == "VB" && f.size() == 3) {
    o.kind = 'B';
    o.a    = atoi(f[1].c_str());
    o.x    = atof(f[2].c_str());
  } else if (f[0] == "SP" && f.size() == 3) {
    o.kind = 'P';
    o.a    = atoi(f[1].c_str());
    o.x    = atof(f[2].c_str());
  } else if (f[0] == "CB" && f.size() == 3) {
    o.kind = 'C';
    o.a    = atoi(f[1].c_str());
    o.x    = atof(f[2].c_str());
  } else if (f[0] == "S" && f.size() == 1) {
    o.kind = 'S';
  } else
    return false;
  return true;
}
static std::vector<OpX> parse_hist(const std::string& h)
{
  std::vector<OpX> r;
  size_t pos = 0;
  while (pos < h.size()) {
    size_t e = h.find(';', pos);
    if (e == std::string::npos)
      e = h.size();
    if (e > pos) {
      OpX o;
      if (not parse_op(h.substr(pos, e - pos), o)) {
        fprintf(stdout, "{\"error\":\"bad op '%s'\"}\n", h.substr(pos, e - pos).c_str());
        exit(2);
      }
      r.push_back(o);
    }
    pos = e + 1;
  }
  return r;
}
static std::string hist_str(const std::vector<OpX>& h)
{
  std::string s;
  for (auto const& o : h) {
    if (not s.empty())
      s += ";";
    s += ops_to_str(o);
  }
  return s;
}

static std::vector<OpX> alphabet;
static void build_alphabet()
{
  auto has = [](char k) { return cfg.ops.find(k) != std::string::npos; };
  if (has('N'))
    for (double p : cfg.pnew)
      for (int c = 0; c < cfg.nc; c++)
        for (double w : cfg.wnew) {
          OpX o;
          o.kind = 'N';
          o.x    = p;
          o.a    = c;
          o.y    = w;
          alphabet.push_back(o);
        }
  if (has('X'))
    for (int v = 0; v < cfg.V; v++)
      for (int c = 0; c < cfg.nc; c++)
        for (double w : cfg.wx) {
          OpX o;
          o.kind = 'X';
          o.a    = v;
          o.b    = c;
          o.x    = w;
          alphabet.push_back(o);
        }
  if (has('F'))
    for (int v = 0; v < cfg.V; v++) {
      OpX o;
      o.kind = 'F';
      o.a    = v;
      alphabet.push_back(o);
    }
  if (has('V'))
    for (int v = 0; v < cfg.V; v++)
      for (double b : cfg.bv) {
        OpX o;
        o.kind = 'B';
        o.a    = v;
        o.x    = b;
        alphabet.push_back(o);
      }
  if (has('P'))
    for (int v = 0; v < cfg.V; v++)
      for (double p : cfg.pset) {
        OpX o;
        o.kind = 'P';
        o.a    = v;
        o.x    = p;
        alphabet.push_back(o);
      }
  if (has('C'))
    for (int c = 0; c < cfg.nc; c++)
      for (double b : cfg.bc) {
        OpX o;
        o.kind = 'C';
        o.a    = c;
        o.x    = b;
        alphabet.push_back(o);
      }
  if (has('S')) {
    OpX o;
    o.kind = 'S';
    alphabet.push_back(o);
  }
}

/* ------------------------------------------------------------------------------------------------ abort / hang guard */
static sigjmp_buf guard_jb;
static volatile sig_atomic_t guarded = 0;
static volatile unsigned long op_seq = 0;
static unsigned long tick_seen_seq   = 0;
static int tick_count                = 0;
static int err_fd                    = -1;

static void unblock(int sig)
{
  sigset_t s;
  sigemptyset(&s);
  sigaddset(&s, sig);
  sigprocmask(SIG_UNBLOCK, &s, nullptr);
}
static void on_fatal(int sig)
{
  if (guarded) {
    guarded = 0;
    unblock(sig);
    siglongjmp(guard_jb, sig == SIGABRT ? 1 : 3);
  }
  signal(sig, SIG_DFL);
  raise(sig);
}
static void on_tick(int sig)
{
  if (not guarded) {
    tick_count = 0;
    return;
  }
  if (op_seq == tick_seen_seq) {
    if (++tick_count >= 2) {
      guarded    = 0;
      tick_count = 0;
      unblock(sig);
      siglongjmp(guard_jb, 2);
    }
  } else {
    tick_seen_seq = op_seq;
    tick_count    = 0;
  }
}
static void install_guards()
{
  struct sigaction sa;
  memset(&sa, 0, sizeof sa);
  sa.sa_handler = on_fatal;
  sa.sa_flags   = SA_NODEFER;
  sigaction(SIGABRT, &sa, nullptr);
  sigaction(SIGSEGV, &sa, nullptr);
  sigaction(SIGFPE, &sa, nullptr);
  sa.sa_handler = on_tick;
  sigaction(SIGVTALRM, &sa, nullptr);
  struct itimerval it;
  it.it_interval.tv_sec  = 0;
  it.it_interval.tv_usec = 25000; // CPU time of this process: an op still running after 25-50 ms of CPU is hung
                                  // (a solve of these systems takes microseconds; bmf's 1000 iterations a few ms)
  it.it_value            = it.it_interval;
  setitimer(ITIMER_VIRTUAL, &it, nullptr);
  // stderr of the kernel (assert messages, bmf's "Unable to find a BMF allocation") goes to a memfd we can read back
  err_fd = memfd_create("lmmx-stderr", 0);
  if (err_fd >= 0) {
    fflush(stderr);
    dup2(err_fd, 2);
  }
}
static std::string take_stderr()
{
  std::string out;
  if (err_fd < 0)
    return out;
  fflush(stderr);
  off_t n = lseek(err_fd, 0, SEEK_END);
  if (n > 0) {
    out.resize(std::min<off_t>(n, 4000));
    lseek(err_fd, 0, SEEK_SET);
    ssize_t r = read(err_fd, out.data(), out.size());
    out.resize(r > 0 ? r : 0);
  }
  if (ftruncate(err_fd, 0) == 0)
    lseek(err_fd, 0, SEEK_SET);
  return out;
}
// short stable label of what the kernel said when it aborted
static std::string abort_label(const std::string& err)
{
  if (err.find("Unable to find a BMF allocation") != std::string::npos)
    return "bmf-explicit-error";
  size_t p = err.find("] ");
  std::string l = err.substr(p == std::string::npos ? 0 : p + 2);
  size_t e      = l.find('\n');
  if (e != std::string::npos)
    l = l.substr(0, e);
  // drop numbers (volatile)
  std::string r;
  for (char ch : l)
    r += (isdigit((unsigned char)ch) ? '#' : ch);
  if (r.size() > 90)
    r.resize(90);
  return r.empty() ? "abort" : r;
}

/* ------------------------------------------------------------------------------------------------ systems */
static resource::Model* g_model;
static std::vector<std::vector<DummyAction*>> g_actions; // [system role][slot], never destroyed

struct Sys {
  lmm::System* sys = nullptr;
  std::string solver;
  bool sel  = false;
  int role  = 0; // index in g_actions
  std::vector<lmm::Constraint*> c;
  std::vector<lmm::Variable*> v;
  std::vector<int> birth;
  int next_birth = 0;
  int creating   = -1; // slot of the variable whose creation (variable_new + expands) is still going on

  void build(const std::string& solver_, bool sel_, int role_, bool with_limits)
  {
    solver = solver_;
    sel    = sel_;
    role   = role_;
    sys    = lmm::System::build(solver, sel);
    // performance only: the variable mallocator pre-allocates min(max_size/2,1000) Variables and a 512 kB table on its
    // first use, i.e. for every system we create; shrink it (layout prefix of s_xbt_mallocator_t: objects, current, max)
    struct MallocatorPrefix {
      void** objects;
      int current_size;
      int max_size;
    };
    reinterpret_cast<MallocatorPrefix*>(sys->variable_mallocator_)->max_size = 8;
    c.clear();
    for (int i = 0; i < cfg.nc; i++) {
      auto* cn = sys->constraint_new(nullptr, cfg.cb0);
      if (cfg.pol[i] == 'F')
        cn->unshare();
      cn->set_concurrency_limit(with_limits ? cfg.lim[i] : -1);
      c.push_back(cn);
    }
    v.assign(cfg.V, nullptr);
    birth.assign(cfg.V, -1);
    next_birth = 0;
    creating   = -1;
  }
  void destroy()
  {
    if (not sys)
      return;
    clear_modified_actions();
    for (auto*& var : v)
      if (var) {
        sys->variable_free(var);
        var = nullptr;
      }
    delete sys;
    sys = nullptr;
  }
  void leak() { sys = nullptr; } // after an abort inside the kernel: state unknown, do not touch it again
  void clear_modified_actions()
  {
    if (auto* ms = sys->get_modified_action_set())
      while (not ms->empty())
        ms->pop_front();
  }
  int free_slot() const
  {
    for (int i = 0; i < cfg.V; i++)
      if (not v[i])
        return i;
    return -1;
  }
  bool applicable(const OpX& o) const
  {
    switch (o.kind) {
      case 'N':
        return free_slot() >= 0;
      case 'X':
        return o.a < cfg.V && v[o.a] != nullptr && (cfg.latex || creating == o.a);
      case 'F':
      case 'B':
      case 'P':
        return o.a < cfg.V && v[o.a] != nullptr;
      case 'C':
        return o.a < cfg.nc;
      default:
        return true;
    }
  }
  void apply(const OpX& o)
  {
    int was_creating = creating;
    creating         = -1;
    switch (o.kind) {
      case 'N': {
        int s    = free_slot();
        creating = s;
        v[s]     = sys->variable_new(g_actions[role][s], o.x, -1.0, cfg.nc);
        birth[s] = next_birth++;
        sys->expand(c[o.a], v[s], o.y);
        break;
      }
      case 'X':
        sys->expand(c[o.b], v[o.a], o.x);
        if (was_creating == o.a)
          creating = o.a;
        break;
      case 'F':
        sys->variable_free(v[o.a]);
        v[o.a]     = nullptr;
        birth[o.a] = -1;
        break;
      case 'B':
        sys->update_variable_bound(v[o.a], o.x);
        break;
      case 'P':
        sys->update_variable_penalty(v[o.a], o.x);
        break;
      case 'C':
        sys->update_constraint_bound(c[o.a], o.x);
        break;
      case 'S':
        sys->solve();
        clear_modified_actions(); // what Model::next_occurring_event_lazy does with the modified actions
        break;
    }
  }
  int slot_of(const lmm::Variable* var) const
  {
    for (int i = 0; i < cfg.V; i++)
      if (v[i] == var)
        return i;
    return 200; // a variable the harness does not know: would be a kernel bug, shows up in the fingerprint
  }
  int cidx(const lmm::Constraint* cn) const
  {
    for (int i = 0; i < cfg.nc; i++)
      if (c[i] == cn)
        return i;
    return 200;
  }
  PlainSystem plain() const
  {
    PlainSystem p;
    p.solver = solver;
    for (int i = 0; i < cfg.nc; i++)
      p.c.push_back({c[i]->bound_, c[i]->sharing_policy_ != lmm::Constraint::SharingPolicy::FATPIPE,
                     c[i]->get_concurrency_limit(), c[i]->concurrency_current_});
    for (int s = 0; s < cfg.V; s++)
      if (v[s]) {
        oracle::PVar pv;
        pv.id      = s;
        pv.penalty = v[s]->sharing_penalty_;
        pv.staged  = v[s]->staged_sharing_penalty_;
        pv.bound   = v[s]->bound_;
        pv.value   = v[s]->value_;
        for (auto const& e : v[s]->cnsts_)
          pv.el.push_back({cidx(e.constraint), e.consumption_weight, e.max_consumption_weight});
        p.v.push_back(pv);
      }
    return p;
  }
};

/* ------------------------------------------------------------------------------------------------ fingerprint */
static inline void put(std::string& o, const void* p, size_t n)
{
  o.append((const char*)p, n);
}
static inline void putb(std::string& o, int b)
{
  o.push_back((char)b);
}
static inline void putd(std::string& o, double d)
{
  if (d == 0)
    d = 0; // -0 == +0
  put(o, &d, sizeof d);
}
constexpr unsigned K_HORIZON = 24; // larger than any explored history length

// full = everything any later operation can read; conc = only what the concurrency machinery reads (C18)
static void fingerprint(std::string& o, const Sys& S, bool conc_only)
{
  auto* sys = S.sys;
  putb(o, cfg.latex ? -1 : S.creating);
  if (not conc_only) {
    putb(o, sys->modified_);
    unsigned w = 1u - sys->visited_counter_; // solves until the counter is 1 again (wrap-around reset)
    putb(o, (S.sel && w <= K_HORIZON) ? (int)w : 255);
    for (auto const& var : sys->variable_set)
      putb(o, S.slot_of(&var));
    putb(o, 254);
    for (auto const& cn : sys->active_constraint_set)
      putb(o, S.cidx(&cn));
    putb(o, 254);
    for (auto const& cn : sys->modified_constraint_set)
      putb(o, S.cidx(&cn));
    putb(o, 254);
    for (auto const& var : sys->saturated_variable_set)
      putb(o, S.slot_of(&var));
    putb(o, 254);
    for (auto const& cn : sys->saturated_constraint_set)
      putb(o, S.cidx(&cn));
    putb(o, 254);
    if (auto* ms = sys->get_modified_action_set())
      putb(o, (int)std::min<size_t>(ms->size(), 250));
    if (auto* mm = dynamic_cast<lmm::MaxMin*>(sys)) {
      for (int x : mm->saturated_constraints)
        putb(o, x);
      putb(o, 254);
    }
  }
  for (int i = 0; i < cfg.nc; i++) {
    auto* cn = S.c[i];
    putb(o, cn->concurrency_current_);
    if (conc_only) {
      unsigned mask = 0; // the enabled list is only ever read as a set by the concurrency code
      for (auto const& e : cn->enabled_element_set_)
        mask |= 1u << S.slot_of(e.variable);
      putb(o, mask & 0xff);
    } else {
      putd(o, cn->bound_);
      putd(o, cn->remaining_);
      putd(o, cn->usage_);
      putd(o, cn->dynamic_bound_);
      putb(o, cn->cnst_light_ != nullptr);
      for (auto const& e : cn->enabled_element_set_)
        putb(o, S.slot_of(e.variable));
      putb(o, 254);
      for (auto const& e : cn->active_element_set_)
        putb(o, S.slot_of(e.variable));
    }
    putb(o, 254);
    for (auto const& e : cn->disabled_element_set_)
      putb(o, S.slot_of(e.variable));
    putb(o, 254);
  }
  for (int s = 0; s < cfg.V; s++) {
    auto* var = S.v[s];
    if (not var) {
      putb(o, 253);
      continue;
    }
    putb(o, 252);
    putd(o, var->sharing_penalty_);
    putd(o, var->staged_sharing_penalty_);
    if (not conc_only) {
      putd(o, var->bound_);
      putd(o, var->value_);
      putd(o, var->mu_);
      unsigned d = var->visited_ - sys->visited_counter_; // solves until this stamp equals the counter
      putb(o, (S.sel && d <= K_HORIZON) ? (int)d : 255);
    }
    for (auto const& e : var->cnsts_) {
      putb(o, S.cidx(e.constraint));
      putd(o, e.consumption_weight);
      if (not conc_only) {
        putd(o, e.max_consumption_weight);
        putb(o, (e.enabled_element_set_hook.is_linked() ? 1 : 0) | (e.disabled_element_set_hook.is_linked() ? 2 : 0) |
                    (e.active_element_set_hook.is_linked() ? 4 : 0));
      }
    }
    putb(o, 254);
  }
}

/* ------------------------------------------------------------------------------------------------ rig = the systems of one state */
struct Rig {
  std::vector<Sys> s;
  bool alive = false;

  void build()
  {
    s.clear();
    if (cfg.mode == "c17") {
      s.resize(2);
      s[0].build("maxmin", true, 0, true);
      s[1].build("maxmin", false, 1, true);
    } else {
      s.resize(1);
      s[0].build(cfg.solver, cfg.sel, 0, true);
    }
    alive = true;
  }
  void destroy()
  {
    for (auto& x : s)
      x.destroy();
    alive = false;
  }
  void leak()
  {
    for (auto& x : s)
      x.leak();
    alive = false;
  }
  void preset_counter()
  {
    for (auto& x : s)
      x.sys->visited_counter_ = cfg.start == 3 ? UINT_MAX : UINT_MAX - 1;
  }
  void fp(std::string& o) const
  {
    o.clear();
    for (auto const& x : s) {
      fingerprint(o, x, cfg.mode == "c18");
      putb(o, 251);
    }
  }
};

/* ------------------------------------------------------------------------------------------------ results */
struct ViolClass {
  long count = 0;
  std::string hist, detail;
  size_t len = 0;
};
static std::map<std::string, ViolClass> violations;
static std::map<std::string, ViolClass> unjudged; // aborts/hangs that the property statement does not cover
static std::map<std::string, long> stats;
static long n_transitions = 0, n_oracle = 0;

static void record(std::map<std::string, ViolClass>& m, const std::string& cls, const std::vector<OpX>& hist,
                   const std::string& detail)
{
  auto& v = m[cls];
  v.count++;
  if (v.count == 1 || hist.size() < v.len) {
    v.hist   = hist_str(hist);
    v.len    = hist.size();
    v.detail = detail;
  }
}

static bool g_verbose = false; // replay mode: narrate
#define SAY(...)                                                                                                       \
  do {                                                                                                                 \
    if (g_verbose) {                                                                                                   \
      printf(__VA_ARGS__);                                                                                             \
    }                                                                                                                  \
  } while (0)

static void describe(const Sys& S, const char* tag)
{
  if (not g_verbose)
    return;
  PlainSystem p = S.plain();
  printf("    [%s %s sel=%d] modified=%d counter=%u modified_cnsts={", tag, S.solver.c_str(), S.sel, S.sys->modified_,
         S.sys->visited_counter_);
  for (auto const& cn : S.sys->modified_constraint_set)
    printf("c%d ", S.cidx(&cn));
  printf("}\n");
  for (size_t i = 0; i < p.c.size(); i++)
    printf("      c%zu bound=%g %s limit=%d concurrency=%d\n", i, p.c[i].bound, p.c[i].shared ? "SHARED" : "FATPIPE",
           p.c[i].limit, p.c[i].conc);
  for (auto const& v : p.v) {
    printf("      v%d penalty=%g staged=%g bound=%g value=%.9g visited=%u on", v.id, v.penalty, v.staged, v.bound,
           v.value, S.v[v.id]->visited_);
    for (auto const& e : v.el)
      printf(" c%d*%g", e.c, e.w);
    printf("\n");
  }
}

/* Guarded application of one op on every system of the rig. Returns 0 ok, 1 abort, 2 hang, 3 crash; which = system index */
static int guarded_apply(Rig& rig, const OpX& o, int& which, std::string& label)
{
  for (size_t i = 0; i < rig.s.size(); i++) {
    which = i;
    op_seq++;
    int j = sigsetjmp(guard_jb, 0);
    if (j == 0) {
      guarded = 1;
      rig.s[i].apply(o);
      guarded = 0;
    } else {
      std::string err = take_stderr();
      label           = j == 1 ? abort_label(err) : (j == 2 ? "does-not-terminate" : "crash");
      return j;
    }
  }
  return 0;
}

/* C17: fresh system holding the current activities of S (rates only), solved from scratch */
static bool fresh_values(const PlainSystem& p, std::vector<double>& out, const std::vector<int>& birth_order,
                         std::string& label)
{
  Sys F;
  volatile bool ok = true;
  op_seq++;
  int j = sigsetjmp(guard_jb, 0);
  if (j == 0) {
    guarded = 1;
    F.build("maxmin", false, 2, false);
    for (int i = 0; i < cfg.nc; i++)
      F.sys->update_constraint_bound(F.c[i], p.c[i].bound);
    for (int slot : birth_order)
      for (auto const& pv : p.v)
        if (pv.id == slot) {
          F.v[slot] = F.sys->variable_new(g_actions[2][slot], pv.penalty, pv.bound, cfg.nc);
          for (auto const& e : pv.el)
            F.sys->expand(F.c[e.c], F.v[slot], e.w);
        }
    F.sys->solve();
    out.assign(cfg.V, 0.0);
    for (int s = 0; s < cfg.V; s++)
      if (F.v[s])
        out[s] = F.v[s]->value_;
    F.destroy();
    guarded = 0;
  } else {
    label = j == 1 ? abort_label(take_stderr()) : (j == 2 ? "does-not-terminate" : "crash");
    F.leak();
    ok = false;
  }
  return ok;
}


/* C17, classification only (never decides a verdict): which operation first left the lazy system with a constraint whose
 * solve-relevant content changed since its last solve but which is not flagged modified, or with a flagged constraint
 * sharing an enabled variable with an unflagged one. The case key names that operation, so that two different ways of
 * losing the propagation get two different keys. */
static std::vector<OpX> g_prefix;
static std::string attribute_c17(const std::vector<OpX>& hist)
{
  Sys L;
  std::string result = "none";
  op_seq++;
  int j = sigsetjmp(guard_jb, 0);
  if (j != 0) {
    take_stderr();
    L.leak();
    return "unknown";
  }
  guarded = 1;
  L.build("maxmin", true, 2, true);
  if (cfg.start == 1)
    L.sys->visited_counter_ = UINT_MAX - 1;
  auto snap_of = [&](int ci) {
    std::string o;
    bool users = false;
    for (int s = 0; s < cfg.V && not users; s++)
      if (L.v[s] && L.v[s]->sharing_penalty_ > 0)
        for (auto const& e : L.v[s]->cnsts_)
          users |= e.constraint == L.c[ci] && e.consumption_weight > 0;
    if (not users)
      return o; // nobody to give a rate to: nothing to recompute whatever changed
    putd(o, L.c[ci]->bound_);
    for (int s = 0; s < cfg.V; s++)
      if (L.v[s] && L.v[s]->sharing_penalty_ > 0)
        for (auto const& e : L.v[s]->cnsts_)
          if (e.constraint == L.c[ci] && e.consumption_weight > 0) {
            putb(o, s);
            putd(o, e.consumption_weight);
            putd(o, L.v[s]->sharing_penalty_);
            putd(o, L.v[s]->bound_);
          }
    return o;
  };
  std::vector<std::string> snap(cfg.nc);
  for (int i = 0; i < cfg.nc; i++)
    snap[i] = snap_of(i);
  unsigned broken = 0;
  std::string epoch;
  size_t n = 0;
  // a stamp equal to the counter at the beginning of an epoch was not put there by this epoch's propagation
  auto stale_now = [&]() {
    for (int s = 0; s < cfg.V; s++)
      if (L.v[s] && L.v[s]->visited_ == L.sys->visited_counter_)
        return true;
    return false;
  };
  bool stale = false;
  auto one = [&](const OpX& o) {
    bool was_modified = L.sys->modified_;
    unsigned flagged  = 0;
    for (int i = 0; i < cfg.nc; i++)
      if (L.c[i]->modified_constraint_set_hook_.is_linked())
        flagged |= 1u << i;
    L.apply(o);
    if (o.kind == 'S') {
      if (was_modified) {
        for (int i = 0; i < cfg.nc; i++)
          if (flagged & (1u << i))
            snap[i] = snap_of(i);
        if (not epoch.empty())
          result = epoch;
        epoch.clear();
        stale = stale_now();
      }
      return;
    }
    unsigned now = 0, fl = 0;
    for (int i = 0; i < cfg.nc; i++)
      if (L.c[i]->modified_constraint_set_hook_.is_linked())
        fl |= 1u << i;
    for (int i = 0; i < cfg.nc; i++)
      if (not(fl & (1u << i))) {
        std::string cur = snap_of(i);
        if (not cur.empty() && cur != snap[i])
          now |= 1u << i;
      }
    for (int s = 0; s < cfg.V; s++)
      if (L.v[s] && L.v[s]->sharing_penalty_ > 0) {
        unsigned used = 0;
        for (auto const& e : L.v[s]->cnsts_)
          if (e.consumption_weight > 0)
            used |= 1u << L.cidx(e.constraint);
        if (used & fl)
          now |= used & ~fl;
      }
    if ((now & ~broken) && epoch.empty()) {
      unsigned cnt = L.sys->visited_counter_;
      epoch = stale ? "stale-visited-stamp(counter=" + (cnt <= 3 ? std::to_string(cnt) : std::string("n")) + ")" : op_class(o);
    }
    broken = now;
  };
  for (auto const& o : g_prefix)
    one(o);
  if (cfg.start >= 2) {
    L.sys->visited_counter_ = cfg.start == 3 ? UINT_MAX : UINT_MAX - 1;
    stale                   = stale_now();
  }
  for (auto const& o : hist) {
    one(o);
    n++;
  }
  L.destroy();
  guarded = 0;
  return result;
}

static bool same(double a, double b)
{
  if (std::isnan(a) || std::isnan(b))
    return false;
  return std::fabs(a - b) <= 1e-9 * std::max({1.0, std::fabs(a), std::fabs(b)});
}

static const char* start_name()
{
  return cfg.start == 0 ? "plain"
                        : (cfg.start == 1 ? "counter-near-wrap"
                                          : (cfg.start == 2 ? "counter-near-wrap-stale-stamps" : "counter-at-wrap-stale-stamps"));
}

/* One transition: apply `o` to the rig whose history so far is `hist`, judge, update statistics.
 * pre_bad / post_bad: C18 invariant before/after (violations are reported on good->bad edges only).
 * Returns false when the rig must not be used any more (abort/hang). */
static bool step(Rig& rig, const std::vector<OpX>& hist, const OpX& o, bool pre_bad, bool& post_bad, bool judge)
{
  std::vector<OpX> h2 = hist;
  h2.push_back(o);
  post_bad = pre_bad;

  // pre-step observations
  bool was_modified = rig.s[0].sys->modified_;
  size_t n_mod = 0, n_act = 0;
  unsigned counter_before = rig.s[0].sys->visited_counter_;
  std::vector<double> staged_before(cfg.V, 0), pen_before(cfg.V, 0);
  if (judge) {
    n_mod = rig.s[0].sys->modified_constraint_set.size();
    n_act = rig.s[0].sys->active_constraint_set.size();
    for (int s = 0; s < cfg.V; s++)
      if (rig.s[0].v[s]) {
        staged_before[s] = rig.s[0].v[s]->staged_sharing_penalty_;
        pen_before[s]    = rig.s[0].v[s]->sharing_penalty_;
      }
  }

  int which = 0;
  std::string label;
  int out = guarded_apply(rig, o, which, label);
  if (out != 0) {
    SAY("  %-14s -> system %d: %s\n", ops_to_str(o).c_str(), which, label.c_str());
    if (judge) {
      stats["aborts:" + label]++;
      const std::string& m = cfg.mode;
      if (label == "bmf-explicit-error" && o.kind == 'S') {
        stats["bmf_explicit_errors"]++; // allowed outcome (C16 statement); C15 has no rates to judge
      } else if (m == "c18" && o.kind != 'S') {
        post_bad = true;
        if (not pre_bad)
          record(violations, "kernel-abort(" + label + ") after=" + op_class(o), h2, "the kernel aborted: " + label);
      } else if (m == "c17" && o.kind == 'S') {
        // lazy (or full) solve dies; does the fresh one? judged below only if it is the lazy system that died
        std::vector<double> fv;
        std::string l2;
        // the structure of the dead system is still readable (solve does not change it)
        PlainSystem p = rig.s[which].plain();
        std::vector<int> order;
        for (int b = 0; b < rig.s[which].next_birth; b++)
          for (int s = 0; s < cfg.V; s++)
            if (rig.s[which].birth[s] == b)
              order.push_back(s);
        bool fresh_ok = fresh_values(p, fv, order, l2);
        if (which == 0 && fresh_ok)
          record(violations, std::string("lazy-solve-fails(") + label + ")-fresh-solves", h2,
                 "solve() with selective update: " + label + "; a fresh system with the same activities solves fine");
        else
          record(unjudged, "solve-fails(" + label + ") system=" + (which == 0 ? "lazy" : "full") +
                               (fresh_ok ? "" : " fresh-too"),
                 h2, label);
      } else {
        record(unjudged,
               std::string(o.kind == 'S' ? "solve" : "op") + "-fails(" + label + ") solver=" + cfg.solver +
                   (cfg.sel ? "/lazy" : "/full"),
               h2, label);
      }
    }
    return false;
  }
  if (not judge)
    return true;

  Sys& A = rig.s[0];
  const std::string& m = cfg.mode;

  if (m == "c18") {
    PlainSystem p = A.plain();
    oracle::C18Stats st;
    Verdict v = oracle::check_c18(p, &st);
    n_oracle++;
    post_bad = not v;
    if (st.staged_vars)
      stats["steps_ending_with_staged_variables"]++;
    if (st.full_constraints)
      stats["steps_ending_with_full_constraints"]++;
    for (int s = 0; s < cfg.V; s++)
      if (A.v[s]) {
        bool target = (o.kind == 'P' && o.a == s) || (o.kind == 'N') || (o.kind == 'X' && o.a == s);
        if (staged_before[s] > 0 && A.v[s]->sharing_penalty_ > 0 && not target)
          stats["promotions_of_staged_variables"]++;
        if (staged_before[s] == 0 && A.v[s]->staged_sharing_penalty_ > 0)
          stats["stagings"]++;
      }
    SAY("  %-14s -> %s\n", ops_to_str(o).c_str(), v ? "ok" : (v.clause + ": " + v.detail).c_str());
    describe(A, "sys");
    if (not v && not pre_bad)
      record(violations, v.clause + " after=" + op_class(o), h2, v.detail);
    return true;
  }

  if (o.kind != 'S' || not was_modified) {
    SAY("  %-14s\n", ops_to_str(o).c_str());
    if (g_verbose && o.kind != 'S')
      describe(A, m == "c17" ? "lazy" : "sys");
    return true;
  }

  if (m == "c17") {
    PlainSystem p = A.plain();
    std::vector<int> order;
    for (int b = 0; b < A.next_birth; b++)
      for (int s = 0; s < cfg.V; s++)
        if (A.birth[s] == b)
          order.push_back(s);
    std::vector<double> fv;
    std::string l2;
    n_oracle++;
    if (not fresh_values(p, fv, order, l2)) {
      record(unjudged, "fresh-solve-fails(" + l2 + ")", h2, l2);
      return true;
    }
    stats["solves_compared"]++;
    if (n_mod < n_act)
      stats["solves_on_a_strict_subset_of_the_active_constraints"]++;
    if (counter_before == UINT_MAX || counter_before == 0)
      stats["solves_across_the_counter_wrap"]++;
    bool a_ne_c = false, a_ne_b = false, b_ne_c = false;
    std::string detail;
    for (int s = 0; s < cfg.V; s++)
      if (A.v[s]) {
        double a = A.v[s]->value_, b = rig.s[1].v[s]->value_, c = fv[s];
        if (not same(a, c)) {
          a_ne_c = true;
          if (detail.empty())
            detail = oracle::fmt("variable %d: lazy %.9g, full recomputation %.9g, fresh system %.9g", s, a, b, c);
        }
        a_ne_b |= not same(a, b);
        b_ne_c |= not same(b, c);
      }
    SAY("  %-14s -> %s\n", "S", a_ne_c ? ("MISMATCH " + detail).c_str() : "lazy == full == fresh");
    describe(A, "lazy");
    describe(rig.s[1], "full");
    if (g_verbose) {
      printf("    [fresh]");
      for (int s = 0; s < cfg.V; s++)
        if (A.v[s])
          printf(" v%d=%.9g", s, fv[s]);
      printf("\n");
    }
    if (a_ne_c) {
      std::string cls = a_ne_b ? (b_ne_c ? "lazy!=fresh(full differs from both)" : "lazy!=fresh(full==fresh)")
                               : "lazy!=fresh(full==lazy)";
      std::string by = attribute_c17(h2);
      SAY("    propagation to the modified-constraint set first missed by: %s\n", by.c_str());
      record(violations, cls + " propagation-missed-by=" + by, h2, detail);
    } else if (b_ne_c) {
      stats["full_recomputation_differs_from_fresh_while_lazy_agrees"]++;
      for (int s = 0; s < cfg.V; s++)
        if (A.v[s] && not same(rig.s[1].v[s]->value_, fv[s])) {
          record(unjudged, "full-recomputation!=fresh(lazy==fresh)", h2,
                 oracle::fmt("variable %d: lazy %.9g, full recomputation %.9g, fresh system %.9g", s, A.v[s]->value_,
                             rig.s[1].v[s]->value_, fv[s]));
          break;
        }
    }
    return true;
  }

  // c15 / c16 : judge the solved system
  PlainSystem p = A.plain();
  n_oracle++;
  stats["solves_judged"]++;
  if (m == "c15") {
    oracle::C15Stats st;
    Verdict v = oracle::check_c15(p, &st);
    stats["solves_with_a_saturated_shared_constraint"] += st.saturated_shared > 0;
    stats["solves_with_a_saturated_fatpipe"] += st.saturated_fatpipe > 0;
    stats["solves_with_a_variable_at_its_bound"] += st.at_bound > 0;
    stats["solves_with_disabled_variables"] += st.disabled_vars > 0;
    stats["solves_with_a_constraint_shared_by_several_variables"] += st.multi_user > 0;
    SAY("  %-14s -> %s\n", "S", v ? "ok" : (v.clause + ": " + v.detail).c_str());
    describe(A, "sys");
    if (not v)
      record(violations, v.clause + " solver=" + cfg.solver + (cfg.sel ? "/lazy" : "/full"), h2, v.detail);
  } else {
    oracle::C16Stats st;
    Verdict v = oracle::check_c16_bottleneck(p, &st);
    if (v)
      v = oracle::check_c16_reference(p, &st);
    stats["variables_judged"] += st.judged_vars;
    stats["variables_below_their_bound"] += st.below_bound;
    stats["solves_compared_with_exact_reference"] += st.ref_compared;
    stats["reference_with_several_filling_levels"] += st.ref_multi_level;
    stats["reference_skipped_overflow"] += st.ref_skipped_overflow;
    SAY("  %-14s -> %s\n", "S", v ? "ok" : (v.clause + ": " + v.detail).c_str());
    describe(A, "sys");
    if (not v)
      record(violations, v.clause + " solver=" + cfg.solver + (cfg.sel ? "/lazy" : "/full"), h2, v.detail);
  }
  return true;
}

/* (re)create the state reached by prefix + hist, without judging */
static bool g_replay_failed = false;
static void recreate(Rig& rig, const std::vector<OpX>& prefix, const std::vector<OpX>& hist)
{
  if (rig.alive)
    rig.destroy();
  rig.build();
  if (cfg.start == 1)
    rig.preset_counter();
  bool dummy;
  for (auto const& o : prefix)
    if (not rig.s[0].applicable(o) || not step(rig, {}, o, false, dummy, false)) {
      printf("{\"error\":\"prefix not applicable\"}\n");
      exit(2);
    }
  if (cfg.start >= 2)
    rig.preset_counter();
  for (auto const& o : hist)
    if (not step(rig, {}, o, false, dummy, false)) {
      g_replay_failed = true; // a history that worked once must work again
      return;
    }
}

static std::string json_escape(const std::string& s)
{
  std::string r;
  for (char ch : s) {
    if (ch == '"' || ch == '\\') {
      r += '\\';
      r += ch;
    } else if (ch == '\n')
      r += "\\n";
    else if ((unsigned char)ch < 32)
      r += ' ';
    else
      r += ch;
  }
  return r;
}

static void print_classes(const char* name, const std::map<std::string, ViolClass>& m)
{
  printf("\"%s\":[", name);
  bool first = true;
  for (auto const& [k, v] : m) {
    printf("%s{\"class\":\"%s\",\"count\":%ld,\"hist\":\"%s\",\"detail\":\"%s\"}", first ? "" : ",",
           json_escape(k).c_str(), v.count, v.hist.c_str(), json_escape(v.detail).c_str());
    first = false;
  }
  printf("]");
}

static int check_dump(const char* file, const std::string& props)
{
  FILE* f = fopen(file, "r");
  if (not f)
    return 2;
  PlainSystem s;
  long n = 0, bad = 0;
  while (oracle::read_dump(f, s)) {
    n++;
    Verdict v;
    if (props.find("c15") != std::string::npos && v)
      v = oracle::check_c15(s);
    if (props.find("c16") != std::string::npos && v && s.solver != "fairbottleneck")
      v = oracle::check_c16_bottleneck(s);
    if (props.find("c16") != std::string::npos && v)
      v = oracle::check_c16_reference(s);
    if (props.find("c18") != std::string::npos && v)
      v = oracle::check_c18(s);
    if (not v) {
      bad++;
      printf("system %ld: %s: %s\n", n, v.clause.c_str(), v.detail.c_str());
    }
  }
  printf("systems=%ld violations=%ld\n", n, bad);
  return bad ? 1 : 0;
}

int main(int argc, char** argv)
{
  std::string replay, dump, dump_props = "c15,c16,c18";
  bool do_replay = false;
  for (int i = 1; i < argc; i++) {
    std::string a = argv[i];
    auto next     = [&]() -> const char* { return i + 1 < argc ? argv[++i] : ""; };
    if (a == "--mode")
      cfg.mode = next();
    else if (a == "--solver")
      cfg.solver = next();
    else if (a == "--sel")
      cfg.sel = atoi(next());
    else if (a == "--nc")
      cfg.nc = atoi(next());
    else if (a == "--pol")
      cfg.pol = next();
    else if (a == "--lim") {
      cfg.lim.clear();
      for (double d : parse_list(next()))
        cfg.lim.push_back((int)d);
    } else if (a == "--V")
      cfg.V = atoi(next());
    else if (a == "--ops")
      cfg.ops = next();
    else if (a == "--pnew")
      cfg.pnew = parse_list(next());
    else if (a == "--wnew")
      cfg.wnew = parse_list(next());
    else if (a == "--wx")
      cfg.wx = parse_list(next());
    else if (a == "--bv")
      cfg.bv = parse_list(next());
    else if (a == "--pset")
      cfg.pset = parse_list(next());
    else if (a == "--bc")
      cfg.bc = parse_list(next());
    else if (a == "--cb0")
      cfg.cb0 = atof(next());
    else if (a == "--start")
      cfg.start = atoi(next());
    else if (a == "--prefix")
      cfg.prefix = next();
    else if (a == "--depth")
      cfg.depth = atoi(next());
    else if (a == "--latex")
      cfg.latex = atoi(next());
    else if (a == "--maxviol")
      cfg.maxviol = atoi(next());
    else if (a == "--replay") {
      replay    = next();
      do_replay = true;
    } else if (a == "--check-dump")
      dump = next();
    else if (a == "--props")
      dump_props = next();
    else if (a.rfind("--cfg=", 0) == 0 || a.rfind("--log=", 0) == 0)
      ; // for the engine
    else {
      fprintf(stdout, "{\"error\":\"unknown argument %s\"}\n", a.c_str());
      return 2;
    }
  }
  if (not dump.empty())
    return check_dump(dump.c_str(), dump_props);
  while ((int)cfg.pol.size() < cfg.nc)
    cfg.pol += 'S';
  while ((int)cfg.lim.size() < cfg.nc)
    cfg.lim.push_back(-1);
  if (cfg.V > 7 || cfg.nc > 7) {
    printf("{\"error\":\"V and nc must be <= 7\"}\n");
    return 2;
  }

  int eargc        = 1;
  char* eargv[2]   = {argv[0], nullptr};
  char** eargv_ptr = eargv;
  simgrid::s4u::Engine e(&eargc, eargv_ptr);
  xbt_log_no_loc = 1; // no backtraces on failed kernel assertions
  resource::Model model("lmmx-dummy");
  g_model = &model;
  g_actions.resize(3);
  for (auto& role : g_actions)
    for (int s = 0; s < cfg.V; s++)
      role.push_back(new DummyAction(&model, 1.0, false));
  install_guards();
  build_alphabet();

  std::vector<OpX> prefix = parse_hist(cfg.prefix);
  g_prefix                = prefix;
  Rig rig;

  if (do_replay) {
    g_verbose              = true;
    std::vector<OpX> hist  = parse_hist(replay);
    printf("replay mode=%s solver=%s sel=%d nc=%d pol=%s lim=", cfg.mode.c_str(), cfg.solver.c_str(), cfg.sel, cfg.nc,
           cfg.pol.c_str());
    for (int l : cfg.lim)
      printf("%d,", l);
    printf(" start=%s prefix=[%s]\n", start_name(), cfg.prefix.c_str());
    recreate(rig, prefix, {});
    std::vector<OpX> sofar;
    bool bad = false;
    if (cfg.mode == "c18")
      bad = not oracle::check_c18(rig.s[0].plain());
    for (auto const& o : hist) {
      if (not rig.s[0].applicable(o)) {
        printf("  %s not applicable\n", ops_to_str(o).c_str());
        return 2;
      }
      bool post;
      bool ok = step(rig, sofar, o, bad, post, true);
      bad     = post;
      sofar.push_back(o);
      if (not ok)
        break;
    }
    for (auto const& [k, v] : violations)
      printf("VIOLATED %s :: %s\n", k.c_str(), v.detail.c_str());
    for (auto const& [k, v] : unjudged)
      printf("UNJUDGED %s\n", k.c_str());
    fflush(stdout);
    _exit(violations.empty() ? 0 : 1);
  }

  /* ---------------------------------------------------------------- BFS */
  constexpr int MAXD = 14;
  struct Node {
    uint8_t h[MAXD];
    uint8_t len;
    bool bad;
  };
  if (cfg.depth > MAXD || alphabet.size() > 255) {
    printf("{\"error\":\"depth or alphabet too large\"}\n");
    return 2;
  }
  auto expand_hist = [&](const Node& n) {
    std::vector<OpX> r;
    for (int i = 0; i < n.len; i++)
      r.push_back(alphabet[n.h[i]]);
    return r;
  };
  // visited set: 128-bit digests of the fingerprints (two independent 64-bit hashes), not the strings themselves
  struct Key {
    uint64_t a, b;
    bool operator==(const Key& o) const { return a == o.a && b == o.b; }
  };
  struct KeyHash {
    size_t operator()(const Key& k) const { return k.a; }
  };
  auto digest = [](const std::string& f) {
    Key k;
    k.a        = std::hash<std::string>{}(f);
    uint64_t h = 0xcbf29ce484222325ULL ^ (f.size() * 0x9e3779b97f4a7c15ULL);
    for (unsigned char ch : f) {
      h ^= ch;
      h *= 0x100000001b3ULL;
      h ^= h >> 29;
    }
    k.b = h;
    return k;
  };
  std::unordered_set<Key, KeyHash> visited;
  std::vector<Node> frontier, next;
  std::string fp0, fp1;
  recreate(rig, prefix, {});
  rig.fp(fp0);
  visited.insert(digest(fp0));
  bool start_bad = cfg.mode == "c18" && not oracle::check_c18(rig.s[0].plain());
  {
    Node n0{};
    n0.len = 0;
    n0.bad = start_bad;
    frontier.push_back(n0);
  }
  std::vector<std::string> samples;
  std::vector<long> level_states, level_trans;
  long n_selfloops = 0, n_terminal = 0;

  for (int d = 1; d <= cfg.depth && not frontier.empty(); d++) {
    long t0 = n_transitions;
    next.clear();
    for (auto const& node : frontier) {
      std::vector<OpX> hist = expand_hist(node);
      bool dirty            = true;
      for (size_t oi = 0; oi < alphabet.size(); oi++) {
        const OpX& o = alphabet[oi];
        if (dirty) {
          recreate(rig, prefix, hist);
          if (g_replay_failed) {
            printf("{\"error\":\"history %s did not replay\"}\n", hist_str(hist).c_str());
            fflush(stdout);
            _exit(2);
          }
          rig.fp(fp0);
          dirty = false;
        }
        if (not rig.s[0].applicable(o))
          continue;
        bool post_bad;
        bool ok = step(rig, hist, o, node.bad, post_bad, true);
        n_transitions++;
        if (not ok) {
          rig.leak();
          dirty = true;
          n_terminal++;
          continue;
        }
        rig.fp(fp1);
        if (fp1 == fp0) {
          n_selfloops++;
          continue;
        }
        dirty = true;
        if (visited.insert(digest(fp1)).second) {
          Node n       = node;
          n.bad        = post_bad;
          n.h[n.len++] = oi;
          if (samples.size() < 3 || (next.size() % 4099 == 0 && samples.size() < 8)) {
            std::vector<OpX> h2 = hist;
            h2.push_back(o);
            samples.push_back(hist_str(h2));
          }
          next.push_back(n);
        }
      }
      if ((long)violations.size() > cfg.maxviol)
        break;
    }
    level_states.push_back(next.size());
    level_trans.push_back(n_transitions - t0);
    frontier.swap(next);
  }

  printf("{\"cpu_s\":%.2f,\"depth\":%d,\"states\":%zu,\"transitions\":%ld,\"oracle_evaluations\":%ld,\"selfloops\":%ld,\"terminal\":%ld,"
         "\"alphabet\":%zu,\"level_states\":[",
         (double)clock() / CLOCKS_PER_SEC, cfg.depth, visited.size(), n_transitions, n_oracle, n_selfloops, n_terminal,
         alphabet.size());
  for (size_t i = 0; i < level_states.size(); i++)
    printf("%s%ld", i ? "," : "", level_states[i]);
  printf("],\"level_transitions\":[");
  for (size_t i = 0; i < level_trans.size(); i++)
    printf("%s%ld", i ? "," : "", level_trans[i]);
  printf("],\"stats\":{");
  bool first = true;
  for (auto const& [k, v] : stats) {
    printf("%s\"%s\":%ld", first ? "" : ",", json_escape(k).c_str(), v);
    first = false;
  }
  printf("},\"samples\":[");
  for (size_t i = 0; i < samples.size(); i++)
    printf("%s\"%s\"", i ? "," : "", samples[i].c_str());
  printf("],");
  print_classes("violations", violations);
  printf(",");
  print_classes("unjudged", unjudged);
  printf("}\n");
  fflush(stdout);
  _exit(0); // skip static destructors (leaked systems, engine)
}
