// Oracles of Group D (C15, C16, C18) on a *plain description* of an LMM system.
// Nothing here includes or calls SimGrid: the same functions judge (a) the systems reached by the history explorer
// (lmmx.cpp extracts a PlainSystem from the live lmm::System after every step) and (b) systems dumped by hook H2
// (`lmmx --check-dump FILE`, text format documented in read_dump()).
#pragma once
#include <cmath>
#include <cstdarg>
#include <cstring>
#include <cstdint>
#include <cstdio>
#include <string>
#include <vector>

namespace oracle {

struct PElem {
  int c;
  double w;    // consumption weight (sum of the expands on a shared constraint, max on a fatpipe)
  double maxw; // largest single expand (bmf's maxA)
};
struct PVar {
  int id;
  double penalty, staged, bound, value;
  std::vector<PElem> el;
  bool enabled() const { return penalty > 0; }
  bool consuming() const
  {
    if (penalty <= 0)
      return false;
    for (auto const& e : el)
      if (e.w > 0)
        return true;
    return false;
  }
  bool bounded() const { return bound > 0; }
};
struct PCnst {
  double bound; // capacity as adjusted by the sharing callback (= bound_ when there is none)
  int shared;   // 1 SHARED, 0 FATPIPE
  int limit;    // concurrency limit, <0 none
  int conc;     // concurrency_current_
};
struct PlainSystem {
  std::string solver; // maxmin | bmf | fairbottleneck
  std::vector<PCnst> c;
  std::vector<PVar> v;
};

constexpr double EPS = 1e-5; // precision/work-amount default ("up to the configured precision")

static inline std::string fmt(const char* f, ...) __attribute__((format(printf, 1, 2)));
static inline std::string fmt(const char* f, ...)
{
  char buf[512];
  va_list ap;
  va_start(ap, f);
  vsnprintf(buf, sizeof buf, f, ap);
  va_end(ap);
  return buf;
}

struct Verdict {
  std::string clause; // empty = holds; else short stable name of the violated clause
  std::string detail;
  explicit operator bool() const { return clause.empty(); }
};

/* ------------------------------------------------------------------ C15: capacities, 0 <= rate <= bound, disabled = 0 */
struct C15Stats {
  long saturated_shared = 0, saturated_fatpipe = 0, at_bound = 0, disabled_vars = 0, multi_user = 0;
};
static inline Verdict check_c15(const PlainSystem& s, C15Stats* st = nullptr)
{
  for (size_t ci = 0; ci < s.c.size(); ci++) {
    double sum = 0, mx = 0;
    int users = 0;
    for (auto const& v : s.v) {
      if (not v.enabled())
        continue;
      for (auto const& e : v.el)
        if (e.c == (int)ci && e.w > 0) {
          double u = e.w * v.value;
          if (std::isnan(u))
            return {"nan-rate", fmt("variable %d has rate %g", v.id, v.value)};
          sum += u;
          mx = std::max(mx, u);
          users++;
        }
    }
    double cap = s.c[ci].bound;
    if (s.c[ci].shared) {
      if (sum > cap * (1 + EPS) + 1e-12)
        return {"shared-capacity-exceeded", fmt("constraint %zu: sum w*rate=%.9g > capacity %.9g", ci, sum, cap)};
      if (st && users && sum >= cap * (1 - EPS))
        st->saturated_shared++;
    } else {
      if (mx > cap * (1 + EPS) + 1e-12)
        return {"fatpipe-capacity-exceeded", fmt("fatpipe %zu: max w*rate=%.9g > capacity %.9g", ci, mx, cap)};
      if (st && users && mx >= cap * (1 - EPS))
        st->saturated_fatpipe++;
    }
    if (st && users > 1)
      st->multi_user++;
  }
  for (auto const& v : s.v) {
    if (not v.enabled()) {
      if (st)
        st->disabled_vars++;
      if (v.value != 0) // NaN != 0 too
        return {"disabled-nonzero", fmt("variable %d has penalty 0 (staged %g) but rate %.9g", v.id, v.staged, v.value)};
      continue;
    }
    if (not v.consuming())
      continue; // consumes nothing: the statement says nothing about its rate
    if (not(v.value >= 0))
      return {"negative-rate", fmt("variable %d has rate %.9g", v.id, v.value)};
    if (v.bounded()) {
      if (v.value > v.bound * (1 + EPS) + 1e-12)
        return {"rate-above-bound", fmt("variable %d: rate %.9g > bound %.9g", v.id, v.value, v.bound)};
      if (st && v.value >= v.bound * (1 - EPS))
        st->at_bound++;
    }
  }
  return {};
}

/* ------------------------------------------------------------------ C16: bottleneck condition
 * weight_kind 0: shares computed with e.w, 1: with e.maxw (bmf's maxA). maxmin: penalty-weighted *rate* (rate*penalty);
 * bmf: penalty-weighted *share* (w*penalty*rate), as in the statement. */
static inline bool cnst_saturated(const PlainSystem& s, int ci)
{
  double sum = 0, mx = 0;
  for (auto const& v : s.v)
    if (v.enabled())
      for (auto const& e : v.el)
        if (e.c == ci && e.w > 0) {
          sum += e.w * v.value;
          mx = std::max(mx, e.w * v.value);
        }
  double cap = s.c[ci].bound;
  return (s.c[ci].shared ? sum : mx) >= cap * (1 - 4 * EPS) - 1e-12;
}

static inline bool has_bottleneck(const PlainSystem& s, const PVar& v, bool share_based, int weight_kind)
{
  for (auto const& e : v.el) {
    if (e.w <= 0 || not cnst_saturated(s, e.c))
      continue;
    // a fatpipe limits each of its users separately: a variable whose own weighted rate reaches the capacity is
    // bottlenecked there whatever the others get (accepted in addition to the literal condition)
    if (not s.c[e.c].shared && e.w * v.value >= s.c[e.c].bound * (1 - 4 * EPS) - 1e-12)
      return true;
    double mine = share_based ? (weight_kind ? e.maxw : e.w) * v.penalty * v.value : v.penalty * v.value;
    bool largest = true;
    for (auto const& o : s.v) {
      if (not o.enabled() || &o == &v)
        continue;
      for (auto const& oe : o.el)
        if (oe.c == e.c && oe.w > 0) {
          double theirs = share_based ? (weight_kind ? oe.maxw : oe.w) * o.penalty * o.value : o.penalty * o.value;
          if (theirs > mine * (1 + 4 * EPS) + 1e-12)
            largest = false;
        }
    }
    if (largest)
      return true;
  }
  return false;
}

struct C16Stats {
  long judged_vars = 0, below_bound = 0, at_bound = 0, ref_compared = 0, ref_multi_level = 0, ref_skipped_overflow = 0;
};

static inline Verdict check_c16_bottleneck(const PlainSystem& s, C16Stats* st = nullptr)
{
  bool bmf = s.solver == "bmf";
  for (auto const& v : s.v) {
    if (not v.consuming())
      continue;
    if (st)
      st->judged_vars++;
    if (std::isnan(v.value))
      return {"nan-rate", fmt("variable %d has rate %g", v.id, v.value)};
    if (v.bounded() && v.value >= v.bound * (1 - 4 * EPS)) {
      if (st)
        st->at_bound++;
      continue; // at its bound: nothing required
    }
    if (st)
      st->below_bound++;
    bool ok = bmf ? (has_bottleneck(s, v, true, 0) || has_bottleneck(s, v, true, 1)) : has_bottleneck(s, v, false, 0);
    if (not ok)
      return {v.value > 0 ? "no-bottleneck(rate>0)" : (v.value < 0 ? "no-bottleneck(rate<0)" : "no-bottleneck(rate=0)"),
              fmt("variable %d (penalty %g, rate %.9g, bound %g) is below its bound and has no saturated constraint "
                  "on which its penalty-weighted %s is the largest",
                  v.id, v.penalty, v.value, v.bound, bmf ? "share" : "rate")};
  }
  return {};
}

/* ------------------------------------------------------------------ C16: exact rational weighted max-min reference */
struct Frac {
  __int128 n = 0, d = 1;
  bool ovf = false;
};
static inline __int128 gcd128(__int128 a, __int128 b)
{
  if (a < 0)
    a = -a;
  if (b < 0)
    b = -b;
  while (b) {
    __int128 t = a % b;
    a = b;
    b = t;
  }
  return a ? a : 1;
}
static inline Frac norm(__int128 n, __int128 d, bool ovf)
{
  Frac r;
  if (ovf || d == 0) {
    r.ovf = true;
    return r;
  }
  if (d < 0) {
    n = -n;
    d = -d;
  }
  __int128 g = gcd128(n, d);
  r.n = n / g;
  r.d = d / g;
  return r;
}
static inline Frac from_double(double x)
{
  Frac r;
  if (not std::isfinite(x)) {
    r.ovf = true;
    return r;
  }
  int e;
  double m = std::frexp(x, &e); // x = m * 2^e, 0.5<=|m|<1
  // 53-bit mantissa as integer
  long long mi = (long long)std::ldexp(m, 53);
  e -= 53;
  while (mi && (mi % 2 == 0) && e < 0) {
    mi /= 2;
    e++;
  }
  if (e > 60 || e < -60) {
    r.ovf = true;
    return r;
  }
  if (e >= 0)
    return norm((__int128)mi << e, 1, false);
  return norm(mi, (__int128)1 << (-e), false);
}
static inline Frac mul(Frac a, Frac b)
{
  __int128 n, d;
  bool o = a.ovf || b.ovf;
  __int128 g1 = gcd128(a.n, b.d), g2 = gcd128(b.n, a.d);
  o |= __builtin_mul_overflow(a.n / g1, b.n / g2, &n);
  o |= __builtin_mul_overflow(a.d / g2, b.d / g1, &d);
  return norm(n, d, o);
}
static inline Frac inv(Frac a)
{
  return norm(a.d, a.n, a.ovf || a.n == 0);
}
static inline Frac divf(Frac a, Frac b)
{
  return mul(a, inv(b));
}
static inline Frac add(Frac a, Frac b)
{
  __int128 x, y, n, d;
  bool o = a.ovf || b.ovf;
  o |= __builtin_mul_overflow(a.n, b.d, &x);
  o |= __builtin_mul_overflow(b.n, a.d, &y);
  o |= __builtin_add_overflow(x, y, &n);
  o |= __builtin_mul_overflow(a.d, b.d, &d);
  return norm(n, d, o);
}
static inline Frac sub(Frac a, Frac b)
{
  b.n = -b.n;
  return add(a, b);
}
static inline int cmp(Frac a, Frac b) // assumes no overflow
{
  Frac d = sub(a, b);
  return d.n < 0 ? -1 : (d.n > 0 ? 1 : 0);
}
static inline double to_double(Frac a)
{
  return (double)a.n / (double)a.d;
}

/* Weighted max-min fair allocation by progressive filling, exact. Only meaningful when every constraint used by a
 * consuming variable is SHARED (caller checks). Returns false on arithmetic overflow. levels = number of distinct
 * filling steps. */
static inline bool reference_maxmin(const PlainSystem& s, std::vector<double>& out, int* levels)
{
  size_t nv = s.v.size(), nc = s.c.size();
  std::vector<Frac> rate(nv), rem(nc), pen(nv), bnd(nv);
  std::vector<std::vector<Frac>> w(nv, std::vector<Frac>(nc));
  std::vector<char> unfixed(nv, 0);
  bool any = false;
  for (size_t i = 0; i < nv; i++) {
    if (not s.v[i].consuming())
      continue;
    unfixed[i] = 1;
    any        = true;
    pen[i]     = from_double(s.v[i].penalty);
    if (s.v[i].bounded())
      bnd[i] = from_double(s.v[i].bound);
    for (auto const& e : s.v[i].el)
      if (e.w > 0)
        w[i][e.c] = add(w[i][e.c], from_double(e.w));
  }
  for (size_t c = 0; c < nc; c++)
    rem[c] = from_double(s.c[c].bound);
  *levels = 0;
  int guard = 0;
  while (any) {
    if (++guard > 1000)
      return false;
    // smallest admissible increase D of the common level (each unfixed i grows by D/p_i)
    bool have = false;
    Frac D;
    for (size_t c = 0; c < nc; c++) {
      Frac u;
      for (size_t i = 0; i < nv; i++)
        if (unfixed[i] && w[i][c].n > 0)
          u = add(u, divf(w[i][c], pen[i]));
      if (u.ovf)
        return false;
      if (u.n == 0)
        continue;
      Frac d = divf(rem[c], u);
      if (d.ovf)
        return false;
      if (not have || cmp(d, D) < 0) {
        D    = d;
        have = true;
      }
    }
    for (size_t i = 0; i < nv; i++)
      if (unfixed[i] && s.v[i].bounded()) {
        Frac d = mul(sub(bnd[i], rate[i]), pen[i]);
        if (d.ovf)
          return false;
        if (not have || cmp(d, D) < 0) {
          D    = d;
          have = true;
        }
      }
    if (not have)
      return false; // an unfixed consuming variable always has a constraint
    (*levels)++;
    for (size_t i = 0; i < nv; i++)
      if (unfixed[i]) {
        Frac inc = divf(D, pen[i]);
        rate[i]  = add(rate[i], inc);
        for (size_t c = 0; c < nc; c++)
          if (w[i][c].n > 0)
            rem[c] = sub(rem[c], mul(w[i][c], inc));
        if (rate[i].ovf)
          return false;
      }
    for (size_t c = 0; c < nc; c++)
      if (rem[c].ovf)
        return false;
    // freeze: variables at their bound, users of exhausted constraints
    for (size_t i = 0; i < nv; i++)
      if (unfixed[i] && s.v[i].bounded() && cmp(rate[i], bnd[i]) >= 0)
        unfixed[i] = 2;
    for (size_t c = 0; c < nc; c++)
      if (rem[c].n <= 0)
        for (size_t i = 0; i < nv; i++)
          if (unfixed[i] && w[i][c].n > 0)
            unfixed[i] = 2;
    any = false;
    for (size_t i = 0; i < nv; i++) {
      if (unfixed[i] == 2)
        unfixed[i] = 0;
      if (unfixed[i])
        any = true;
    }
  }
  out.assign(nv, 0.0);
  for (size_t i = 0; i < nv; i++)
    out[i] = to_double(rate[i]);
  return true;
}

static inline bool shared_only(const PlainSystem& s)
{
  for (auto const& v : s.v)
    if (v.consuming())
      for (auto const& e : v.el)
        if (e.w > 0 && not s.c[e.c].shared)
          return false;
  return true;
}

static inline Verdict check_c16_reference(const PlainSystem& s, C16Stats* st = nullptr)
{
  if (s.solver != "maxmin" || not shared_only(s))
    return {};
  std::vector<double> ref;
  int levels = 0;
  if (not reference_maxmin(s, ref, &levels)) {
    if (st)
      st->ref_skipped_overflow++;
    return {};
  }
  bool judged = false;
  for (size_t i = 0; i < s.v.size(); i++) {
    if (not s.v[i].consuming())
      continue;
    judged   = true;
    double d = std::fabs(s.v[i].value - ref[i]);
    if (not(d <= 4 * EPS * std::max(1e-9, std::fabs(ref[i])) + 1e-12))
      return {"differs-from-maxmin-reference", fmt("variable %d: solver rate %.12g, exact weighted max-min rate %.12g",
                                                   s.v[i].id, s.v[i].value, ref[i])};
  }
  if (st && judged) {
    st->ref_compared++;
    if (levels > 1)
      st->ref_multi_level++;
  }
  return {};
}

/* ------------------------------------------------------------------ C18: concurrency on a plain system */
struct C18Stats {
  long staged_vars = 0, full_constraints = 0, counted = 0, uncounted_enabled = 0;
};
static inline int counted_enabled(const PlainSystem& s, int ci)
{
  int n = 0;
  for (auto const& v : s.v)
    if (v.enabled())
      for (auto const& e : v.el)
        if (e.c == ci && e.w >= 1)
          n++;
  return n;
}
static inline Verdict check_c18(const PlainSystem& s, C18Stats* st = nullptr)
{
  std::vector<int> cnt(s.c.size());
  for (size_t ci = 0; ci < s.c.size(); ci++) {
    cnt[ci] = counted_enabled(s, ci);
    if (s.c[ci].conc != cnt[ci])
      return {"counter-mismatch", fmt("constraint %zu: concurrency_current_=%d but %d enabled counted elements", ci,
                                      s.c[ci].conc, cnt[ci])};
    if (s.c[ci].limit >= 0 && cnt[ci] > s.c[ci].limit)
      return {"limit-exceeded",
              fmt("constraint %zu: %d enabled counted elements > limit %d", ci, cnt[ci], s.c[ci].limit)};
    if (st) {
      st->counted += cnt[ci];
      if (s.c[ci].limit >= 0 && cnt[ci] == s.c[ci].limit)
        st->full_constraints++;
    }
  }
  for (auto const& v : s.v) {
    if (st && v.enabled())
      for (auto const& e : v.el)
        if (e.w < 1)
          st->uncounted_enabled++;
    if (v.penalty > 0 || v.staged <= 0)
      continue;
    if (st)
      st->staged_vars++;
    bool blocked = false;
    for (auto const& e : v.el)
      if (s.c[e.c].limit >= 0 && s.c[e.c].limit - cnt[e.c] <= 0)
        blocked = true;
    if (not blocked)
      return {"staged-with-free-slots",
              fmt("variable %d is staged (wants penalty %g) but every constraint it uses has a free slot", v.id,
                  v.staged)};
  }
  return {};
}

/* ------------------------------------------------------------------ dump reader (format of hook H2, one system per block)
 *   SYS solver=<maxmin|bmf|fairbottleneck>
 *   C <bound-as-adjusted> <S|F> <limit> <concurrency_current>
 *   V <penalty> <staged> <bound> <value> <n> {<cnst-index> <weight> <maxweight>}*n
 *   END
 */
static inline bool read_dump(FILE* f, PlainSystem& s)
{
  char line[4096];
  s = PlainSystem();
  bool in = false;
  while (fgets(line, sizeof line, f)) {
    if (not strncmp(line, "SYS", 3)) {
      char name[64] = "maxmin";
      sscanf(line, "SYS solver=%63s", name);
      s.solver = name;
      in       = true;
    } else if (in && line[0] == 'C') {
      PCnst c;
      char pol;
      if (sscanf(line, "C %lf %c %d %d", &c.bound, &pol, &c.limit, &c.conc) == 4) {
        c.shared = pol == 'S';
        s.c.push_back(c);
      }
    } else if (in && line[0] == 'V') {
      PVar v;
      int n = 0, off = 0;
      if (sscanf(line, "V %lf %lf %lf %lf %d%n", &v.penalty, &v.staged, &v.bound, &v.value, &n, &off) >= 5) {
        v.id    = s.v.size();
        char* p = line + off;
        for (int i = 0; i < n; i++) {
          PElem e;
          int o2 = 0;
          if (sscanf(p, " %d %lf %lf%n", &e.c, &e.w, &e.maxw, &o2) < 3)
            break;
          p += o2;
          v.el.push_back(e);
        }
        s.v.push_back(v);
      }
    } else if (in && not strncmp(line, "END", 3))
      return true;
  }
  return false;
}

} // namespace oracle
