"""Reference semantics for C10: small communicating programs with resource failures (boring discrete-event model).

Platform: hosts h0,h1,h2 (one actor a_i per host h_i, 4 cores so execs never share), links with latency LAT and bandwidth BW:
  plat 3: l01 (h0-h1), l12 (h1-h2), l02 (h0-h2)        plat 2: l01, l12 and the route h0-h2 = [l01, l12]
Ops of actor i:  E   execute 1 s on its own host           S   sleep 0.5 s
                 Pj  blocking put to actor j (mailbox i->j) Gj  blocking get from actor j (mailbox j->i)
                 Rj  exec of 2 s on host h_j, waited for
A fault = (resource, date): the resource is turned off at that date and stays off.
Failure rules (the statement of C10 + the documented S4U behaviour):
  * host h_k off: actor k is killed (on_exit failed=1 at that date, nothing logged afterwards); every communication in
    flight with it fails -> its peer gets netfail at that date; every exec running on h_k for another actor -> that actor
    gets hostfail at that date; its posted-but-unmatched put/get vanishes.
  * link off: every communication in flight on a route using it fails -> both ends get netfail at that date.
  * an activity started on an already failed resource fails at once (netfail for a comm over a dead link, hostfail for an
    exec on a dead host).
  * a put/get that is never matched blocks for ever (it involves no failed resource): the actor ends "blocked".
  * what carries the same date as a fault (an activity completing, an actor starting its next op or exiting) may be
    processed before or after it: every interleaving is explored and the result is the SET of allowed outcomes; an actor
    that exits at the very date its host fails may see on_exit(failed) either way.
outcome = tuple over actors of (log, exit) with log = ((op index, result, date), ...), result in ok|netfail|hostfail,
exit = ("exit", failed, date) | ("blocked",)
"""
import itertools

LAT = 0.25
BW = 1048576.0
SIZE = 0.75 * BW
EXEC = 1.0
REXEC = 2.0
SLEEP = 0.5


def route(plat, i, j):
    a, b = min(i, j), max(i, j)
    if plat == 2 and (a, b) == (0, 2):
        return ("l01", "l12")
    return ("l%d%d" % (a, b),)


def resources(plat):
    return ["h0", "h1", "h2", "l01", "l12"] + (["l02"] if plat == 3 else [])


def comm_duration(plat, i, j):
    return LAT * len(route(plat, i, j)) + SIZE / BW


class St:
    __slots__ = ("t", "pc", "st", "logs", "exits", "off", "faults")

    def copy(self):
        s = St()
        s.t, s.pc, s.st = self.t, list(self.pc), [dict(x) if isinstance(x, dict) else x for x in self.st]
        s.logs, s.exits, s.off, s.faults = [list(l) for l in self.logs], list(self.exits), set(self.off), list(self.faults)
        return s


def outcomes(plat, prog, faults):
    """prog: tuple of tuples of ops; faults: list of (resource, date) -> set of outcomes"""
    n = len(prog)
    s = St()
    s.t, s.pc, s.st = 0.0, [0] * n, [None] * n     # st: None = ready to start its next op, or dict(kind=...)
    s.logs, s.exits, s.off = [[] for _ in range(n)], [None] * n, set()
    s.faults = sorted([tuple(f) for f in faults], key=lambda f: f[1])
    res = set()
    _run(plat, prog, s, res)
    return res


def _log(s, a, result):
    s.logs[a].append((s.pc[a], result, s.t))
    s.pc[a] += 1
    s.st[a] = None


def _start(plat, prog, s, a):
    """actor a (ready) starts its next op, or exits, at date s.t"""
    n = len(prog)
    if s.pc[a] >= len(prog[a]):
        s.exits[a] = ("exit", 0, s.t)
        s.st[a] = {"kind": "done"}
        return
    op = prog[a][s.pc[a]]
    if op == "E":
        s.st[a] = {"kind": "exec", "end": s.t + EXEC}
    elif op == "S":
        s.st[a] = {"kind": "sleep", "end": s.t + SLEEP}
    elif op[0] == "R":
        j = int(op[1])
        if "h%d" % j in s.off:
            _log(s, a, "hostfail")
        else:
            s.st[a] = {"kind": "rexec", "end": s.t + REXEC, "host": j}
    else:
        j = int(op[1])
        want = "get" if op[0] == "P" else "put"
        if j < n and s.st[j] is not None and s.st[j].get("kind") == want and s.st[j]["peer"] == a:
            links = route(plat, a, j)
            if any(l in s.off for l in links):
                _log(s, a, "netfail")
                _log(s, j, "netfail")
            else:
                end = s.t + comm_duration(plat, a, j)
                s.st[a] = {"kind": "comm", "end": end, "peer": j, "links": links, "lead": True}
                s.st[j] = {"kind": "comm", "end": end, "peer": a, "links": links, "lead": False}
        else:
            s.st[a] = {"kind": "put" if op[0] == "P" else "get", "peer": j}


def _ready(prog, s):
    return [a for a in range(len(prog)) if s.st[a] is None and s.exits[a] is None]


def _fault(plat, prog, s, r):
    """-> True if an actor of that host had exited at this very date (its on_exit may then see failed=1 as well)"""
    n = len(prog)
    s.off.add(r)
    flip = None
    if r[0] == "h":
        k = int(r[1])
        if k < n and s.exits[k] is None:
            st = s.st[k]
            if st is not None and st.get("kind") == "comm":
                _log(s, st["peer"], "netfail")
            s.exits[k] = ("exit", 1, s.t)
            s.st[k] = {"kind": "dead"}
        elif k < n and s.exits[k] == ("exit", 0, s.t):
            flip = k
        for a in range(n):
            st = s.st[a]
            if st is not None and st.get("kind") == "rexec" and st["host"] == k:
                _log(s, a, "hostfail")
    else:
        for a in range(n):
            st = s.st[a]
            if st is not None and st.get("kind") == "comm" and st["lead"] and r in st["links"]:
                _log(s, st["peer"], "netfail")
                _log(s, a, "netfail")
    return flip


def _complete(s, a):
    st = s.st[a]
    if st["kind"] == "comm":
        p = st["peer"]
        _log(s, a, "ok")
        _log(s, p, "ok")
    else:
        _log(s, a, "ok")


def _due(prog, s):
    return [a for a in range(len(prog)) if s.st[a] is not None and s.st[a].get("end") == s.t
            and not (s.st[a]["kind"] == "comm" and not s.st[a]["lead"])]


def _run(plat, prog, s, res):
    n = len(prog)
    while True:
        ready, due = _ready(prog, s), _due(prog, s)
        faults_now = [f for f in s.faults if f[1] == s.t]
        if faults_now:
            # micro-steps carrying the same date as a fault: every interleaving of {a completion, an actor starting its next
            # op (or exiting), the fault} is allowed
            steps = [("c", a) for a in due] + [("s", a) for a in ready] + [("f", f) for f in faults_now]
            for kind, x in steps:
                s2 = s.copy()
                if kind == "c":
                    _complete(s2, x)
                    _run(plat, prog, s2, res)
                elif kind == "s":
                    _start(plat, prog, s2, x)
                    _run(plat, prog, s2, res)
                else:
                    s2.faults.remove(x)
                    flip = _fault(plat, prog, s2, x[0])
                    if flip is not None:
                        s3 = s2.copy()
                        s3.exits[flip] = ("exit", 1, s3.t)
                        _run(plat, prog, s3, res)
                    _run(plat, prog, s2, res)
            return
        if due:
            for a in due:
                _complete(s, a)
            continue
        if ready:
            for a in ready:
                if s.st[a] is None and s.exits[a] is None:
                    _start(plat, prog, s, a)
            continue
        ends = [st["end"] for st in s.st if st is not None and "end" in st]
        cands = ends + ([s.faults[0][1]] if s.faults else [])
        if not cands:
            break
        s.t = min(cands)
    out = []
    for a in range(n):
        ex = s.exits[a] if s.exits[a] is not None else ("blocked",)
        out.append((tuple(s.logs[a]), ex))
    res.add(tuple(out))


def enumerate_programs(nact, kmax, plat):
    """all programs with exactly nact actors, <= kmax ops each, at least one op in total"""
    per = []
    for i in range(nact):
        others = [j for j in range(nact) if j != i]
        alpha = ["E", "S"] + ["P%d" % j for j in others] + ["G%d" % j for j in others] + ["R%d" % j for j in others]
        seqs = [()]
        for k in range(1, kmax + 1):
            seqs += list(itertools.product(alpha, repeat=k))
        per.append(seqs)
    for p in itertools.product(*per):
        yield p


def terminates(plat, prog):
    o = outcomes(plat, prog, [])
    assert len(o) == 1
    (out,) = o
    return all(ex[0] == "exit" for _, ex in out), out


def relevant(prog):
    """some activity involves two hosts (a communication or a remote exec)"""
    return any(op[0] in "PGR" for ops in prog for op in ops)
