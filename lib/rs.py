"""E2 `rs` — reference semantics of the S4U synchronisation objects at the granularity of the model checker's
computational model (DESIGN.md §5.9).  Deliberately boring: plain dicts/tuples, breadth-first explicit-state search.
It contains no SimGrid code.  `explore(prog)` returns the labelled state graph; every state carries the canonical
string that `vx` (harness/vx/vx.cpp) prints for the implementation, so graphs can be walked side by side.

Program = dict(mutex=[rec..], sem=[cap..], cv=n, bar=[n..], mbox=n, mq=n, var=[init..], actors=[[op..]..], templates=[[op..]..])
op = tuple(name, *int args); see OPS below (same names and arguments as vx's do_op).
"""
import copy
from collections import deque

MAXS = 4
VISIBLE = {"MAL", "MW", "MT", "MU", "SAL", "SW", "SU", "CAL", "CW", "CS", "CB", "BAL", "BW", "CAS", "CAR", "CWT", "CT",
           "WA", "TA", "IP", "QAS", "QAR", "QWT", "AC", "AJ", "AS", "RND"}


class Actor:
    __slots__ = ("pid", "ops", "pc", "nt", "log", "local", "hold", "slots", "children", "micro", "granted", "last",
                 "alive", "res")

    def __init__(self, pid, ops):
        self.pid, self.ops, self.pc, self.nt, self.log, self.local = pid, ops, 0, 0, [], 0
        self.hold = {}
        self.slots = ["-"] * MAXS  # "-", "D" or ("s"|"r"|"S"|"R", commid)
        self.children = []
        self.micro = []            # remaining micro steps of the current op
        self.granted = False       # grant flag of the pending acquisition (mutex/sem/cv/barrier)
        self.last = None           # comm id of the last blocking put/get
        self.alive = True
        self.res = None


class State:
    def __init__(self, prog):
        self.prog = prog
        self.actors = {}
        self.maxpid = 1
        self.vars = list(prog.get("var", []))
        self.mutex = [dict(owner=0, depth=0, q=[], rec=bool(r)) for r in prog.get("mutex", [])]
        self.sem = [dict(v=c, q=[]) for c in prog.get("sem", [])]
        self.cv = [dict(q=[]) for _ in range(prog.get("cv", 0))]
        self.bar = [dict(n=n, q=[]) for n in prog.get("bar", [])]
        self.mbox = [dict(recv=0, q=[], done=[]) for _ in range(prog.get("mbox", 0))]
        self.mq = [dict(q=[]) for _ in range(prog.get("mq", 0))]
        self.comms = {}            # id -> dict(kind 'C'|'Q', box, src, dst, payload, tag, want, detached, type 'S'|'R')
        self.failed = False
        self.violations = []       # invariant violations noticed by the reference itself (should be impossible)

    def clone(self):
        return copy.deepcopy(self)

    # ------------------------------------------------------------------ canonical string (must equal vx's canonical())
    def canon(self):
        s = []
        for pid in range(1, self.maxpid):
            a = self.actors[pid]
            k = ""
            for sl in a.slots:
                k += self._peer(sl[1]) if isinstance(sl, tuple) else sl
            m = a.micro[0] if (a.alive and a.micro) else None
            if m is not None and m[0] in ("CWT", "QWT") and m[1] is None:
                k += ":w" + self._peer(a.last)
            s.append("A%d:%s:%d:%s:l%d:k%s:p%s;" % (pid, a.pc if a.alive else "X", a.nt, ",".join(a.log), a.local, k,
                                                    "-" if a.res is None else int(a.res)))
        if self.vars:
            s.append("V:" + ",".join(map(str, self.vars)) + ";")
        for i, m in enumerate(self.mutex):
            q = ",".join(("%d/%d" % (p, 1) if m["rec"] else "%d" % p) for p in m["q"])
            s.append("M%d:o%d:[%s];" % (i, m["owner"], q))  # the recursion depth is not observable: kept out of the compared string
        for i, m in enumerate(self.sem):
            s.append("S%d:v%d:[%s];" % (i, m["v"], ",".join(map(str, m["q"]))))
        for i, m in enumerate(self.cv):
            s.append("C%d:[%s];" % (i, ",".join(map(str, m["q"]))))
        for i, m in enumerate(self.bar):
            s.append("B%d:[%s];" % (i, ",".join(map(str, m["q"]))))
        for i, m in enumerate(self.mbox):
            s.append("X%d:r%d:q[%s]:d[%s];" % (i, m["recv"], ",".join(self._centry(c) for c in m["q"]),
                                              ",".join(self._centry(c) for c in m["done"])))
        for i, m in enumerate(self.mq):
            s.append("Q%d:q[%s];" % (i, ",".join(self._centry(c) for c in m["q"])))
        if self.failed:
            s.append("ASSERTFAIL;")
        return "".join(s)

    def _peer(self, cid):
        c = self.comms[cid]
        if not (c["src"] and c["dst"]):
            return "U"
        return "M%d>%d=%d" % (c["src"], c["dst"], c["payload"])

    def _centry(self, cid):
        c = self.comms[cid]
        if c["type"] == "S":
            e = "S%d=%d" % (c["src"], c["payload"])
            if c["tag"] is not None:
                e += "t%d" % c["tag"]
            if c["detached"]:
                e += "d"
            return e
        e = "R%d" % c["dst"]
        if c["want"] is not None:
            e += "f%d" % c["want"]
        return e

    # ------------------------------------------------------------------ op expansion into micro steps
    def expand(self, a, op):
        n, A = op[0], op[1:]
        h = a.hold
        if n == "lock":
            return [("MAL", A[0]), ("MW", A[0]), ("L", "hold+", A[0])]
        if n == "trylock":
            return [("MT", A[0])]
        if n == "unlock":
            if h.get(A[0], 0) > 0:
                return [("L", "hold-", A[0]), ("MU", A[0])]
            return []
        if n == "owner":
            return [("L", "owner", A[0])]
        if n == "acq":
            return [("SAL", A[0]), ("SW", A[0])]
        if n == "acqt":
            return [("SAL", A[0]), ("SW", A[0], True), ("L", "semres")]
        if n == "rel":
            return [("SU", A[0])]
        if n == "cap":
            return [("L", "cap", A[0])]
        if n in ("cwait", "cwaitfor"):
            c, m = A
            took = h.get(m, 0) == 0
            r = []
            if took:
                r += [("MAL", m), ("MW", m), ("L", "hold+", m)]
            r += [("CAL", c, m), ("CW", c, m, n == "cwaitfor"), ("MW", m)]
            r += [("L", "cvres", n == "cwaitfor")]
            r += [("L", "ownchk", m)]
            if took:
                r += [("L", "hold-", m), ("MU", m)]
            return r
        if n == "notify":
            return [("CS", A[0])]
        if n == "notifyall":
            return [("CB", A[0])]
        if n == "bwait":
            return [("BAL", A[0]), ("BW", A[0]), ("L", "log", "b0")]
        if n == "put":
            return [("CAS", A[0], A[1], None, False, None), ("CWT", None)]
        if n == "get":
            return [("CAR", A[0], None, None), ("CWT", None), ("L", "recvlast")]
        if n == "puta":
            return [("CAS", A[0], A[1], A[2], False, None)]
        if n == "geta":
            return [("CAR", A[0], A[1], None)]
        if n == "detach":
            return [("CAS", A[0], A[1], None, True, None)]
        if n == "wait":
            return [("CWT", A[0]), ("L", "slotdone", A[0])] if isinstance(a.slots[A[0]], tuple) and a.slots[A[0]][0] in "sr" else []
        if n == "test":
            return [("CT", A[0])] if isinstance(a.slots[A[0]], tuple) and a.slots[A[0]][0] in "sr" else []
        if n in ("waitany", "testany"):
            ks = [k for k in range(MAXS) if isinstance(a.slots[k], tuple) and a.slots[k][0] in "sr"]
            if not ks:
                return []
            if n == "waitany":
                return [("WA", tuple(ks))]
            # the set of ready communications of a testany is fixed when the call is issued
            return [("L", "taprep", tuple(ks)), ("TA", tuple(ks))]
        if n == "iprobe":
            return [("IP", A[0], A[1])]
        if n == "sendf":
            return [("CAS", A[0], A[1], None, False, A[2]), ("CWT", None)]
        if n == "recvf":
            return [("CAR", A[0], None, A[1]), ("CWT", None), ("L", "recvlast")]
        if n == "setrecv":
            return [("L", "setrecv", A[0])]
        if n == "mput":
            return [("QAS", A[0], A[1], None), ("QWT", None)]
        if n == "mget":
            return [("QAR", A[0], None), ("QWT", None), ("L", "recvlast")]
        if n == "mputa":
            return [("QAS", A[0], A[1], A[2])]
        if n == "mgeta":
            return [("QAR", A[0], A[1])]
        if n == "mwait":
            return [("QWT", A[0]), ("L", "slotdone", A[0])] if isinstance(a.slots[A[0]], tuple) and a.slots[A[0]][0] in "SR" else []
        if n in ("rd", "wr", "set", "logv", "assert"):
            return [("L", n) + tuple(A)]
        if n == "random":
            return [("RND", A[0], A[1])]
        if n == "sleep":
            return [("AS",)]
        if n == "create":
            return [("AC", A[0])]
        if n == "join":
            return [("AJ", a.children[A[0]]), ("L", "log", "j")] if A[0] < len(a.children) else []
        if n == "joinp":
            return [("AJ", A[0]), ("L", "log", "j")] if A[0] in self.actors else []
        raise ValueError("unknown op %r" % (op,))

    # ------------------------------------------------------------------ local steps
    def local(self, a, m):
        k = m[1]
        if k == "hold+":
            a.hold[m[2]] = a.hold.get(m[2], 0) + 1
        elif k == "hold-":
            a.hold[m[2]] -= 1
        elif k == "log":
            a.log.append(m[2])
        elif k == "owner":
            a.log.append("o%d" % self.mutex[m[2]]["owner"])
        elif k == "cap":
            a.log.append("c%d" % self.sem[m[2]]["v"])
        elif k == "semres":
            a.log.append("T1" if a.res else "T0")
            a.res = None
        elif k == "cvres":
            if m[2]:
                a.log.append("W1" if a.res else "W0")
            a.res = None
        elif k == "ownchk":
            a.log.append("own" if self.mutex[m[2]]["owner"] == a.pid else "NOTOWNER")
        elif k == "recvlast":
            a.log.append("r%d" % self.comms[a.last]["payload"])
            self._drop(a.last, a.pid)
            a.last = None
        elif k == "slotdone":
            sl = a.slots[m[2]]
            if sl[0] in "rR":
                a.log.append("r%d" % self.comms[sl[1]]["payload"])
            self._drop(sl[1], a.pid)
            a.slots[m[2]] = "D"
        elif k == "taprep":
            ready = tuple(kk for kk in m[2] if self._matched(a.slots[kk][1]))
            a.micro[0] = ("TA", m[2], ready)
        elif k == "setrecv":
            self.mbox[m[2]]["recv"] = a.pid
        elif k == "rd":
            a.local = self.vars[m[2]]
        elif k == "wr":
            self.vars[m[2]] = a.local + m[3]
        elif k == "set":
            self.vars[m[2]] = m[3]
        elif k == "logv":
            a.log.append("v%d" % self.vars[m[2]])
        elif k == "assert":
            if self.vars[m[2]] != m[3]:
                a.log.append("ASSERTFAIL")
                self.failed = True
        else:
            raise ValueError(m)

    def _matched(self, cid):
        c = self.comms[cid]
        return bool(c["src"] and c["dst"])

    def _drop(self, cid, pid):
        c = self.comms[cid]
        c.setdefault("gone", set()).add(pid)

    def advance(self, a):
        """run a's local steps until a visible transition is pending or its code ends"""
        while a.alive and not self.failed:
            if not a.micro:
                if a.pc >= len(a.ops):
                    self.terminate(a)
                    return
                a.micro = self.expand(a, a.ops[a.pc])
                if not a.micro:
                    a.pc += 1
                    continue
            m = a.micro[0]
            if m[0] == "L":
                a.micro.pop(0)
                self.local(a, m)
                if not a.micro:
                    a.pc += 1
                continue
            return

    def terminate(self, a):
        a.alive = False
        a.pc = -1
        # pending asynchronous communications of a dying actor are cancelled: unmatched ones leave their mailbox
        for k, sl in enumerate(a.slots):
            if isinstance(sl, tuple):
                cid = sl[1]
                c = self.comms[cid]
                if not (c["src"] and c["dst"]):
                    box = (self.mbox if c["kind"] == "C" else self.mq)[c["box"]]
                    if cid in box["q"]:
                        box["q"].remove(cid)
                    if cid in box.get("done", []):
                        box["done"].remove(cid)

    # ------------------------------------------------------------------ enabledness / transitions
    def pending(self, a):
        return a.micro[0] if (a.alive and a.micro) else None

    def enabled(self):
        """list of (pid, maxconsider) in pid order"""
        r = []
        if self.failed:
            return r
        for pid in sorted(self.actors):
            a = self.actors[pid]
            m = self.pending(a)
            if m is None:
                continue
            t = m[0]
            mc = 1
            if t == "SW" and len(m) > 2 and self.prog.get("normal_mode"):
                en = True   # outside the checker's model a timed acquire may also time out
            elif t in ("MW", "SW", "BW"):
                en = a.granted
            elif t == "CW":
                en = a.granted or m[3]
            elif t in ("CWT", "QWT"):
                cid = a.last if m[1] is None else a.slots[m[1]][1]
                en = self._matched(cid)
            elif t == "WA":
                mc = sum(1 for k in m[1] if self._matched(a.slots[k][1]))
                en = mc > 0
            elif t == "TA":
                mc = len(m[2]) + 1
                en = True
            elif t == "AJ":
                en = (m[1] in self.actors) and not self.actors[m[1]].alive
            elif t == "RND":
                mc = m[2] - m[1] + 1
                en = True
            else:
                en = True
            if en:
                r.append((pid, mc))
        return r

    def _unlock(self, m):
        if m["rec"]:
            m["depth"] -= 1
            if m["depth"] > 0:
                return
        if m["q"]:
            h = m["q"].pop(0)
            m["owner"] = h
            m["depth"] = 1
            self.actors[h].granted = True
        else:
            m["owner"] = 0
            m["depth"] = 0

    def _lock_async(self, a, m):
        if m["rec"] and m["owner"] == a.pid:
            m["depth"] += 1
            a.granted = True
        elif m["owner"] == 0:
            m["owner"] = a.pid
            m["depth"] = 1
            a.granted = True
        else:
            m["q"].append(a.pid)
            a.granted = False

    def _accepts(self, recv, send):
        return recv["want"] is None or recv["want"] == send["tag"]

    def step(self, pid, k):
        a = self.actors[pid]
        m = a.micro.pop(0)
        a.nt += 1
        t = m[0]
        if t == "MAL":
            self._lock_async(a, self.mutex[m[1]])
        elif t == "SW" and len(m) > 2:
            if a.granted:
                a.res = False
            else:
                self.sem[m[1]]["q"].remove(pid)
                a.res = True
            a.granted = False
        elif t in ("MW", "SW", "BW"):
            a.granted = False
        elif t == "MT":
            mu = self.mutex[m[1]]
            if mu["owner"] == 0:
                mu["owner"], mu["depth"], ok = pid, 1, True
            elif mu["rec"] and mu["owner"] == pid:
                mu["depth"] += 1
                ok = True
            else:
                ok = False
            if ok:
                a.hold[m[1]] = a.hold.get(m[1], 0) + 1
            a.log.append("t1" if ok else "t0")
        elif t == "MU":
            self._unlock(self.mutex[m[1]])
        elif t == "SAL":
            s = self.sem[m[1]]
            if s["v"] > 0:
                s["v"] -= 1
                a.granted = True
            else:
                s["q"].append(pid)
                a.granted = False
        elif t == "SU":
            s = self.sem[m[1]]
            if s["q"]:
                self.actors[s["q"].pop(0)].granted = True
            else:
                s["v"] += 1
        elif t == "CAL":
            self._unlock(self.mutex[m[2]])
            self.cv[m[1]]["q"].append(pid)
            a.granted = False
        elif t == "CW":
            if a.granted:
                a.res = False
            else:  # timeout: leave the queue
                self.cv[m[1]]["q"].remove(pid)
                a.res = True
            a.granted = False
            self._lock_async(a, self.mutex[m[2]])
        elif t == "CS":
            q = self.cv[m[1]]["q"]
            if q:
                self.actors[q.pop(0)].granted = True
        elif t == "CB":
            q = self.cv[m[1]]["q"]
            while q:
                self.actors[q.pop(0)].granted = True
        elif t == "BAL":
            b = self.bar[m[1]]
            if len(b["q"]) < b["n"] - 1:
                b["q"].append(pid)
                a.granted = False
            else:
                for p in b["q"]:
                    self.actors[p].granted = True
                b["q"] = []
                a.granted = True
        elif t == "CAS":
            _, box, v, slot, detached, tag = m
            mb = self.mbox[box]
            me = dict(kind="C", box=box, src=pid, dst=0, payload=v, tag=tag, want=None, detached=detached, type="S")
            cid = None
            for c in mb["q"]:
                o = self.comms[c]
                if o["type"] == "R" and self._accepts(o, me):
                    cid = c
                    break
            if cid is not None:
                mb["q"].remove(cid)
                o = self.comms[cid]
                o.update(src=pid, payload=v, tag=tag, detached=detached)
            else:
                cid = (pid, a.nt)
                self.comms[cid] = me
                if mb["recv"]:
                    me["dst"] = mb["recv"]
                    mb["done"].append(cid)
                else:
                    mb["q"].append(cid)
            if slot is not None:
                a.slots[slot] = ("s", cid)
            elif not detached:
                a.last = cid
        elif t == "CAR":
            _, box, slot, want = m
            mb = self.mbox[box]
            me = dict(kind="C", box=box, src=0, dst=pid, payload=None, tag=None, want=want, detached=False, type="R")
            cid = None
            if mb["recv"] and mb["done"]:
                for c in mb["done"]:
                    if self._accepts(me, self.comms[c]):
                        cid = c
                        break
                if cid is not None:
                    mb["done"].remove(cid)
                    self.comms[cid]["dst"] = pid
                else:
                    cid = (pid, a.nt)
                    self.comms[cid] = me
                    mb["q"].append(cid)
            else:
                for c in mb["q"]:
                    o = self.comms[c]
                    if o["type"] == "S" and self._accepts(me, o):
                        cid = c
                        break
                if cid is not None:
                    mb["q"].remove(cid)
                    self.comms[cid]["dst"] = pid
                else:
                    cid = (pid, a.nt)
                    self.comms[cid] = me
                    mb["q"].append(cid)
            if slot is not None:
                a.slots[slot] = ("r", cid)
            else:
                a.last = cid
        elif t in ("CWT", "QWT"):
            pass  # the wait returns; payload handed over by the following local step
        elif t == "CT":
            sl = a.slots[m[1]]
            if self._matched(sl[1]):
                a.log.append("e1")
                if sl[0] == "r":
                    a.log.append("r%d" % self.comms[sl[1]]["payload"])
                a.slots[m[1]] = "D"
            else:
                a.log.append("e0")
        elif t == "WA":
            ready = [kk for kk in m[1] if self._matched(a.slots[kk][1])]
            kk = ready[k]
            a.log.append("w%d" % kk)
            if a.slots[kk][0] == "r":
                a.log.append("r%d" % self.comms[a.slots[kk][1]]["payload"])
            a.slots[kk] = "D"
        elif t == "TA":
            ready = m[2]
            if k < len(ready):
                kk = ready[k]
                a.log.append("y%d" % kk)
                if a.slots[kk][0] == "r":
                    a.log.append("r%d" % self.comms[a.slots[kk][1]]["payload"])
                a.slots[kk] = "D"
            else:
                a.log.append("y-1")
        elif t == "IP":
            mb = self.mbox[m[1]]
            want_type = "S" if m[2] == 0 else "R"
            found = False
            if mb["recv"] and mb["done"]:
                found = any(self.comms[c]["type"] == want_type for c in mb["done"])
            if not found:
                found = any(self.comms[c]["type"] == want_type for c in mb["q"])
            a.log.append("i1" if found else "i0")
        elif t == "QAS":
            _, box, v, slot = m
            q = self.mq[box]
            cid = next((c for c in q["q"] if self.comms[c]["type"] == "R"), None)
            if cid is not None:
                q["q"].remove(cid)
                self.comms[cid].update(src=pid, payload=v)
            else:
                cid = (pid, a.nt)
                self.comms[cid] = dict(kind="Q", box=box, src=pid, dst=0, payload=v, tag=None, want=None, detached=False, type="S")
                q["q"].append(cid)
            if slot is not None:
                a.slots[slot] = ("S", cid)
            else:
                a.last = cid
        elif t == "QAR":
            _, box, slot = m
            q = self.mq[box]
            cid = next((c for c in q["q"] if self.comms[c]["type"] == "S"), None)
            if cid is not None:
                q["q"].remove(cid)
                self.comms[cid]["dst"] = pid
            else:
                cid = (pid, a.nt)
                self.comms[cid] = dict(kind="Q", box=box, src=0, dst=pid, payload=None, tag=None, want=None, detached=False, type="R")
                q["q"].append(cid)
            if slot is not None:
                a.slots[slot] = ("R", cid)
            else:
                a.last = cid
        elif t == "AC":
            child = Actor(self.maxpid, self.prog["templates"][m[1]])
            self.actors[child.pid] = child
            self.maxpid += 1
            a.children.append(child.pid)
            self.advance(child)
        elif t == "AJ" or t == "AS":
            pass
        elif t == "RND":
            a.log.append("n%d" % (m[1] + k))
        else:
            raise ValueError(m)
        if not a.micro:
            a.pc += 1
        self.advance(a)


def initial(prog):
    s = State(prog)
    for ops in prog["actors"]:
        a = Actor(s.maxpid, ops)
        s.actors[a.pid] = a
        s.maxpid += 1
    for pid in sorted(s.actors):
        s.advance(s.actors[pid])
    return s


def key(s):
    """full reference-state key: canonical string + hidden reference fields that determine the future"""
    extra = []
    for pid in sorted(s.actors):
        a = s.actors[pid]
        extra.append((pid, a.granted, tuple(sorted(a.hold.items())), tuple(map(str, a.slots)), str(a.last), str(a.micro), tuple(a.children), a.res))
    return s.canon() + repr(extra) + repr([m["depth"] for m in s.mutex])


def explore(prog, max_states=200000):
    """BFS. returns dict(states={id: (canon, enabled)}, trans={(id,(pid,k)): id}, root=0, terminals=[ids], deadlocks=[ids], complete=bool)"""
    s0 = initial(prog)
    ids = {key(s0): 0}
    objs = {0: s0}
    states, trans = {}, {}
    frontier = deque([0])
    complete = True
    while frontier:
        i = frontier.popleft()
        s = objs.pop(i)
        en = s.enabled()
        states[i] = (s.canon(), en)
        for pid, mc in en:
            for k in range(mc):
                n = s.clone()
                n.step(pid, k)
                kk = key(n)
                j = ids.get(kk)
                if j is None:
                    j = len(ids)
                    ids[kk] = j
                    if j >= max_states:
                        complete = False
                        continue
                    objs[j] = n
                    frontier.append(j)
                trans[(i, (pid, k))] = j
    terminals = [i for i, (c, en) in states.items() if not en]
    return dict(states=states, trans=trans, root=0, terminals=terminals, complete=complete)


def is_deadlock(canon):
    """a terminal state is a deadlock iff some actor is still alive (pc != X) and no assertion failed"""
    if "ASSERTFAIL;" in canon:
        return False
    for seg in canon.split(";"):
        if seg.startswith("A"):
            if seg.split(":")[1] != "X":
                return True
    return False
