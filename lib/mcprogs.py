"""Program families for the model-checker properties (C38-C43): small S4U programs inside the checker's computational model."""
import itertools, sys, os
sys.path.insert(0, os.path.join(os.path.dirname(os.path.abspath(__file__)), "checks"))
import vxlib

def chain(*gens):
    def g():
        for x in gens:
            yield from x()
    return g

def lost_update(nact, atomic):
    """counter incremented under a mutex, either atomically (one critical section) or as read / write in two critical
    sections (lost update possible); the last actor finally asserts the total.  Every shared-memory access is protected
    by the mutex: the checker only sees transitions, so unprotected memory is outside its computational model."""
    def g():
        for extra in (0, 1):
            actors = []
            for i in range(nact):
                if atomic:
                    ops = [("lock", 0), ("rd", 0), ("wr", 0, 1), ("unlock", 0)]
                else:
                    ops = [("lock", 0), ("rd", 0), ("unlock", 0), ("lock", 0), ("wr", 0, 1), ("unlock", 0)]
                actors.append(ops)
            actors[-1] = actors[-1] + [("lock", 0), ("assert", 0, nact - extra), ("unlock", 0)]
            yield dict(mutex=[0], var=[0], actors=actors)
    return g

def G(*ops):
    """ops on shared variables wrapped in the guard mutex 0"""
    return [("lock", 0)] + list(ops) + [("unlock", 0)]

def misc():
    def g():
        # MC_random, actor creation / join, deadlocks by lock order, semaphores as signals, producer/consumer
        yield dict(mutex=[0], var=[0], actors=[[("random", 0, 2)] + G(("logv", 0)), G(("set", 0, 1))])
        yield dict(mutex=[0], var=[0], actors=[[("random", 0, 1), ("random", 0, 1)], [("sleep",)] + G(("set", 0, 1))])
        yield dict(mutex=[0], var=[0], actors=[[("create", 0), ("join", 0)] + G(("logv", 0)), [("sleep",)] + G(("set", 0, 5))], templates=[G(("rd", 0)) + G(("wr", 0, 1))])
        yield dict(mutex=[0], var=[0], actors=[[("create", 0), ("create", 0), ("join", 0), ("join", 1)] + G(("assert", 0, 2))], templates=[G(("rd", 0)) + G(("wr", 0, 1))])
        yield dict(mutex=[0], var=[0], actors=[[("create", 0), ("join", 0)] + G(("logv", 0))], templates=[G(("set", 0, 1))])
        yield dict(mutex=[0, 0], actors=[[("lock", 0), ("lock", 1), ("unlock", 1), ("unlock", 0)], [("lock", 1), ("lock", 0), ("unlock", 0), ("unlock", 1)]])
        yield dict(mutex=[0, 0], actors=[[("lock", 0), ("trylock", 1), ("unlock", 1), ("unlock", 0)], [("lock", 1), ("trylock", 0), ("unlock", 0), ("unlock", 1)]])
        yield dict(mutex=[0], sem=[0], var=[0], actors=[G(("set", 0, 1)) + [("rel", 0)], [("acq", 0)] + G(("assert", 0, 1))])
        yield dict(mutex=[0], sem=[0], var=[0], actors=[[("rel", 0)] + G(("set", 0, 1)), [("acq", 0)] + G(("assert", 0, 1))])
        yield dict(mutex=[0], sem=[1], var=[0], actors=[[("acq", 0)] + G(("rd", 0)) + G(("wr", 0, 1)) + [("rel", 0)]] * 2 + [G(("logv", 0))])
        yield dict(mutex=[0], mbox=1, var=[0], actors=[[("put", 0, 11)] + G(("set", 0, 1)), [("get", 0)] + G(("assert", 0, 0))])
        yield dict(mbox=1, actors=[[("put", 0, 11)], [("put", 0, 21)], [("get", 0), ("get", 0)]])
        yield dict(mbox=1, actors=[[("puta", 0, 11, 0), ("puta", 0, 12, 1), ("waitany",), ("waitany",)], [("geta", 0, 0), ("geta", 0, 1), ("testany",), ("waitany",), ("waitany",)]])
        yield dict(mbox=1, actors=[[("puta", 0, 11, 0), ("wait", 0)], [("geta", 0, 0), ("test", 0), ("wait", 0)]])
        yield dict(mbox=2, actors=[[("put", 0, 11)], [("put", 1, 21)], [("geta", 0, 0), ("geta", 1, 1), ("waitany",), ("waitany",)]])
        yield dict(mbox=1, actors=[[("get", 0)], [("get", 0)], [("put", 0, 31)]])            # one receiver starves: deadlock
        yield dict(mutex=[0], bar=[2], var=[0], actors=[G(("set", 0, 1)) + [("bwait", 0)], [("bwait", 0)] + G(("assert", 0, 1))])
        yield dict(bar=[2], actors=[[("bwait", 0)], [("bwait", 0)], [("bwait", 0)]])        # incomplete group: deadlock
        yield dict(mutex=[0, 0], cv=1, actors=[[("cwait", 0, 1), ("sleep",)], [("notify", 0)]])   # lost notification: deadlock
        yield dict(mutex=[0, 0], cv=1, actors=[[("cwaitfor", 0, 1)], [("notifyall", 0)]])
        yield dict(mutex=[0], actors=[[("sleep",), ("lock", 0), ("unlock", 0)], [("lock", 0), ("sleep",), ("unlock", 0)]])
    return g

LOCAL_READS = ("cap", "owner")   # unsynchronised reads of kernel state from user code: invisible to the checker, outside its model

def family(mod, bound_names, strip_local=True):
    import importlib, json
    m = importlib.import_module(mod)
    class Q: quick = False
    table = dict(m.bounds(Q))
    inner = chain(*[table[b] for b in bound_names])
    if not strip_local:
        return inner
    def g():
        seen = set()
        for p in inner():
            q = dict(p)
            q["actors"] = [a for a in ([op for op in a if op[0] not in LOCAL_READS] for a in p["actors"]) if a]
            k = json.dumps(q, sort_keys=True)
            if len(q["actors"]) >= 2 and k not in seen:
                seen.add(k)
                yield q
    return g


FAMILY = {"lock": "mutex", "trylock": "mutex", "unlock": "mutex", "acq": "sem", "acqt": "sem", "rel": "sem", "cap": "sem", "cwait": "condvar", "cwaitfor": "condvar-timed",
          "notify": "condvar", "notifyall": "condvar", "bwait": "barrier", "put": "mailbox", "get": "mailbox", "puta": "mailbox", "geta": "mailbox", "wait": "mailbox",
          "detach": "mailbox-detached", "test": "comm-test", "waitany": "comm-any", "testany": "comm-any", "sendf": "mailbox-filter", "recvf": "mailbox-filter",
          "setrecv": "mailbox-permanent", "mput": "mqueue", "mget": "mqueue", "mputa": "mqueue", "mgeta": "mqueue", "mwait": "mqueue", "random": "random", "sleep": "sleep",
          "create": "actor", "join": "actor", "joinp": "actor"}

def features(prog):
    """coarse description of what a program uses (for case keys): object families, not individual operations"""
    return "+".join(sorted(set(FAMILY[op[0]] for a in prog["actors"] + prog.get("templates", []) for op in a if op[0] in FAMILY)))
