"""Streaming monitor for Paje trace files (C47).  Knows nothing about SimGrid: it reads the %EventDef header of the file
itself to learn the layout of every event, then checks, line by line:

  declared-before-use   every type alias used (as parent type, as the type of a container / variable / state / event /
                        link / entity value, in an event) was defined by an earlier PajeDefine*Type line ("0" is the root);
                        every entity value used by a state/event was defined earlier for that type; every container
                        referenced (parent of a new container, target of an event, endpoint of a link) was created earlier
  kind                  an event uses a type of the right kind (PajeSetVariable a variable type, PajePushState a state type…)
  use-after-destroy     no event / child creation / destruction refers to a container after its PajeDestroyContainer
  timestamps            the Time field never decreases from one timed line to the next
  push/pop              PajePopState never pops an empty stack of (container, state type); PajeResetState empties it
                        (states still pushed when the container is destroyed or the file ends are counted, not reported)
  syntax                unknown event id, wrong number of fields, unparsable date, duplicate alias

Usage: m = Monitor(); for line in f: m.feed(line);  m.close();  m.problems -> list of (class, line number, text)
"""
import shlex

TYPE_DEFS = {"PajeDefineContainerType": "container", "PajeDefineVariableType": "variable", "PajeDefineStateType": "state",
             "PajeDefineEventType": "event", "PajeDefineLinkType": "link"}
NEEDS = {"PajeSetVariable": "variable", "PajeAddVariable": "variable", "PajeSubVariable": "variable",
         "PajeSetState": "state", "PajePushState": "state", "PajePopState": "state", "PajeResetState": "state",
         "PajeNewEvent": "event", "PajeStartLink": "link", "PajeEndLink": "link"}


class Monitor:
    def __init__(self, max_problems=50):
        self.defs = {}          # event id -> (name, [field names])
        self.cur = None
        self.types = {"0": ("container", None)}      # alias -> (kind, parent type)
        self.values = {}        # alias -> type alias
        self.containers = {"0": ["alive", "0"]}      # alias -> [state, type]
        self.stacks = {}        # (container, type) -> depth
        self.last_t = None
        self.last_timed = None  # (event name, line no, text)
        self.n = 0
        self.problems = []
        self.max = max_problems
        self.counts = {}
        self.leftover_pushes = 0
        self.nevents = 0
        self.inversions = []   # (event that goes back in time, event written just before it)
        self.kinds = set()     # names of the timed events seen
        self.times = set()     # distinct dates seen

    def bad(self, cls, text):
        self.counts[cls] = self.counts.get(cls, 0) + 1
        if len(self.problems) < self.max:
            self.problems.append((cls, self.n, text))

    def feed(self, line):
        self.n += 1
        line = line.rstrip("\n")
        if not line.strip() or line.startswith("#"):
            return
        if line.startswith("%"):
            w = line[1:].split()
            if not w:
                return
            if w[0] == "EventDef":
                self.cur = (w[2], w[1], [])
            elif w[0] == "EndEventDef":
                if self.cur:
                    self.defs[self.cur[0]] = (self.cur[1], self.cur[2])
                self.cur = None
            elif self.cur is not None:
                self.cur[2].append(w[0])
            return
        try:
            f = shlex.split(line)
        except ValueError:
            return self.bad("syntax", "unbalanced quotes: %s" % line)
        if f[0] not in self.defs:
            return self.bad("syntax", "event id %s was not defined in the header: %s" % (f[0], line))
        name, fields = self.defs[f[0]]
        if len(f) - 1 != len(fields):
            return self.bad("syntax", "%s has %d fields, its definition has %d: %s" % (name, len(f) - 1, len(fields), line))
        v = dict(zip(fields, f[1:]))
        self.nevents += 1
        self.event(name, v, line)

    # ------------------------------------------------------------------------------------------
    def use_type(self, alias, kind, line, what):
        t = self.types.get(alias)
        if t is None:
            self.bad("declared-before-use", "%s %s is not defined (yet): %s" % (what, alias, line))
            return False
        if kind and t[0] != kind:
            self.bad("kind", "%s %s is a %s type, a %s type is needed: %s" % (what, alias, t[0], kind, line))
            return False
        return True

    def use_container(self, alias, line, what):
        c = self.containers.get(alias)
        if c is None:
            self.bad("declared-before-use", "%s %s was never created: %s" % (what, alias, line))
            return False
        if c[0] != "alive":
            self.bad("use-after-destroy", "%s %s was destroyed at line %s: %s" % (what, alias, c[0], line))
            return False
        return True

    def event(self, name, v, line):
        if "Time" in v:
            try:
                t = float(v["Time"])
            except ValueError:
                return self.bad("syntax", "unparsable date: %s" % line)
            if self.last_t is not None and t < self.last_t:
                self.bad("timestamps", "%s at %s comes after %s at %s (line %d: %s)" % (name, v["Time"], self.last_timed[0], self.last_timed[3],
                                                                                       self.last_timed[1], self.last_timed[2]))
                self.inversions.append((name, self.last_timed[0]))
            self.last_t = t
            self.last_timed = (name, self.n, line, v["Time"])
            self.kinds.add(name)
            self.times.add(t)
        if name in TYPE_DEFS:
            parent = v.get("Type", v.get("ContainerType"))
            self.use_type(parent, "container", line, "parent type")
            if name == "PajeDefineLinkType":
                for k in ("StartContainerType", "SourceContainerType", "EndContainerType", "DestContainerType"):
                    if k in v:
                        self.use_type(v[k], "container", line, k)
            if v["Alias"] in self.types:
                self.bad("syntax", "type alias %s defined twice: %s" % (v["Alias"], line))
            self.types[v["Alias"]] = (TYPE_DEFS[name], parent)
        elif name == "PajeDefineEntityValue":
            ty = v.get("Type", v.get("EntityType"))
            self.use_type(ty, None, line, "type of the value")
            if v["Alias"] in self.values or v["Alias"] in self.types:
                self.bad("syntax", "alias %s defined twice: %s" % (v["Alias"], line))
            self.values[v["Alias"]] = ty
        elif name == "PajeCreateContainer":
            self.use_type(v["Type"], "container", line, "container type")
            self.use_container(v["Container"], line, "parent container")
            if v["Alias"] in self.containers and self.containers[v["Alias"]][0] == "alive":
                self.bad("syntax", "container alias %s created twice: %s" % (v["Alias"], line))
            self.containers[v["Alias"]] = ["alive", v["Type"]]
        elif name == "PajeDestroyContainer":
            self.use_type(v["Type"], "container", line, "container type")
            if self.use_container(v["Name"], line, "container"):
                self.containers[v["Name"]][0] = str(self.n)
                for (c, ty), d in list(self.stacks.items()):
                    if c == v["Name"]:
                        self.leftover_pushes += d
                        del self.stacks[(c, ty)]
        elif name in NEEDS:
            self.use_type(v["Type"], NEEDS[name], line, "type")
            ok = self.use_container(v["Container"], line, "container")
            for k in ("StartContainer", "SourceContainer", "EndContainer", "DestContainer"):
                if k in v:
                    self.use_container(v[k], line, k)
            if name in ("PajeSetState", "PajePushState", "PajeNewEvent") and "Value" in v:
                val = self.values.get(v["Value"])
                if val is None:
                    self.bad("declared-before-use", "value %s is not defined (yet): %s" % (v["Value"], line))
                elif val != v["Type"]:
                    self.bad("kind", "value %s belongs to type %s, not %s: %s" % (v["Value"], val, v["Type"], line))
            key = (v["Container"], v["Type"])
            if name == "PajePushState":
                self.stacks[key] = self.stacks.get(key, 0) + 1
            elif name == "PajePopState":
                if self.stacks.get(key, 0) <= 0:
                    if ok:
                        self.bad("push/pop", "PajePopState on an empty stack of container %s, state type %s: %s" % (key + (line,)))
                else:
                    self.stacks[key] -= 1
            elif name in ("PajeResetState", "PajeSetState"):
                self.stacks[key] = 0 if name == "PajeResetState" else self.stacks.get(key, 0)

    def close(self):
        self.leftover_pushes += sum(self.stacks.values())
        if self.cur is not None:
            self.bad("syntax", "unterminated %EventDef")
        return self.problems


def check_file(path, max_problems=50):
    m = Monitor(max_problems)
    with open(path, errors="replace") as f:
        for line in f:
            m.feed(line)
    m.close()
    return m
