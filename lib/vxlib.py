"""Driver side of E1 `vx`: program files, sharded runs of the explorer, output parsing, conformance walk against `rs`."""
import os, subprocess, itertools, json, shutil
from collections import deque
import common, rs

KINDS = [("mutex", "mutex"), ("sem", "sem"), ("cv", "cv"), ("bar", "bar"), ("mbox", "mbox"), ("mq", "mq"), ("var", "var")]


def prog_text(pid, prog):
    out = ["P %s" % pid]
    for r in prog.get("mutex", []): out.append("O mutex %d" % r)
    for c in prog.get("sem", []): out.append("O sem %d" % c)
    for _ in range(prog.get("cv", 0)): out.append("O cv")
    for n in prog.get("bar", []): out.append("O bar %d" % n)
    for _ in range(prog.get("mbox", 0)): out.append("O mbox")
    for _ in range(prog.get("mq", 0)): out.append("O mq")
    for v in prog.get("var", []): out.append("O var %d" % v)
    for ops in prog["actors"]:
        out.append("A")
        out += [" " + " ".join(map(str, op)) for op in ops]
    for ops in prog.get("templates", []):
        out.append("T")
        out += [" " + " ".join(map(str, op)) for op in ops]
    out.append("E")
    return "\n".join(out) + "\n"


def vx_binary():
    return common.build_harness("vx", ["vx/vx.cpp"], libs=["-rdynamic"])


def parse_out(path):
    """-> list of dict(id, states{sid:(canon,[(pid,mc)])}, trans{(sid,(pid,k)):sid}, ttext{}, paths, nstates, ntrans, status)"""
    res, cur = [], None
    for line in open(path, errors="replace"):
        c = line[0]
        if c == "P":
            cur = dict(id=line[2:].strip(), states={}, trans={}, ttext={}, errors=[])
            res.append(cur)
        elif c == "S" and line[1] == " ":
            _, sid, rest = line.rstrip("\n").split(" ", 2)
            if "|E:" not in rest:
                continue  # line cut short by a crash of the worker
            canon, _, en = rest.rpartition("|E:")
            enl = [tuple(map(int, e.split("/"))) for e in en.split(",") if e]
            cur["states"][int(sid)] = (canon, enl)
        elif c == "T" and line[1] == " ":
            parts = line.rstrip("\n").split(" ", 4)
            a, k = parts[2].split("/")
            cur["trans"][(int(parts[1]), (int(a), int(k)))] = int(parts[3])
            if len(parts) > 4 and parts[4] != "-":
                cur["ttext"][(int(parts[1]), (int(a), int(k)))] = parts[4]
        elif c == "X":
            cur["errors"].append(line.strip())
        elif c == "R":
            p = line.split()
            cur.update(paths=int(p[1]), nstates=int(p[2]), ntrans=int(p[3]), status=p[4], nexec=int(p[5]) if len(p) > 5 else 0)
    return res


def _run_shard(args):
    binary, pfile, ofile, mode, maxstates, env = args
    e = dict(os.environ); e.update(env or {})
    r = subprocess.run([binary, "explore", pfile, ofile, mode, str(maxstates)], stdout=subprocess.PIPE, stderr=subprocess.PIPE, env=e)
    return r.returncode, r.stderr.decode(errors="replace")[-2000:]


def run_vx(progs, tag, mode="stateful", maxstates=200000, shards=None, ttext=False, deadline=None):
    """progs: list of (id, prog). Returns {id: parsed graph}."""
    binary = vx_binary()
    d = common.tmpdir("vx-" + tag)
    n = shards or min(common.NCPU, max(1, len(progs)))
    jobs = []
    for i in range(n):
        part = progs[i::n]
        if not part:
            continue
        pf, of = os.path.join(d, "p%d.txt" % i), os.path.join(d, "o%d.txt" % i)
        with open(pf, "w") as f:
            for pid, prog in part:
                f.write(prog_text(pid, prog))
        env = {}
        if ttext: env["VX_TTEXT"] = "1"
        if deadline: env["VX_DEADLINE"] = str(int(deadline))
        jobs.append((binary, pf, of, mode, maxstates, env))
    import concurrent.futures as cf
    with cf.ThreadPoolExecutor(max_workers=len(jobs)) as ex:
        rcs = list(ex.map(_run_shard, jobs))
    out = {}
    for (rc, err), j in zip(rcs, jobs):
        if rc != 0:
            raise RuntimeError("vx shard failed rc=%s: %s" % (rc, err))
        for g in parse_out(j[2]):
            out[g["id"]] = g
    shutil.rmtree(d, ignore_errors=True)
    return out


def conform(impl, ref):
    """Simultaneous BFS of the implementation graph (vx) and the reference graph (rs) from the roots.
    Returns (pairs_visited, transitions_walked, maximal_paths, divergence or None).
    divergence = dict(path=[(pid,k)..], what=..., impl=canon, ref=canon)"""
    root = (0, ref["root"])
    if 0 not in impl["states"]:
        sched = ""
        for e in impl.get("errors", []):
            if "schedule=" in e:
                sched = e.split("schedule=")[1].strip()
        path = [tuple(int(x) for x in (t.split("/") + ["0"])[:2]) for t in sched.split(";") if t]
        return 0, 0, 0, dict(path=path, what="the kernel crashed (%s)" % "; ".join(impl.get("errors", [])), impl="", ref="")
    seen = {root: None}
    order = deque([root])
    ntr = 0
    npaths = 0
    def path_to(pair):
        p = []
        while seen[pair] is not None:
            pair, lab = seen[pair]
            p.append(lab)
        return list(reversed(p))
    while order:
        pair = order.popleft()
        i, r = pair
        ic, ien = impl["states"][i]
        rc, ren = ref["states"][r]
        if ic != rc:
            return len(seen), ntr, npaths, dict(path=path_to(pair), what="state differs", impl=ic, ref=rc)
        if ien != ren:
            return len(seen), ntr, npaths, dict(path=path_to(pair), what="enabled sets differ: impl %s ref %s" % (ien, ren), impl=ic, ref=rc)
        if not ien:
            npaths += 1
        for pid, mc in ien:
            for k in range(mc):
                lab = (pid, k)
                if (i, lab) not in impl["trans"]:
                    if "ASSERTFAIL" in ic:
                        continue
                    return len(seen), ntr, npaths, dict(path=path_to(pair) + [lab], what="implementation has no successor for an enabled label (crash?)", impl=ic, ref=rc)
                nxt = (impl["trans"][(i, lab)], ref["trans"][(r, lab)])
                ntr += 1
                if nxt not in seen:
                    seen[nxt] = (pair, lab)
                    order.append(nxt)
    return len(seen), ntr, npaths, None


def count_paths(g, root=0):
    """number of maximal paths of an acyclic labelled graph (memoised)"""
    succ = {}
    for (i, lab), j in g["trans"].items():
        succ.setdefault(i, []).append(j)
    memo = {}
    def rec(i):
        if i in memo: return memo[i]
        ss = succ.get(i)
        memo[i] = 1 if not ss else sum(rec(j) for j in ss)
        return memo[i]
    import sys
    sys.setrecursionlimit(100000)
    return rec(root)


def sched_str(path):
    return ";".join(("%d/%d" % (a, k)) if k else str(a) for a, k in path)


# ----------------------------------------------------------------------------------------------- program enumeration
def canonical_programs(alphabet, nactors, maxops, minops=1, relevant=None, fixed=None):
    """all programs with `nactors` actors, each an op list of length minops..maxops over `alphabet`, actors sorted
    (symmetry: permuting actors only renames pids) and kept only if `relevant(actors)`."""
    seqs = []
    for n in range(minops, maxops + 1):
        seqs += list(itertools.product(alphabet, repeat=n))
    for combo in itertools.combinations_with_replacement(range(len(seqs)), nactors):
        actors = [list(seqs[i]) for i in combo]
        if relevant and not relevant(actors):
            continue
        yield actors


def touches(actors, objof):
    """True iff at least two actors touch a common object (objof(op) -> hashable or None)"""
    sets = [set(o for o in map(objof, a) if o is not None) for a in actors]
    for i in range(len(sets)):
        for j in range(i + 1, len(sets)):
            if sets[i] & sets[j]:
                return True
    return False


def run_classes(progs, tag, maxexec=3000, deadline=None):
    """vx classes on every program: {id: dict(nexec, nclasses, complete, hb_pairs, hb_bad, race_sets, race_bad, asym, maxlen, notes[], classes{hash}, status)}"""
    binary = vx_binary()
    d = common.tmpdir("vxc-" + tag)
    n = min(common.NCPU, max(1, len(progs)))
    jobs = []
    for i in range(n):
        part = progs[i::n]
        if not part:
            continue
        pf, of = os.path.join(d, "p%d.txt" % i), os.path.join(d, "o%d.txt" % i)
        with open(pf, "w") as f:
            for pid, prog in part:
                f.write(prog_text(pid, prog))
        env = dict(os.environ)
        if deadline:
            env["VX_DEADLINE"] = str(int(deadline))
        jobs.append(([binary, "classes", pf, of, "x", str(maxexec)], env, of))
    import concurrent.futures as cf
    def one(j):
        return subprocess.run(j[0], env=j[1], stdout=subprocess.PIPE, stderr=subprocess.PIPE).returncode
    with cf.ThreadPoolExecutor(max_workers=len(jobs)) as ex:
        list(ex.map(one, jobs))
    out = {}
    for j in jobs:
        cur = None
        for line in open(j[2], errors="replace"):
            if line.startswith("P "):
                cur = dict(id=line[2:].strip(), notes=[], classes=set(), status="CRASH", nexec=0, nclasses=0, complete=False, errors=[])
                out[cur["id"]] = cur
            elif cur is None:
                continue
            elif line.startswith("C "):
                v = list(map(int, line.split()[1:]))
                cur.update(nexec=v[0], nclasses=v[1], complete=bool(v[2]), hb_pairs=v[3], hb_bad=v[4], race_sets=v[5], race_bad=v[6], asym=v[7], maxlen=v[8])
            elif line.startswith("N "):
                cur["notes"].append(line[2:].strip())
            elif line.startswith("K "):
                cur["classes"].add(line[2:].strip())
            elif line.startswith("X "):
                cur["errors"].append(line.strip())
            elif line.startswith("R "):
                cur["status"] = line.split()[4]
    shutil.rmtree(d, ignore_errors=True)
    return out


def run_fnf(prog, schedules, tag):
    """Foata normal form hash of each schedule on the real transitions: list of (status, hash, terminal, length)"""
    binary = vx_binary()
    d = common.tmpdir("vxf-" + tag)
    pf, sf = os.path.join(d, "p.txt"), os.path.join(d, "s.txt")
    open(pf, "w").write(prog_text("x", prog))
    open(sf, "w").write("".join(s + "\n" for s in schedules))
    r = subprocess.run([binary, "fnf", pf, "0", sf], stdout=subprocess.PIPE, stderr=subprocess.PIPE, text=True, timeout=600)
    shutil.rmtree(d, ignore_errors=True)
    res = []
    for line in r.stdout.splitlines():
        p = line.split()
        if len(p) == 4:
            res.append((p[0], p[1], p[2] == "1", int(p[3])))
    return res


def run_pairs(progs, tag, deadline=None):
    """vx pairs on every program: {id: dict(indep, dep, bad, asym, pairs, violations[(kind, prefix, a, b, ta, tb, what)], cells{cell:n}, status)}"""
    binary = vx_binary()
    d = common.tmpdir("vxp-" + tag)
    n = min(common.NCPU, max(1, len(progs)))
    jobs = []
    for i in range(n):
        part = progs[i::n]
        if not part:
            continue
        pf, of = os.path.join(d, "p%d.txt" % i), os.path.join(d, "o%d.txt" % i)
        with open(pf, "w") as f:
            for pid, prog in part:
                f.write(prog_text(pid, prog))
        env = dict(os.environ)
        if deadline:
            env["VX_DEADLINE"] = str(int(deadline))
        jobs.append(([binary, "pairs", pf, of], env, of))
    import concurrent.futures as cf
    with cf.ThreadPoolExecutor(max_workers=len(jobs)) as ex:
        list(ex.map(lambda j: subprocess.run(j[0], env=j[1], stdout=subprocess.PIPE, stderr=subprocess.PIPE).returncode, jobs))
    out = {}
    for j in jobs:
        cur = None
        for line in open(j[2], errors="replace"):
            line = line.rstrip("\n")
            if line.startswith("P "):
                cur = dict(id=line[2:].strip(), indep=0, dep=0, bad=0, asym=0, pairs=0, violations=[], cells={}, status="CRASH", errors=[])
                out[cur["id"]] = cur
            elif cur is None:
                continue
            elif line.startswith("I "):
                v = list(map(int, line.split()[1:]))
                cur.update(indep=v[0], dep=v[1], bad=v[2], asym=v[3], pairs=v[4])
            elif line.startswith("V "):
                cur["violations"].append(tuple(line[2:].split("|")))
            elif line.startswith("L "):
                c, k = line[2:].rsplit(" ", 1)
                cur["cells"][c] = int(k)
            elif line.startswith("X "):
                cur["errors"].append(line)
            elif line.startswith("R "):
                cur["status"] = line.split()[4]
    shutil.rmtree(d, ignore_errors=True)
    return out


def run_agree(progs, tag):
    """vx agree: {id: dict(n, bad, types{}, violations[(path, app, checker)], status)}"""
    binary = vx_binary()
    d = common.tmpdir("vxa-" + tag)
    n = min(common.NCPU, max(1, len(progs)))
    jobs = []
    for i in range(n):
        part = progs[i::n]
        if not part:
            continue
        pf, of = os.path.join(d, "p%d.txt" % i), os.path.join(d, "o%d.txt" % i)
        with open(pf, "w") as f:
            for pid, prog in part:
                f.write(prog_text(pid, prog))
        jobs.append(([binary, "agree", pf, of], of))
    import concurrent.futures as cf
    with cf.ThreadPoolExecutor(max_workers=len(jobs)) as ex:
        list(ex.map(lambda j: subprocess.run(j[0], stdout=subprocess.PIPE, stderr=subprocess.PIPE).returncode, jobs))
    out = {}
    for j in jobs:
        cur = None
        for line in open(j[1], errors="replace"):
            line = line.rstrip("\n")
            if line.startswith("P "):
                cur = dict(id=line[2:].strip(), n=0, bad=0, types={}, violations=[], status="CRASH", errors=[])
                out[cur["id"]] = cur
            elif cur is None:
                continue
            elif line.startswith("I "):
                cur["n"], cur["bad"] = map(int, line.split()[1:3])
            elif line.startswith("V "):
                cur["violations"].append(tuple(line[2:].split("|")[1:4]))
            elif line.startswith("L "):
                t, k = line[2:].rsplit(" ", 1)
                cur["types"][t] = int(k)
            elif line.startswith("X "):
                cur["errors"].append(line)
            elif line.startswith("R "):
                cur["status"] = line.split()[4]
    shutil.rmtree(d, ignore_errors=True)
    return out
