"""Program alphabets covering every activity kind of C01/C02's statement (exec, sleep, comm, mess, I/O, mutex,
semaphore, condition variable, barrier, actor create/kill/join/suspend), grouped in small *families* so that the
odometer of lib/progs.py stays enumerable: each family is enumerated completely at its bounds.

A symbol expands to one or more interpreter ops (harness/sim/sim.cpp); 'x' stands for any other actor.
Every actor a<i> runs on host h<i> (own disk d0, one link per pair of hosts), shared objects: mutex m0, semaphore s0
(capacity 1), condition variable c0, barrier b0 (2 parties), mailbox mb0, message queue q0; a child template c<i> per
actor (own host) for the symbol C.  Ops are well formed by construction (unlock only if held, cv_wait takes the mutex).
"""
import progs

MB, GF = 2.0 ** 20, 2.0 ** 30
SYM = {
    "s1": [("sleep", 1)], "s2": [("sleep", 2)], "e1": [("exec", GF)],
    "P": [("put", "mb0", 0.5 * MB)], "G": [("get", "mb0")],
    "PA": [("comm_put_async", "x@", "mb0", 0.5 * MB), ("wait_for", "x@", 1), ("state", "x@")],
    "MP": [("mess_put", "q0")], "MG": [("mess_get", "q0")],
    "IO": [("io", "d0", MB, "read")], "IW": [("io_async", "y@", "d0", 2 * MB, "write"), ("wait_for", "y@", 1), ("wait", "y@")],
    "CS": [("lock", "m0"), ("sleep", 1), ("unlock", "m0")], "L": [("lock", "m0")], "U": [("unlock", "m0")],
    "TL": [("trylock", "m0")],
    "SA": [("acquire", "s0")], "SR": [("release", "s0")], "ST": [("acquire_timeout", "s0", 1)],
    "CW": [("cv_wait", "c0", "m0")], "CT": [("cv_wait_for", "c0", "m0", 1)], "CN": [("cv_notify_one", "c0")],
    "CB": [("cv_notify_all", "c0")], "B": [("barrier", "b0")],
    "C": [("create", "c@")], "D": [("daemonize",)], "K1": [("set_kill_time", "self", 1)],
}
TARGETED = {"kill": "kill", "join": "join", "susp": "suspend", "res": "resume"}

FAMILIES = {
    "activities": (["s1", "e1", "P", "G", "IO", "MP", "MG"], []),
    "async": (["s1", "PA", "G", "IW", "e1"], []),
    "locks": (["s1", "CS", "L", "U", "TL", "SA", "SR", "ST"], []),
    "condvar": (["s1", "CW", "CT", "CN", "CB", "B"], []),
    "lifecycle": (["s1", "e1", "C", "K1"], ["kill", "join", "susp", "res"]),
    "mixed": (["P", "G", "CS", "SA", "SR", "B"], ["kill"]),
    "core": (["P", "G", "CS", "SA"], ["kill"]),
}


def alpha(family):
    solo, targeted = FAMILIES[family]

    def f(i, A):
        out = [(n,) for n in solo]
        for t in targeted:
            out += [(t, "a%d" % j) for j in range(A) if j != i]
        return out
    return f


def enum(family, A, K):
    return [{"family": family, "prog": [[list(op) for op in ops] for ops in p]} for p in progs.programs(alpha(family), A, K)]


def expand(case):
    tmpl = []
    for ops in case["prog"]:
        l = []
        for op in ops:
            if op[0] in TARGETED:
                l.append((TARGETED[op[0]], op[1]))
            else:
                l.extend(SYM[op[0]])
        tmpl.append(tuple(l))
    return progs.instantiate(tuple(tmpl))


def build_prog(case):
    ops = expand(case)
    A = len(ops)
    hosts = [{"name": "h%d" % i, "disks": [{"name": "d0"}]} for i in range(A)]
    links = [{"name": "l%d_%d" % (i, j), "bw": MB, "lat": 0.5} for i in range(A) for j in range(i + 1, A)]
    routes = [["h%d" % i, "h%d" % j, ["l%d_%d" % (i, j)]] for i in range(A) for j in range(i + 1, A)]
    actors = [{"name": "a%d" % i, "host": "h%d" % i, "on_exit": 1, "ops": ops[i]} for i in range(A)]
    for i in range(A):
        if any(op[0] == "C" for op in case["prog"][i]):
            hosts.append({"name": "g%d" % i})
            actors.append({"name": "c%d" % i, "host": "g%d" % i, "start": False, "on_exit": 1,
                           "ops": [["sleep", 1], ["acquire", "s0"], ["release", "s0"]]})
    objects = {"m0": {"kind": "mutex"}, "s0": {"kind": "sem", "cap": 1}, "c0": {"kind": "condvar"},
               "b0": {"kind": "barrier", "n": 2}}
    return {"hosts": hosts, "links": links, "routes": routes, "objects": objects, "actors": actors}


def text(case):
    return case["family"] + ":" + "|".join("[" + ",".join(" ".join(op) for op in ops) + "]" for ops in case["prog"])
