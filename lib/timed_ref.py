"""timed_ref — independent discrete-event reference for the timed S4U programs run by harness/sim/sim.cpp.

Exact rationals (fractions.Fraction) everywhere; no code shared with SimGrid.  `allowed(program)` returns the SET of
observations the property statements allow: whenever several things carry the same date (two completions, a kill and a
wake-up, an actor that may run and an event that may be processed...) every processing order is explored (DFS over the
choices with a visited set; states are small), EXCEPT where a statement fixes the tie:

  * wait_for / wait_for_or_cancel (C12): "a completion at the deadline counts as completed": the timeout of a wait_for
    is only taken when nothing else can happen at that date any more and the activity is still not complete;
  * sleep_for(d) returns exactly at start+d (C03); an actor with a kill time dies exactly at that date (C11);
  * ActivitySet::wait_any_for: the exact tie is left open (its timeout is an ordinary event).

Granularity of the interleaving (what "any order" means), chosen so that the reference never demands more than the
kernel's scheduling rounds can promise:
  * performing an op and writing its record are two steps: a kill or a suspend issued at the same date may fall between
    them (the op took effect, its record never appears / appears only after resume);
  * an actor that is suspended while it was about to run still performs the one op it had issued (grace), but logs
    nothing until it is resumed; its execs and I/Os are paused, its sleeps are not (the wake-up is delivered at resume);
  * a new actor logs "start" and registers its template attributes (daemon, auto-restart, on_exit callbacks) as separate
    unlogged ops when it first runs: it may be killed before, or in the middle;
  * a message (Mess) completes in the very step that posts its second side; a communication whose peer dies fails
    ("netfail") for the survivor; a deadlocked program is killed at `end_date` (the date the engine gave up).

Resources are never shared here (one host per actor, one link per communication, one disk per I/O, enough cores): the
reference raises RefError("sharing") when a program would make two activities contend, instead of guessing a share.

An observation is a tuple, over actor names in sorted order, of (name, (incarnation logs in creation order)), each log a
tuple of (event, value, date) with date a Fraction.  See normalize() for the same view of a real run.
"""
from fractions import Fraction as F
import copy

PREC = F(1, 10 ** 9)          # precision/timing: documented clamp of sub-precision sleeps
INF = None


class RefError(Exception):
    pass


def fr(x):
    return x if isinstance(x, F) else F(x)


# ------------------------------------------------------------------------------------------------ state
class Actor:
    __slots__ = ("id", "name", "inc", "host", "pc", "st", "wait", "susp", "daemon", "onexit", "log", "kill", "arestart",
                 "pending", "ops", "held", "tmpl", "grace")

    def key(self):
        return (self.id, self.host, self.pc, self.st, self.wait, self.susp, self.daemon, self.onexit, self.log, self.kill,
                self.arestart, self.pending, self.grace)

    def clone(self):
        a = Actor.__new__(Actor)
        for s in Actor.__slots__:
            setattr(a, s, getattr(self, s))
        return a


class Obj:
    """kernel-side activity: exec / io / comm / mess"""
    __slots__ = ("id", "kind", "st", "rem", "since", "paused", "owners", "dur", "res", "q", "bytes", "hosts", "detached")
    # st: 'waiting' (unmatched comm/mess) | 'running' | 'done' | 'canceled'
    # rem: remaining seconds of work at full rate, valid at date `since`; paused: set of actor ids that paused it

    def key(self):
        return (self.id, self.kind, self.st, self.rem, self.since, self.paused, self.owners, self.res, self.q, self.bytes,
                self.hosts, self.detached)

    def clone(self):
        o = Obj.__new__(Obj)
        for s in Obj.__slots__:
            setattr(o, s, getattr(self, s))
        return o

    def finish_date(self):
        if self.st != "running" or self.paused:
            return None
        return self.since + self.rem


class State:
    def __init__(self):
        self.now = F(0)
        self.actors = {}      # id -> Actor
        self.order = ()       # ids in creation order
        self.slots = ()       # ((name, latest id),...)
        self.vars = {}        # var -> (kind, objid|None, s4u_state, spec)
        self.sets = {}        # set -> tuple of var names
        self.objs = {}        # id -> Obj
        self.nobj = 0
        self.queues = {}      # (kind, name) -> tuple of objids waiting (puts and gets mixed; side stored in obj.q)
        self.hosts_on = {}    # host -> bool
        self.boot = ()        # ((host, template name, restart_count, daemon),...) auto-restart registrations
        self.timers = ()      # dates of pending kernel timers (they keep the clock advancing; nothing else)

    def clone(self):
        s = State.__new__(State)
        s.now = self.now
        s.actors = dict(self.actors)
        s.order, s.slots, s.boot, s.nobj, s.timers = self.order, self.slots, self.boot, self.nobj, self.timers
        s.vars = dict(self.vars)
        s.sets = dict(self.sets)
        s.objs = dict(self.objs)
        s.queues = dict(self.queues)
        s.hosts_on = dict(self.hosts_on)
        return s

    def key(self):
        return (self.now, tuple(self.actors[i].key() for i in self.order), self.slots, tuple(sorted(self.vars.items())),
                tuple(sorted(self.sets.items())), tuple(self.objs[i].key() for i in sorted(self.objs)),
                tuple(sorted(self.queues.items())), tuple(sorted(self.hosts_on.items())), self.boot, self.timers)

    # copy-on-write helpers
    def A(self, i):
        a = self.actors[i].clone()
        self.actors[i] = a
        return a

    def O(self, i):
        o = self.objs[i].clone()
        self.objs[i] = o
        return o


class Ref:
    def __init__(self, prog, max_states=200000, end_date=None):
        self.prog = prog
        self.max_states = max_states
        self.end_date = end_date   # date at which the engine gave up (deadlocked actors are killed then); None = last event
        self.hosts = {h["name"]: dict({"speed": 2.0 ** 30, "cores": 1}, **h) for h in prog.get("hosts", [])}
        for h in self.hosts.values():
            h["disks"] = [dict({"rbw": 2.0 ** 20, "wbw": 2.0 ** 20}, **d) for d in h.get("disks", [])]
        self.links = {l["name"]: dict({"bw": 2.0 ** 20, "lat": 0.0}, **l) for l in prog.get("links", [])}
        self.routes = {}
        for (a, b, ls) in prog.get("routes", []):
            self.routes[(a, b)] = ls
            self.routes[(b, a)] = ls
        self.tmpl = {a["name"]: a for a in prog["actors"]}
        self.results = set()
        self.visited = set()
        self.deadlock = False  # some terminal state had actors still blocked (the engine reports a deadlock and kills them)
        self.ties = 0          # number of states with >1 enabled transition (measure of non-determinism explored)

    # ---------------------------------------------------------------- helpers
    def log(self, s, a, ev, val):
        a.log = a.log + ((ev, val, s.now),)

    def spawn(self, s, name, restart_count=0, update_slot=True):
        t = self.tmpl[name]
        n = sum(1 for i in s.order if s.actors[i].name == name)
        a = Actor()
        a.id, a.name, a.inc, a.host = "%s#%d" % (name, n), name, n, t["host"]
        a.pc, a.st, a.wait, a.susp, a.daemon = -1, "ready", None, False, False
        a.onexit, a.log, a.kill, a.arestart, a.held, a.grace = (), (), None, False, (), None
        a.pending = ("start", str(restart_count))     # logged (and the template attributes applied) when it first runs
        # what sim.cpp's run_actor does before the ops, as unlogged ops of their own (each is a simcall)
        hidden = ([["_daemonize"]] if t.get("daemon", False) else []) + ([["_auto_restart"]] if t.get("auto_restart", False) else [])
        hidden += [["_on_exit", k] for k in range(1, t.get("on_exit", 0) + 1)]
        a.ops, a.tmpl = hidden + list(t.get("ops", [])), name
        s.actors[a.id] = a
        s.order = s.order + (a.id,)
        if update_slot:
            s.slots = tuple((k, v) for (k, v) in s.slots if k != name) + ((name, a.id),)
        kt = t.get("kill_time", -1)
        if kt is not None and kt >= 0 and fr(kt) > s.now:
            a.kill = fr(kt)
        return a

    def set_auto_restart(self, s, a, restart_count):
        if not a.arestart:
            a.arestart = True
            s.boot = s.boot + ((a.host, a.tmpl, restart_count + 1),)

    def slot(self, s, a, name):
        if name == "self":
            return a.id
        for (k, v) in s.slots:
            if k == name:
                return v
        return None

    def new_obj(self, s, kind, owners, dur, res=None, st="running", q=None, nbytes=None, detached=False):
        o = Obj()
        o.id, o.kind, o.st, o.rem, o.since, o.paused = s.nobj, kind, st, dur, s.now, frozenset()
        o.owners, o.dur, o.res, o.q, o.bytes, o.hosts, o.detached = tuple(owners), dur, res, q, nbytes, (), detached
        s.nobj += 1
        s.objs[o.id] = o
        if st == "running":
            self.check_sharing(s, o)
        return o

    def check_sharing(self, s, o):
        if o.res is None:
            return
        n = sum(1 for x in s.objs.values() if x.st == "running" and x.res == o.res and x.id != o.id)
        cap = 1
        if o.res[0] == "cpu":
            cap = self.hosts[o.res[1]].get("cores", 1)
        if n + 1 > cap:
            raise RefError("sharing")

    # ---------------------------------------------------------------- activities
    def make_var(self, s, a, op):
        """creation ops: returns nothing; var = (kind, objid, s4u, spec) ; spec is what is needed to start it later"""
        name, v = op[0], op[1]
        if name.startswith("exec"):
            spec = ("exec", fr(op[2]) / fr(self.hosts[a.host]["speed"]), a.host)
        elif name.startswith("io"):
            d = next(d for d in self.hosts[a.host]["disks"] if d["name"] == op[2])
            bw = d["rbw"] if op[4] == "read" else d["wbw"]
            spec = ("io", fr(op[3]) / fr(bw), a.host, op[2])
        elif name.startswith("comm_put"):
            spec = ("comm", "put", op[2], fr(op[3]))
        elif name.startswith("comm_get"):
            spec = ("comm", "get", op[2], None)
        elif name.startswith("mess_put"):
            spec = ("mess", "put", op[2], None)
        elif name.startswith("mess_get"):
            spec = ("mess", "get", op[2], None)
        else:
            raise RefError("op " + name)
        s.vars[v] = (spec[0], None, "INITED", spec)
        if name.endswith("_async"):
            self.start_var(s, a, v)

    def start_var(self, s, a, v):
        kind, oid, st, spec = s.vars[v]
        if oid is not None or st != "INITED":
            return
        if kind == "exec":
            o = self.new_obj(s, "exec", [a.id], spec[1], res=("cpu", spec[2]))
        elif kind == "io":
            o = self.new_obj(s, "io", [a.id], spec[1], res=("disk", spec[2], spec[3]))
        else:
            o = self.post(s, a, kind, spec[1], spec[2], spec[3])
        s.vars[v] = (kind, o.id, "STARTED", spec)

    def post(self, s, a, kind, side, qname, nbytes, detached=False):
        """post one side of a comm / mess on a mailbox / queue; match the first waiting opposite side (FIFO)"""
        qk = (kind, qname)
        q = s.queues.get(qk, ())
        for oid in q:
            o = s.objs[oid]
            if o.q[1] != side:          # opposite side is waiting: match
                o = s.O(oid)
                s.queues[qk] = tuple(x for x in q if x != oid)
                if side == "put":
                    o.bytes = nbytes
                    o.hosts = (a.host, o.hosts[0])
                    o.owners = ((a.id if not detached else None), o.owners[0])
                else:
                    o.hosts = (o.hosts[0], a.host)
                    o.owners = (o.owners[0], a.id)
                o.q = None
                self.begin_transfer(s, o)
                return o
        o = self.new_obj(s, kind, [a.id if not detached else None], None, st="waiting", q=(qname, side), nbytes=nbytes)
        o.hosts = (a.host,)
        s.queues[qk] = q + (o.id,)
        return o

    def begin_transfer(self, s, o):
        o.st, o.since = "running", s.now
        if o.kind == "mess":            # a message completes the instant both sides are there
            o.rem = F(0)
            self.complete(s, o.id)
            return
        src, dst = o.hosts
        if src == dst or (src, dst) not in self.routes:
            raise RefError("route")
        ls = self.routes[(src, dst)]
        lat = sum(fr(self.links[l]["lat"]) for l in ls)
        bw = min(fr(self.links[l]["bw"]) for l in ls)
        o.rem = lat + o.bytes / bw
        o.res = ("link",) + tuple(ls)
        self.check_sharing(s, o)

    def cancel_obj(self, s, oid):
        o = s.objs[oid]
        if o.st in ("done", "canceled"):
            return
        o = s.O(oid)
        if o.st == "waiting":
            qk = (o.kind, o.q[0])
            s.queues[qk] = tuple(x for x in s.queues.get(qk, ()) if x != oid)
        o.st = "canceled"

    def fail_obj(self, s, oid, dying):
        o = s.O(oid)
        o.st = "failed"
        for i in s.order:
            b = s.actors[i]
            if i == dying or b.st != "blocked" or b.wait is None:
                continue
            w = b.wait
            if w[0] == "obj" and w[1] == oid:
                self.wake(s, s.A(i), (b.ops[b.pc][0], "netfail"))
            elif w[0] == "wait" and s.vars[w[1]][1] == oid:
                k, _, st, spec = s.vars[w[1]]
                s.vars[w[1]] = (k, oid, "FAILED", spec)
                self.wake(s, s.A(i), (w[4], "netfail"))
            elif w[0] == "waitany" and any(s.vars[v][1] == oid for v in s.sets.get(w[1], ())):
                raise RefError("failure inside an activity set")

    def pause(self, s, oid, who, on):
        o = s.objs[oid]
        if o.st != "running":
            return
        o = s.O(oid)
        if on:
            if not o.paused:
                o.rem = o.rem - (s.now - o.since)
            o.paused = o.paused | {who}
        else:
            o.paused = o.paused - {who}
            if not o.paused:
                o.since = s.now

    # ---------------------------------------------------------------- lifecycle
    def die(self, s, a, failed):
        """a is a private (already cloned) Actor of s"""
        if a.st == "dead":
            return
        a.st, a.wait, a.pending, a.susp, a.kill = "dead", None, None, False, None
        for k in reversed(a.onexit):
            self.log(s, a, "on_exit", str(k))
        a.onexit = ()
        for oid in list(s.objs):
            o = s.objs[oid]
            if a.id in o.owners and o.st in ("running", "waiting"):
                if o.kind == "comm" and o.st == "running" and len(o.owners) == 2:
                    self.fail_obj(s, oid, a.id)      # the peer of a dying actor sees a network failure
                else:
                    self.cancel_obj(s, oid)
        for i in s.order:       # joiners return at the death date
            b = s.actors[i]
            if b.st == "blocked" and b.wait[0] == "join" and b.wait[1] == a.id:
                self.wake(s, s.A(i), ("join", "ok"))

    def wake(self, s, b, record):
        """b (cloned) stops waiting; it logs `record` when it next runs (a kill at the same date may come first), which
        is only after it has been resumed if it is suspended"""
        b.wait = None
        b.st = "ready"
        b.pending = record

    # ---------------------------------------------------------------- one actor step
    def step(self, s, aid):
        """execute the next op of actor aid in (already cloned) state s; returns a list of successor states (choices)"""
        a = s.A(aid)
        if a.pending is not None:
            rec, a.pending = a.pending, None
            self.log(s, a, rec[0], rec[1])
            a.pc += 1
            return [s]
        a.grace = None
        if a.pc >= len(a.ops):
            self.log(s, a, "end", "-")
            self.die(s, a, False)
            return [s]
        op = a.ops[a.pc]
        n = op[0]
        if n.startswith("_"):
            if n == "_daemonize":
                a.daemon = True
            elif n == "_auto_restart":
                self.set_auto_restart(s, a, int(a.log[0][1]))
            elif n == "_on_exit":
                a.onexit = a.onexit + (op[1],)
            a.pc += 1
            return [s]

        def done(val="ok"):
            a.pending = (n, val)      # the effect is done; the record is written when the actor next runs
            return [s]

        def block(w):
            a.st, a.wait = "blocked", w
            return [s]

        if n == "sleep":
            d = fr(op[1])
            if d <= 0:
                return done()
            if d < PREC:
                d = PREC
            return block(("sleep", s.now + d))
        if n == "sleep_until":
            t = fr(op[1])
            if t <= s.now:
                return done()
            return block(("sleep", max(t, s.now + PREC)))
        if n in ("yield", ):
            return done()
        if n == "log":
            return done(op[1])
        if n in ("timer", "timer_in"):
            d = fr(op[1]) + (s.now if n == "timer_in" else 0)
            s.timers = tuple(sorted(s.timers + (max(d, s.now),)))
            return done()
        if n in ("times", "remaining"):      # value not modelled: normalize() maps it to "-"
            return done("-")
        if n == "kill_in":
            t = s.now + fr(op[1])
            if t > s.now:
                a.kill = t if a.kill is None else min(a.kill, t)
            return done()
        if n == "exec":
            o = self.new_obj(s, "exec", [a.id], fr(op[1]) / fr(self.hosts[a.host]["speed"]), res=("cpu", a.host))
            return block(("obj", o.id))
        if n == "io":
            d = next(d for d in self.hosts[a.host]["disks"] if d["name"] == op[1])
            o = self.new_obj(s, "io", [a.id], fr(op[2]) / fr(d["rbw"] if op[3] == "read" else d["wbw"]),
                             res=("disk", a.host, op[1]))
            return block(("obj", o.id))
        if n in ("exec_init", "exec_async", "io_init", "io_async", "comm_put_init", "comm_put_async", "comm_get_init",
                 "comm_get_async", "mess_put_init", "mess_put_async", "mess_get_init", "mess_get_async"):
            self.make_var(s, a, op)
            return done()
        if n in ("put", "get", "mess_put", "mess_get", "dput"):
            kind = "mess" if n.startswith("mess") else "comm"
            side = "put" if "put" in n else "get"
            nb = fr(op[2]) if n in ("put", "dput") else None
            o = self.post(s, a, kind, side, op[1], nb, detached=(n == "dput"))
            if n == "dput" or s.objs[o.id].st == "done":
                return done()
            return block(("obj", o.id))
        if n == "start":
            self.start_var(s, a, op[1])
            return done()
        if n in ("wait", "wait_for", "wait_for_or_cancel", "wait_until"):
            v = op[1]
            kind, oid, st, spec = s.vars[v]
            if st == "FINISHED":
                return done()
            if st == "CANCELED":
                return done("cancel")
            if st == "FAILED":
                return done("netfail")
            if oid is None:
                self.start_var(s, a, v)
                kind, oid, st, spec = s.vars[v]
            dl = None
            if n in ("wait_for", "wait_for_or_cancel") and fr(op[2]) >= 0:
                dl = s.now + fr(op[2])
            if n == "wait_until":
                if fr(op[2]) <= s.now:
                    return done()            # Activity::wait_until: nothing to do when the date is not in the future
                dl = fr(op[2])
            o = s.objs[oid]
            if o.st == "done":
                s.vars[v] = (kind, oid, "FINISHED", spec)
                return done()
            if o.st == "canceled":
                return done("cancel")
            if o.st == "failed":
                s.vars[v] = (kind, oid, "FAILED", spec)
                return done("netfail")
            return block(("wait", v, dl, n == "wait_for_or_cancel", n))
        if n == "test":
            kind, oid, st, spec = s.vars[op[1]]
            if st in ("FINISHED", "CANCELED"):
                return done("true")
            if oid is None:
                self.start_var(s, a, op[1])
                kind, oid, st, spec = s.vars[op[1]]
            if s.objs[oid].st == "done":
                s.vars[op[1]] = (kind, oid, "FINISHED", spec)
                return done("true")
            return done("false")
        if n == "cancel":
            kind, oid, st, spec = s.vars[op[1]]
            if oid is not None:
                self.cancel_obj(s, oid)
            s.vars[op[1]] = (kind, oid, "CANCELED", spec)
            return done()
        if n == "state":
            return done(s.vars[op[1]][2])
        if n == "set_push":
            s.sets[op[1]] = s.sets.get(op[1], ()) + (op[2],)
            return done()
        if n in ("wait_any", "wait_any_for"):
            members = s.sets.get(op[1], ())
            ready = [v for v in members if s.vars[v][1] is not None and s.objs[s.vars[v][1]].st == "done"]
            if ready:
                out = []
                for v in ready:      # "returns an activity that completed": any of them
                    s2 = s.clone()
                    a2 = s2.A(aid)
                    self.take_from_set(s2, op[1], v)
                    a2.pending = (n, v)
                    out.append(s2)
                return out
            dl = s.now + fr(op[2]) if n == "wait_any_for" and fr(op[2]) >= 0 else None
            return block(("waitany", op[1], dl, n))
        # ---- lifecycle
        if n == "create":
            t = self.tmpl[op[1]]
            if not s.hosts_on.get(t["host"], True):
                return done("hostfail")
            self.spawn(s, op[1])
            return done()
        if n in ("kill", "join", "join_for", "set_kill_time", "suspend", "resume", "is_suspended", "restart"):
            tid = self.slot(s, a, op[1])
            if tid is None:
                return done("absent")
            if n == "kill":
                if tid == a.id:
                    self.die(s, a, True)
                    return [s]
                b = s.A(tid)
                self.die(s, b, True)
                return done()
            if n in ("join", "join_for"):
                if s.actors[tid].st == "dead":
                    return done()
                if tid == a.id:
                    raise RefError("self join")
                dl = None
                if n == "join_for" and fr(op[2]) >= 0:
                    dl = s.now + fr(op[2])
                    if fr(op[2]) == 0:
                        return done()
                    if fr(op[2]) < PREC:
                        dl = s.now + PREC
                return block(("join", tid, dl))
            if n == "set_kill_time":
                t = fr(op[2])
                if s.actors[tid].st == "dead" or t < s.now:
                    return done()                      # a date in the past cannot be honoured
                out = []
                if t == s.now:                         # "dies exactly at that date" vs "date not in the future": open
                    s2 = s.clone()
                    a2 = s2.A(aid)
                    a2.pending = (n, "ok")
                    out.append(s2)
                if s.actors[tid].kill is not None and s.actors[tid].kill != t:
                    # second set_kill_time: the statement does not say which date wins: the new one, or the earliest
                    s3 = s.clone()
                    a3 = s3.A(aid)
                    b3 = a3 if tid == a3.id else s3.A(tid)
                    b3.kill = min(b3.kill, t)
                    a3.pending = (n, "ok")
                    out.append(s3)
                b = a if tid == a.id else s.A(tid)
                b.kill = t
                return done() + out
            if n == "suspend":
                if tid == a.id:
                    a.susp = True
                    a.st, a.wait = "blocked", ("selfsusp",)
                    for oid in list(s.objs):
                        if a.id in s.objs[oid].owners and s.objs[oid].kind in ("exec", "io"):
                            self.pause(s, oid, a.id, True)
                    return [s]
                b = s.A(tid)
                if b.st != "dead" and not b.susp:
                    b.susp = True
                    if b.st == "ready" and b.pending is None and 0 <= b.pc < len(b.ops):
                        b.grace = s.now      # the simcall it issued in the same scheduling round is still performed
                    for oid in list(s.objs):
                        if b.id in s.objs[oid].owners and s.objs[oid].kind in ("exec", "io"):
                            self.pause(s, oid, b.id, True)
                return done()
            if n == "resume":
                b = a if tid == a.id else s.A(tid)
                if b.st != "dead" and b.susp:
                    b.susp = False
                    for oid in list(s.objs):
                        if b.id in s.objs[oid].owners:
                            self.pause(s, oid, b.id, False)
                    if b.wait == ("selfsusp",):
                        self.wake(s, b, ("suspend", "ok"))
                return done()
            if n == "is_suspended":
                return done("true" if s.actors[tid].susp else "false")
            raise RefError("op " + n)
        if n == "kill_all":
            for i in s.order:
                if i != a.id and s.actors[i].st != "dead":
                    self.die(s, s.A(i), True)
            return done()
        if n == "daemonize":
            a.daemon = True
            return done()
        if n == "on_exit":
            a.onexit = a.onexit + (op[1],)
            return done()
        if n == "exit":
            self.die(s, a, True)
            return [s]
        if n == "set_auto_restart":
            self.set_auto_restart(s, a, int(a.log[0][1]))
            return done()
        if n == "host_off":
            h = op[1]
            if s.hosts_on.get(h, True):
                s.hosts_on[h] = False
                for i in s.order:
                    b = s.actors[i]
                    if b.host == h and b.st != "dead" and i != a.id:
                        self.die(s, s.A(i), True)
                if a.host == h:
                    self.die(s, a, True)
                    return [s]
            return done()
        if n == "host_on":
            h = op[1]
            if not s.hosts_on.get(h, True):
                s.hosts_on[h] = True
                for (bh, tn, rc) in s.boot:
                    if bh == h:      # the interpreter's name -> actor table still points to the old incarnation
                        self.spawn(s, tn, rc, update_slot=False)
            return done()
        raise RefError("op " + n)

    def take_from_set(self, s, setname, v):
        s.sets[setname] = tuple(x for x in s.sets[setname] if x != v)
        kind, oid, st, spec = s.vars[v]
        s.vars[v] = (kind, oid, "FINISHED", spec)

    # ---------------------------------------------------------------- events
    def due(self, s):
        """(date, kind, who) of everything scheduled; kind: done(obj) sleep timeout anytimeout jointimeout kill"""
        ev = [(d, "timer", k) for k, d in enumerate(s.timers)]
        for oid, o in s.objs.items():
            d = o.finish_date()
            if d is not None:
                ev.append((d, "done", oid))
        for i in s.order:
            a = s.actors[i]
            if a.st == "dead":
                continue
            if a.kill is not None:
                ev.append((a.kill, "kill", i))
            if a.st == "blocked" and a.wait is not None:
                w = a.wait
                if w[0] == "sleep":
                    ev.append((w[1], "sleep", i))
                elif w[0] == "wait" and w[2] is not None:
                    ev.append((w[2], "timeout", i))
                elif w[0] == "waitany" and w[2] is not None:
                    ev.append((w[2], "anytimeout", i))
                elif w[0] == "join" and w[2] is not None:
                    ev.append((w[2], "jointimeout", i))
        return ev

    def complete(self, s, who):
        """kernel object `who` completes now: every actor blocked on it returns"""
        o = s.O(who)
        o.st, o.rem = "done", F(0)
        for i in s.order:
            a = s.actors[i]
            if a.st != "blocked" or a.wait is None:
                continue
            w = a.wait
            if w[0] == "obj" and w[1] == who:
                self.wake(s, s.A(i), (a.ops[a.pc][0], "ok"))
            elif w[0] == "wait" and s.vars[w[1]][1] == who:
                k, oid, st, spec = s.vars[w[1]]
                s.vars[w[1]] = (k, oid, "FINISHED", spec)
                self.wake(s, s.A(i), (w[4], "ok"))
            elif w[0] == "waitany":
                for v in s.sets.get(w[1], ()):
                    if s.vars[v][1] == who:
                        self.take_from_set(s, w[1], v)
                        self.wake(s, s.A(i), (w[3], v))
                        break

    def fire(self, s, e):
        d, kind, who = e
        if kind == "done":
            self.complete(s, who)
        elif kind == "sleep":
            self.wake(s, s.A(who), ("sleep" if s.actors[who].ops[s.actors[who].pc][0] == "sleep" else "sleep_until", "ok"))
        elif kind == "timeout":
            a = s.A(who)
            w = a.wait
            if w[3]:      # wait_for_or_cancel
                k, oid, st, spec = s.vars[w[1]]
                self.cancel_obj(s, oid)
                s.vars[w[1]] = (k, oid, "CANCELED", spec)
            self.wake(s, a, (w[4], "timeout"))
        elif kind == "anytimeout":
            a = s.A(who)
            self.wake(s, a, (a.wait[3], "timeout"))
        elif kind == "jointimeout":
            self.wake(s, s.A(who), ("join_for", "ok"))
        elif kind == "kill":
            self.die(s, s.A(who), True)
        elif kind == "timer":
            s.timers = s.timers[:who] + s.timers[who + 1:]

    # ---------------------------------------------------------------- exploration
    def successors(self, s):
        """all transitions enabled at s.now; [] if time must advance"""
        out = []
        ready = [i for i in s.order if s.actors[i].st == "ready" and
                 (not s.actors[i].susp or (s.actors[i].grace == s.now and s.actors[i].pending is None))]
        for i in ready:
            out.extend(self.step(s.clone(), i))
        due = [e for e in self.due(s) if e[0] == s.now]
        low = [e for e in due if e[1] == "timeout"]
        high = [e for e in due if e[1] != "timeout"]
        for e in high:
            s2 = s.clone()
            self.fire(s2, e)
            out.append(s2)
        live = [s.actors[i] for i in s.order if s.actors[i].st != "dead"]
        if live and all(a.daemon for a in live):      # only daemons remain: they are killed
            s2 = s.clone()
            for a in live:
                self.die(s2, s2.A(a.id), True)
            out.append(s2)
        if not out:      # wait_for deadlines: only once nothing else can complete the activity at this date
            for e in low:
                s2 = s.clone()
                self.fire(s2, e)
                out.append(s2)
        return out

    def observation(self, s):
        names = sorted({s.actors[i].name for i in s.order})
        obs = tuple((n, tuple(s.actors[i].log for i in s.order if s.actors[i].name == n and s.actors[i].log)) for n in names)
        return tuple((n, incs) for (n, incs) in obs if incs)      # an actor killed before it ever ran leaves no log

    def run(self):
        s0 = State()
        for h in self.hosts:
            s0.hosts_on[h] = True
        for a in self.prog["actors"]:
            if a.get("start", True):
                if self.spawn(s0, a["name"]) is None:
                    pass
        stack = [s0]
        while stack:
            s = stack.pop()
            k = s.key()
            if k in self.visited:
                continue
            self.visited.add(k)
            if len(self.visited) > self.max_states:
                raise RefError("too many states")
            succ = self.successors(s)
            if len(succ) > 1:
                self.ties += 1
            if succ:
                stack.extend(succ)
                continue
            fut = [e[0] for e in self.due(s)]
            if any(d < s.now for d in fut):
                raise RefError("event in the past")
            if fut:
                s2 = s.clone()
                s2.now = min(fut)
                stack.append(s2)
                continue
            # nothing will ever happen again: actors still alive are deadlocked and get killed by the engine
            live = [i for i in s.order if s.actors[i].st != "dead"]
            if live:
                self.deadlock = True
                s2 = s.clone()
                if self.end_date is not None and self.end_date > s2.now:
                    s2.now = self.end_date
                for i in live:
                    self.die(s2, s2.A(i), True)
                s = s2
            self.results.add(self.observation(s))
        return self.results


def allowed(prog, **kw):
    r = Ref(prog, **kw)
    return r.run(), r


# ------------------------------------------------------------------------------------------------ real side
def normalize(obs):
    """real observation (simlib.parse_output) -> same shape as Ref.observation, dates as exact Fractions;
    inherited on_exit callbacks are dropped and the failed flag is not part of the observation"""
    out = []
    for n in sorted(obs["actors"]):
        incs = []
        for log in obs["actors"][n]:
            l = []
            for (ev, val, clock) in log:
                if ev == "on_exit" and ":" in val:       # a callback ("k:failed:own|inh"); the registration op logs "ok"
                    k, failed, own = val.split(":")
                    if own != "own":
                        continue
                    val = k
                if ev in ("times", "remaining"):
                    val = "-"
                l.append((ev, val, F(clock)))
            incs.append(tuple(l))
        out.append((n, tuple(incs)))
    return tuple(out)


def same(o1, o2, tol=0):
    """equality of two observations with an absolute tolerance on dates (0 = exact)"""
    if tol == 0:
        return o1 == o2
    if len(o1) != len(o2):
        return False
    for (n1, i1), (n2, i2) in zip(o1, o2):
        if n1 != n2 or len(i1) != len(i2):
            return False
        for l1, l2 in zip(i1, i2):
            if len(l1) != len(l2):
                return False
            for (e1, v1, d1), (e2, v2, d2) in zip(l1, l2):
                if e1 != e2 or v1 != v2 or abs(d1 - d2) > tol:
                    return False
    return True


def member(real, allowed_set, tol=0):
    return any(same(real, a, tol) for a in allowed_set)


def show(o):
    return {n: [[(e, v, float(d)) for (e, v, d) in l] for l in incs] for (n, incs) in o}


def first_diff(real, allowed_set, tol=0):
    """human-readable first difference between a real observation and the closest allowed one"""
    best = None
    for o in allowed_set:
        n, diff = 0, None
        for (n1, i1), (n2, i2) in zip(real, o):
            for k in range(max(len(i1), len(i2))):
                l1 = i1[k] if k < len(i1) else ()
                l2 = i2[k] if k < len(i2) else ()
                for j in range(max(len(l1), len(l2))):
                    r1 = l1[j] if j < len(l1) else None
                    r2 = l2[j] if j < len(l2) else None
                    if not (r1 and r2 and r1[0] == r2[0] and r1[1] == r2[1] and abs(r1[2] - r2[2]) <= tol):
                        diff = "%s%s record %d: observed %s, reference %s" % (
                            n1, "" if k == 0 else "#%d" % k, j,
                            "nothing" if r1 is None else "%s=%s@%s" % (r1[0], r1[1], float(r1[2])),
                            "nothing" if r2 is None else "%s=%s@%s" % (r2[0], r2[1], float(r2[2])))
                        break
                    n += 1
                if diff:
                    break
            if diff:
                break
        if diff is None and len(real) != len(o):
            diff = "different sets of actors"
        if best is None or n > best[0]:
            best = (n, diff)
    return best[1] if best else "no allowed observation"
