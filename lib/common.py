"""Shared plumbing for every check: paths, build, evidence, violations, known findings."""
import os, sys, json, time, fcntl, subprocess, hashlib, shlex, concurrent.futures as cf

VERIF = os.path.dirname(os.path.dirname(os.path.abspath(__file__)))
REPO = os.environ.get("VERIF_REPO", "/repo")
BUILD = os.environ.get("VERIF_BUILD", os.path.join(VERIF, ".build"))
SG = os.path.join(BUILD, "sg")            # hooked libsimgrid build tree
HB = os.path.join(BUILD, "h")             # harness binaries
TMP = os.path.join(BUILD, "tmp")          # scratch (never /tmp: registered commands must not depend on it)
NCPU = int(os.environ.get("VERIF_JOBS", os.cpu_count() or 4))
GUARD = "SIMGRID_VERIF"
SCRATCH = "VERIF_REPO" in os.environ            # run against a scratch tree: outputs must not touch /verif/evidence
OUT = BUILD if SCRATCH else VERIF               # where evidence/ and replays/ go
SG_TARGETS = ["simgrid", "simgrid-mc", "sthread", "smpimain", "smpireplaymain"]

CXXFLAGS = ["-std=c++20", "-O1", "-g0", "-fno-access-control", "-D" + GUARD, "-I" + REPO, "-I" + REPO + "/include",
            "-I" + SG, "-I" + SG + "/include", "-I/usr/include/eigen3", "-w"]
LDFLAGS = ["-L" + SG + "/lib", "-lsimgrid", "-Wl,-rpath," + SG + "/lib", "-lpthread", "-ldl"]


def log(*a):
    print(*a, file=sys.stderr, flush=True)


def run(cmd, **kw):
    return subprocess.run(cmd, **kw)


class _Lock:
    def __init__(self, name):
        os.makedirs(BUILD, exist_ok=True)
        self.f = open(os.path.join(BUILD, name + ".lock"), "w")
    def __enter__(self):
        fcntl.flock(self.f, fcntl.LOCK_EX)
    def __exit__(self, *a):
        fcntl.flock(self.f, fcntl.LOCK_UN)
        self.f.close()


def ensure_simgrid():
    """Configure once, then ninja the needed targets from REPO's *current* working tree."""
    with _Lock("sg"):
        os.makedirs(SG, exist_ok=True)
        env = dict(os.environ)
        flags = "-g0 -D" + GUARD
        env["CFLAGS"] = flags
        env["CXXFLAGS"] = flags
        if not os.path.exists(os.path.join(SG, "build.ninja")):
            cmd = ["cmake", "-G", "Ninja", "-S", REPO, "-B", SG, "-Denable_java=OFF", "-Denable_lto=OFF",
                   "-Denable_model-checking=ON", "-Denable_smpi=ON", "-Denable_fortran=OFF",
                   "-Denable_documentation=OFF", "-Denable_python=OFF", "-Denable_compile_warnings=OFF"]
            if os.environ.get("VERIF_CCACHE"):
                cmd += ["-DCMAKE_C_COMPILER_LAUNCHER=ccache", "-DCMAKE_CXX_COMPILER_LAUNCHER=ccache"]
            with open(os.path.join(SG, "cmake.log"), "w") as f:
                r = run(cmd, env=env, stdout=f, stderr=subprocess.STDOUT)
            if r.returncode:
                log(open(os.path.join(SG, "cmake.log")).read()[-3000:])
                raise SystemExit("verif: cmake configuration failed (exit 2)")
        with open(os.path.join(SG, "build.log"), "w") as f:
            r = run(["ninja", "-C", SG, "-j", str(NCPU)] + SG_TARGETS, env=env, stdout=f, stderr=subprocess.STDOUT)
        if r.returncode:
            log(open(os.path.join(SG, "build.log")).read()[-4000:])
            log("verif: build of /repo failed")
            raise SystemExit(2)


def build_harness(name, sources, extra=(), libs=(), cxx="g++", link_simgrid=True, flags=None):
    """Compile harness/<sources> into HB/<name>; recompiles when any included header changed (-MMD)."""
    os.makedirs(HB, exist_ok=True)
    out = os.path.join(HB, name)
    mk = os.path.join(HB, name + ".mk")
    srcs = [s if os.path.isabs(s) else os.path.join(VERIF, "harness", s) for s in sources]
    fl = list(CXXFLAGS if flags is None else flags) + list(extra)
    ld = (LDFLAGS if link_simgrid else ["-lpthread"]) + list(libs)
    objs = []
    rules = []
    for s in srcs:
        o = os.path.join(HB, name + "." + os.path.basename(s) + ".o")
        objs.append(o)
        rules.append("%s: %s %s\n\t%s %s -MMD -MP -c %s -o %s\n" % (o, s, mk, cxx, " ".join(map(shlex.quote, fl)), s, o))
    deps = [os.path.join(SG, "lib", "libsimgrid.so")] if link_simgrid else []
    text = "all: %s\n%s: %s %s\n\t%s %s -o %s %s\n%s\n-include %s\n" % (
        out, out, " ".join(objs), " ".join(deps), cxx, " ".join(objs), out, " ".join(map(shlex.quote, ld)),
        "".join(rules), " ".join(o[:-2] + ".d" for o in objs))
    with _Lock("h-" + name):
        old = open(mk).read() if os.path.exists(mk) else None
        if old != text:
            open(mk, "w").write(text)
        r = run(["make", "-s", "-j", str(NCPU), "-f", mk, "all"], stdout=subprocess.PIPE, stderr=subprocess.STDOUT, text=True)
        if r.returncode:
            log(r.stdout[-6000:])
            log("verif: harness %s failed to compile against the current /repo" % name)
            raise SystemExit(2)
    return out


def tmpdir(tag):
    d = os.path.join(TMP, "%s-%d" % (tag, os.getpid()))
    os.makedirs(d, exist_ok=True)
    return d


def pmap(fn, items, workers=None, chunksize=1):
    """Ordered parallel map over processes."""
    items = list(items)
    if not items:
        return []
    with cf.ProcessPoolExecutor(max_workers=workers or NCPU) as ex:
        return list(ex.map(fn, items, chunksize=chunksize))


class Deadline:
    def __init__(self, seconds):
        self.t0 = time.time()
        self.end = self.t0 + seconds
    def left(self):
        return self.end - time.time()
    def over(self):
        return time.time() > self.end


# ---------------------------------------------------------------- known findings
def load_known(prop):
    known, fixed = [], []
    p = os.environ.get("VERIF_KNOWN") or os.path.join(VERIF, "known_findings.txt")  # override: validating fixes in a scratch tree
    if os.path.exists(p):
        for line in open(p):
            line = line.strip()
            if line.startswith("known: property=%s " % prop):
                rest = line[len("known: property=%s " % prop):]
                key, _, what = rest.rpartition(" :: ") if " :: " in rest else (rest, "", "")
                known.append((key.strip(), what.strip()))
            elif line.startswith("fixed: property=%s " % prop):
                fixed.append(line)
    return known, fixed


class Violation:
    def __init__(self, key, what, case, how_to_replay=""):
        self.key, self.what, self.case, self.how = key, what, case, how_to_replay


class Ctx:
    def __init__(self, prop, tier, seed, replay=None):
        self.prop, self.tier, self.seed, self.replay = prop, tier, seed, replay
        self.t0 = time.time()
        self.quick = tier == "quick"
        budget = os.environ.get("VERIF_BUDGET_S")
        self.deadline = Deadline(float(budget) if budget else (150 if self.quick else 1200))


def finish(ctx, level, coverage, assumptions, violations, engine=""):
    """Write evidence, print KNOWN-FINDING / VIOLATION lines, exit with the protocol's code."""
    known, _fixed = load_known(ctx.prop)
    rdir = os.path.join(OUT, "replays", ctx.prop)
    new, seen_known = [], {}
    for v in violations:
        hit = next((k for k in known if k[0] == v.key), None)
        if hit:
            seen_known.setdefault(hit[0], (hit[1], 0))
            seen_known[hit[0]] = (hit[1], seen_known[hit[0]][1] + 1)
        else:
            new.append(v)
    for k, (what, n) in seen_known.items():
        print("KNOWN-FINDING: property=%s %s :: %s (%d case%s)" % (ctx.prop, k, what, n, "" if n == 1 else "s"))
    paths = []
    if new:
        os.makedirs(rdir, exist_ok=True)
    for i, v in enumerate(new[:20]):
        h = hashlib.sha1(v.key.encode()).hexdigest()[:10]
        p = os.path.join(rdir, "%s.json" % h)
        json.dump({"property": ctx.prop, "engine": engine, "key": v.key, "what": v.what, "case": v.case,
                   "how_to_replay": v.how or "bin/check %s --replay %s" % (ctx.prop, p)}, open(p, "w"), indent=1)
        paths.append(p)
    ev = {"property_id": ctx.prop, "tier": ctx.tier, "seed": ctx.seed, "level": level, "coverage": coverage,
          "assumptions": assumptions, "wall_s": round(time.time() - ctx.t0, 2), "violations": len(new),
          "known_findings_seen": sorted(seen_known)}
    os.makedirs(os.path.join(OUT, "evidence"), exist_ok=True)
    tmp = os.path.join(OUT, "evidence", ".%s.%d.tmp" % (ctx.prop, os.getpid()))
    json.dump(ev, open(tmp, "w"), indent=1, default=str)
    os.replace(tmp, os.path.join(OUT, "evidence", ctx.prop + ".json"))
    if os.environ.get("VERIF_DUMP_KEYS"):   # development aid: every new violation key, one per line, in known-findings syntax
        with open(os.environ["VERIF_DUMP_KEYS"], "a") as f:
            for v in new:
                f.write("known: property=%s %s :: %s\n" % (ctx.prop, v.key, v.what.replace("\n", " ")[:300]))
    for v, p in zip(new, paths):
        print("VIOLATION property=%s replay=%s" % (ctx.prop, p))
        print("  key: %s\n  what: %s" % (v.key, v.what))
    if len(new) > len(paths):
        print("  (+%d more violations not written out)" % (len(new) - len(paths)))
    cov = {k: v for k, v in coverage.items() if k not in ("samples",)}
    print("%s %s: %s  [%.1fs]" % (ctx.prop, ctx.tier, json.dumps(cov, default=str)[:600], time.time() - ctx.t0))
    sys.stdout.flush()
    sys.exit(1 if new else 0)
