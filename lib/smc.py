"""E3 `smc`: run SimGrid's own checker (simgrid-mc) on a vx program and reconstruct, from the H1 hook log, what it visited."""
import os, re, subprocess, shutil
import common, vxlib

_NT = re.compile(r"(A\d+:[^:;]*):\d+:")
_PR = re.compile(r":p[-01];")

def norm(canon):
    """drop the per-actor transition counter and the hidden condvar result: not maintained when the checker drives the application"""
    return _PR.sub(";", _NT.sub(r"\1:", canon))

EXIT = {0: "ok", 1: "safety", 2: "deadlock", 3: "nontermination", 4: "nondeterminism", 5: "crash", 6: "error", 63: "error"}

def run(binary, pfile, idx, cfg, workdir, tag, timeout=120, max_errors=0):
    """-> dict(rc, deadlock, assertion, traces, states, terminals:set(norm canon), complete:[prefix strings], paths:[reported replay paths], out)"""
    fp = os.path.join(workdir, "fp-%s.log" % tag)
    if os.path.exists(fp):
        os.remove(fp)
    env = dict(os.environ, VERIF_MC_FP=fp)
    cmd = [os.path.join(common.SG, "bin", "simgrid-mc"), binary, "run", pfile, str(idx)] + ["--cfg=" + c for c in cfg]
    if max_errors:
        cmd.append("--cfg=model-check/max-errors:%d" % max_errors)
    try:
        r = subprocess.run(cmd, env=env, stdout=subprocess.PIPE, stderr=subprocess.STDOUT, timeout=timeout, text=True, errors="replace")
        out, rc = r.stdout, r.returncode
    except subprocess.TimeoutExpired as e:
        out, rc = (e.stdout or b"").decode(errors="replace") if isinstance(e.stdout, bytes) else (e.stdout or ""), -999
    res = dict(rc=rc, out=out[-4000:], deadlock="DEADLOCK DETECTED" in out, assertion=("PROPERTY VIOLATED" in out.upper() or "assertion" in out.lower() and "failed" in out.lower()),
               terminals=set(), complete=[], paths=re.findall(r"model-check/replay:'([^']*)'", out), states=0, traces=None, timeout=rc == -999)
    m = re.search(r"(\d+) explored traces", out)
    if m:
        res["traces"] = int(m.group(1))
    seen = set()
    if os.path.exists(fp):
        for line in open(fp, errors="replace"):
            if not line.startswith("F "):
                continue
            parts = line[2:].rstrip("\n").split("|")
            if len(parts) < 3:
                continue
            prefix, canon, status = parts[0], parts[1], parts[2]
            seen.add(canon)
            enabled = any(s.split(":")[1] == "1" and s.split(":")[2] != "0" for s in status.split(";") if s.count(":") >= 2)
            if not enabled:
                res["terminals"].add(norm(canon))
                res["complete"].append(prefix)
        os.remove(fp)
    res["states"] = len(seen)
    return res
