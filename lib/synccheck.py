"""Shared driver for the kernel-synchronisation properties (C04–C09): enumerate programs, explore the real kernel with
vx (all interleavings), explore the reference semantics rs, walk both graphs side by side."""
import time, json, itertools
import common, vxlib, rs


def _ref_job(item):
    pid, prog, impl = item
    try:
        ref = rs.explore(prog)
    except Exception as e:  # a reference-model crash is a harness bug, never a violation
        return pid, dict(error="rs: %r" % (e,))
    pairs, ntr, nterm, div = vxlib.conform(impl, ref)
    terms = sorted(set(ref["states"][i][0] for i in ref["terminals"]))
    dl = sum(1 for c in terms if rs.is_deadlock(c))
    return pid, dict(ref_states=len(ref["states"]), ref_trans=len(ref["trans"]), pairs=pairs, walked=ntr,
                     paths=vxlib.count_paths(ref) if ref["complete"] else 0, div=div, outcomes=len(terms), deadlocks=dl,
                     complete=ref["complete"])


def compact(prog):
    objs = {k: v for k, v in prog.items() if k not in ("actors", "templates")}
    s = json.dumps(objs, sort_keys=True, separators=(",", ":")) + " " + " | ".join(
        " ".join(".".join(map(str, op)) for op in a) for a in prog["actors"])
    if prog.get("templates"):
        s += " T: " + " | ".join(" ".join(".".join(map(str, op)) for op in a) for a in prog["templates"])
    return s


def _cpu():
    import resource
    r = resource.getrusage(resource.RUSAGE_CHILDREN)
    return r.ru_utime + r.ru_stime


def run_bounds(ctx, bounds, level_text, assumptions, engine="E1 vx + E2 rs", stateless_limit=40):
    """bounds: list of (name, generator-function) in increasing order; each is completed or not started."""
    tot = dict(programs=0, states=0, transitions=0, ref_states=0, ref_transitions=0, traces=0, nontrivial=0,
               stateless_crosschecked=0, stateless_paths=0, deadlocking=0)
    completed, violations, samples = [], [], []
    exhaustive = True
    import os
    only = os.environ.get("VERIF_BOUNDS")  # development aid: comma-separated bound names
    if only:
        bounds = [b for b in bounds if b[0] in only.split(",")]
    for name, gen in bounds:
        if ctx.deadline.left() < 10:
            exhaustive = False
            break
        t0 = time.time()
        c0 = _cpu()
        progs = [("%s-%d" % (name, i), p) for i, p in enumerate(gen())]
        if not progs:
            continue
        graphs = vxlib.run_vx(progs, ctx.prop + name, deadline=ctx.deadline.end)
        skipped = [pid for pid, _ in progs if graphs[pid]["status"] == "SKIP"]
        if skipped:  # deadline reached inside this bound: check what was explored, report the bound as not completed
            exhaustive = False
            progs = [(pid, p) for pid, p in progs if graphs[pid]["status"] != "SKIP"]
            if not progs:
                break
        c1 = _cpu()
        bad = [pid for pid, _ in progs if graphs[pid]["status"] != "OK"]
        jobs = [(pid, p, graphs[pid]) for pid, p in progs]
        res = dict(common.pmap(_ref_job, jobs, chunksize=8))
        # fingerprint soundness: on small programs the stateless walk (every path to the end) must reach the same terminal states
        # (only programs on which implementation and reference agree: a divergence is reported as such, not as a harness error)
        small = [(pid, p) for pid, p in progs if graphs[pid]["status"] == "OK" and res[pid].get("div") is None and res[pid].get("paths", 0) and res[pid]["paths"] <= stateless_limit]
        if small and ctx.deadline.left() > 20:
            sl = vxlib.run_vx(small, ctx.prop + name + "sl", mode="stateless", deadline=ctx.deadline.end)
            for pid, p in small:
                g1, g2 = graphs[pid], sl[pid]
                if g2["status"] == "SKIP":
                    continue
                t1 = set(c for c, en in g1["states"].values() if not en)
                t2 = set(c for c, en in g2["states"].values() if not en)
                tot["stateless_crosschecked"] += 1
                tot["stateless_paths"] += g2.get("paths", 0)
                if t1 != t2 or g2["status"] != "OK" or g2["paths"] != vxlib.count_paths(g1):
                    common.log("harness error: stateful/stateless exploration disagree on %s: %s" % (pid, compact(p)))
                    common.log("  stateful terminals %d stateless %d; paths impl %s ref %s" % (len(t1), len(t2), g2.get("paths"), res[pid]["paths"]))
                    raise SystemExit(2)
        for pid, p in progs:
            g, r = graphs[pid], res[pid]
            if "error" in r:
                common.log("harness error on %s: %s" % (compact(p), r["error"]))
                raise SystemExit(2)
            tot["programs"] += 1
            tot["states"] += g.get("nstates", 0)
            tot["transitions"] += g.get("ntrans", 0)
            tot["ref_states"] += r["ref_states"]
            tot["ref_transitions"] += r["ref_trans"]
            if r["outcomes"] >= 2 or r["deadlocks"] >= 1:
                tot["nontrivial"] += 1
            if r["deadlocks"]:
                tot["deadlocking"] += 1
            if r["div"] is None and g["status"] == "OK":
                tot["traces"] += r["paths"]
            else:
                d = r["div"] or dict(path=[], what="explorer status " + g["status"], impl="", ref="")
                sched = vxlib.sched_str(d["path"])
                violations.append(common.Violation(
                    "%s prog=%s sched=%s" % (ctx.prop, compact(p), sched),
                    "%s after schedule [%s]: impl=%s ref=%s" % (d["what"], sched, d["impl"], d["ref"]),
                    dict(program=p, schedule=sched, what=d["what"], impl=d["impl"], ref=d["ref"])))
        if len(samples) < 4:
            samples.append(dict(bound=name, program=compact(progs[len(progs) // 2][1]),
                                impl_states=graphs[progs[len(progs) // 2][0]].get("nstates"),
                                ref_paths=res[progs[len(progs) // 2][0]]["paths"]))
        completed.append(dict(bound=name, programs=len(progs), complete=not skipped, skipped_programs=len(skipped), wall_s=round(time.time() - t0, 1), cpu_s_explore=round(c1 - c0, 1),
                              cpu_s_total=round(_cpu() - c0, 1)))
        common.log("%s bound %s: %d programs, %.1fs wall, cpu explore %.1fs total %.1fs, violations so far %d" % (
            ctx.prop, name, len(progs), time.time() - t0, c1 - c0, _cpu() - c0, len(violations)))
    if tot["programs"] == 0 or tot["nontrivial"] < 2:
        common.log("vacuous run: %s" % tot)
        raise SystemExit(2)
    violations = confirm(ctx, violations)
    cov = dict(states=tot["states"], transitions=tot["transitions"], traces_validated_against_impl=tot["traces"],
               reference_states=tot["ref_states"], reference_transitions=tot["ref_transitions"],
               programs=tot["programs"], distinct_nontrivial=tot["nontrivial"], evaluations=tot["programs"],
               rule="every program of the bound (actors sorted to remove symmetric duplicates, >=2 actors sharing an object) x every interleaving; "
                    "non-trivial = the reference reaches >=2 distinct terminal states or a deadlock",
               deadlocking_programs=tot["deadlocking"], stateless_crosschecked_programs=tot["stateless_crosschecked"],
               stateless_complete_paths=tot["stateless_paths"], bounds_completed=completed, samples=samples,
               exhaustive=exhaustive and len(completed) == len(bounds) and all(c["complete"] for c in completed))
    common.finish(ctx, "model_checking", cov, assumptions, violations, engine=engine)


def replay_one(program, schedule):
    """re-run one schedule on the implementation (vx replay) and on the reference; return (impl_states, ref_states)"""
    import os, subprocess
    binary = vxlib.vx_binary()
    d = common.tmpdir("replay")
    pf = os.path.join(d, "p.txt")
    open(pf, "w").write(vxlib.prog_text("replay", program))
    out = subprocess.run([binary, "replay", pf, "0", schedule], stdout=subprocess.PIPE, stderr=subprocess.PIPE, text=True)
    impl = [l[2:].split(" ", 1)[1] for l in out.stdout.splitlines() if l.startswith("S ")]
    extra = [l for l in out.stdout.splitlines() if l.startswith("NOT-ENABLED")]
    s = rs.initial(program)
    ref = []
    def snap():
        ref.append(s.canon() + "|E:" + ",".join("%d/%d" % e for e in s.enabled()))
    snap()
    for tok in [t for t in schedule.split(";") if t]:
        a, _, k = tok.partition("/")
        if (int(a), ) and not any(p == int(a) for p, mc in s.enabled()):
            ref.append("NOT-ENABLED " + tok)
            break
        s.step(int(a), int(k or 0))
        snap()
    return impl + extra, ref, out.returncode


def confirm(ctx, violations):
    """each reported divergence is replayed alone twice (fresh processes) and must fail identically"""
    out = []
    for v in violations[:40]:
        r1 = replay_one(v.case["program"], v.case["schedule"])
        r2 = replay_one(v.case["program"], v.case["schedule"])
        if r1 != r2:
            common.log("harness nondeterminism while replaying %s" % v.key)
            raise SystemExit(2)
        if r1[0] == r1[1] and r1[2] == 0:
            common.log("divergence did not reproduce on replay: %s" % v.key)
            raise SystemExit(2)
        out.append(v)
    return out + violations[40:]


def replay(ctx, case):
    c = case["case"]
    impl, ref, rc = replay_one(c["program"], c["schedule"])
    print("program:", compact(c["program"]))
    print("schedule (also valid for --cfg=model-check/replay:):", c["schedule"])
    for i, (a, b) in enumerate(itertools.zip_longest(impl, ref, fillvalue="<missing>")):
        print("step %d %s\n   impl %s\n   ref  %s" % (i, "ok  " if a == b else "DIFF", a, b))
    diverged = impl != ref or rc != 0
    print("VIOLATION reproduced" if diverged else "no divergence")
    return 1 if diverged else 0
