"""Shared driver for the E4 checks that enumerate programs bound by bound, run them (packed) on the real simulator and
judge each run in the worker (C11, C01, C02...).  The check module provides:
   build_prog(case) -> program,  judge(case, prog, obs) -> {"case","ok","problems","error","nontrivial", ...}
   key_of(case, signature) -> case key,  signature(result) -> failure signature without volatile parts
"""
import json, sys, time
import common, simlib


def run_bounds(ctx, mod, bounds, K=32, argv=(), reserve=25):
    """bounds: list of (name, cases).  Returns dict with everything needed for evidence + the list of bad results."""
    binary = simlib.build()
    prop = ctx.prop
    out = {"binary": binary, "evaluations": 0, "done": [], "per": {}, "bad": [], "errors": [], "nontrivial": set(),
           "exhaustive": True, "samples": [], "results": {}}
    rate = None
    for (name, cases) in bounds:
        if callable(cases):
            cases = cases()
        if ctx.deadline.left() < reserve and out["done"]:
            out["exhaustive"] = False
            break
        if not ctx.quick and rate and len(cases) > 1500 and len(cases) / rate * 2.0 > ctx.deadline.left() - reserve:      # would not finish: do not start it
            out["exhaustive"] = False
            out["not_started"] = name
            break
        t_b = time.time()
        results = simlib.eval_cases_packed(binary, cases, mod.__name__, K=K, argv=argv, tag=prop.lower())
        out["evaluations"] += len(results)
        nb = 0
        for r in results:
            if r.get("error"):
                out["errors"].append((r["case"], r["error"]))
                continue
            if r.get("nontrivial"):
                out["nontrivial"].add(json.dumps(r["case"], sort_keys=True))
            if not r["ok"]:
                nb += 1
                out["bad"].append(r)
        out["per"][name] = {"programs": len(cases), "failed": nb, "t_s": round(time.time() - ctx.t0, 1)}
        out["results"][name] = results
        common.log("%s %s: %d programs, %d failing, t=%.0fs" % (prop, name, len(cases), nb, time.time() - ctx.t0))
        out["done"].append(name)
        if len(cases) >= 300:
            rate = len(cases) / max(0.5, time.time() - t_b)
        if cases and len(out["samples"]) < 4:
            c = cases[len(cases) // 2]
            out["samples"].append({"case": c, "actors": mod.build_prog(c)["actors"]})
    simlib.cleanup(prop.lower())
    if out["errors"]:
        common.log("%s: harness error on %d programs, first: %s" % (prop, len(out["errors"]), out["errors"][0]))
        raise SystemExit(2)
    return out


def violations(ctx, mod, out, size=lambda case: len(json.dumps(case)), argv=()):
    """group failing results by signature, confirm the smallest of each group (alone twice, else in its pack twice)"""
    bykey = {}
    for r in out["bad"]:
        bykey.setdefault(mod.signature(r), []).append(r)
    vio = []
    for sig, rs in sorted(bykey.items()):
        rs.sort(key=lambda r: (size(r["case"]), json.dumps(r["case"], sort_keys=True)))
        c = simlib.confirm(out["binary"], mod, rs[0], lambda r: mod.signature(r) if r["problems"] else "", argv=argv)
        if c is None:
            common.log("%s: violation did not reproduce identically (harness bug): %s" % (ctx.prop, mod.key_of(rs[0]["case"], sig)))
            raise SystemExit(2)
        r2 = c[1]
        vio.append(common.Violation(mod.key_of(rs[0]["case"], sig),
                                    "%s (%d programs with this signature; smallest shown%s)" % (
                                        "; ".join(r2["problems"][:3]), len(rs),
                                        ", fails only inside its pack" if c[0] == "pack" else ""),
                                    {"case": r2["case"], "pack": r2.get("packed_with") if c[0] == "pack" else None,
                                     "program": mod.build_prog(r2["case"]), "observed": r2.get("observed"),
                                     "expected_one_of": r2.get("expected"),
                                     "other_cases": [x["case"] for x in rs[1:20]]}))
    return vio


def replay(ctx, mod, rf, argv=()):
    binary = simlib.build()
    case = rf["case"]["case"]
    if rf["case"].get("pack"):
        r = simlib.judge_in_pack(binary, mod, case, rf["case"]["pack"], argv=argv)
    else:
        r = simlib.judge_alone(binary, mod, case, argv=argv)
    print(json.dumps({"case": case, "actors": mod.build_prog(case)["actors"], "problems": r["problems"],
                      "error": r.get("error"), "observed": r.get("observed")}, indent=1))
    return 0 if r["ok"] and not r.get("error") else 1
