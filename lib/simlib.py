"""Runner for the E4 `sim` interpreter (harness/sim/sim.cpp): build, run batches on all cores, parse logs.

Observation of a run (parse_output):
  {"status": int exit status (0 ok), "actors": {name: [incarnation logs in pid order]}, "sig": [(ev, val, clock)],
   "end": clock, "raw": text}
an incarnation log is a list of (event, value, clock-as-float); clocks are printed with %.17g so float() is exact.
"""
import os, subprocess, json, shutil
import common


def build():
    return common.build_harness("sim", ["sim/sim.cpp"])


def default_platform(nhosts, disks=0, cores=1, links=()):
    """hosts h0..h{n-1} at 2^30 flop/s; links: iterable of (i, j, bw, lat) -> dedicated link lIJ + route."""
    hosts = [{"name": "h%d" % i, "speed": 2.0 ** 30, "cores": cores,
              "disks": [{"name": "d%d" % k, "rbw": 2.0 ** 20, "wbw": 2.0 ** 20} for k in range(disks)]}
             for i in range(nhosts)]
    ls, rs = [], []
    for (i, j, bw, lat) in links:
        n = "l%d_%d" % (i, j)
        ls.append({"name": n, "bw": bw, "lat": lat})
        rs.append(["h%d" % i, "h%d" % j, [n]])
    return {"hosts": hosts, "links": ls, "routes": rs}


def crash_digest(text):
    """first CRITICAL message of the engine (assertion / uncaught exception), without paths, line numbers and dates"""
    import re
    for line in text.splitlines():
        m = re.search(r"CRITICAL\] (.*)", line)
        if not m or m.group(1).startswith(("Oops!", "Current backtrace")):
            continue
        t = re.sub(r"\S*/src/", "src/", m.group(1))
        t = re.sub(r":\d+:", ":", t)
        return t.replace("Uncaught exception ", "")[:100]
    return ""


def parse_output(text, status=0):
    actors, order, sig, end = {}, [], [], None
    per = {}
    for line in text.splitlines():
        if line.startswith("A "):
            _, name, pid, seq, ev, val, clock = line.split(" ", 6)
            per.setdefault((name, int(pid)), []).append((ev, val, float(clock)))
        elif line.startswith("S "):
            _, seq, ev, val, clock = line.split(" ", 4)
            sig.append((ev, val, float(clock)))
        elif line.startswith("END "):
            end = float(line[4:])
    for (name, pid) in sorted(per, key=lambda k: k[1]):
        actors.setdefault(name, []).append(per[(name, pid)])
    st = status if end is not None or status else 99
    crash = ""
    if st:
        crash = crash_digest(text) or {139: "SIGSEGV", 134: "SIGABRT", 152: "CPU limit: the simulation spins", 136: "SIGFPE"}.get(st, "")
    return {"status": st, "actors": actors, "sig": sig, "end": end, "raw": text, "crash": crash}


def _split_batch(text, n):
    outs = [None] * n
    cur, buf = None, []
    for line in text.splitlines():
        if line.startswith("#BEGIN "):
            cur, buf = int(line[7:]), []
        elif line.startswith("#END "):
            _, i, st = line.split()
            outs[int(i)] = ("\n".join(buf) + "\n", int(st))
            cur = None
        elif cur is not None:
            buf.append(line)
    return outs


def _run_shard(a):
    binary, d, idx, lines, argv, wrapper, timeout = a
    f = os.path.join(d, "b%d.jsonl" % idx)
    with open(f, "w") as fh:
        fh.write("\n".join(lines) + "\n")
    import time
    for attempt in range(4):
        try:
            r = subprocess.run(list(wrapper) + [binary, "--batch", f] + list(argv), stdout=subprocess.PIPE,
                               stderr=subprocess.DEVNULL, text=True, timeout=timeout)
            out = r.stdout
        except subprocess.TimeoutExpired as e:
            out = e.stdout.decode() if isinstance(e.stdout, bytes) else (e.stdout or "")
        except OSError:          # binary being relinked by a concurrent build_harness (ETXTBSY / ENOENT): retry
            out = ""
        if "#END" in out or not lines:
            break
        time.sleep(2)
    try:
        os.unlink(f)
    except OSError:
        pass
    return _split_batch(out, len(lines))


def run_many(binary, progs, argv=(), wrapper=(), tag="sim", shards=None, timeout=600, raw=False):
    """Run every program (dict) once; returns the list of parsed observations in the same order.
    One `sim --batch` process per shard (fork per program inside), shards spread over all cores."""
    progs = list(progs)
    if not progs:
        return []
    lines = [json.dumps(p, separators=(",", ":")) for p in progs]
    n = shards or min(len(lines), common.NCPU * 2)
    d = common.tmpdir(tag)
    chunks = [(binary, d, i, lines[i::n], tuple(argv), tuple(wrapper), timeout) for i in range(n)]
    res = common.pmap(_run_shard, chunks, workers=min(n, common.NCPU))
    outs = [None] * len(lines)
    for i, r in enumerate(res):
        for k, o in enumerate(r):
            outs[i + k * n] = o
    final = []
    for o in outs:
        if o is None:
            final.append({"status": 98, "actors": {}, "sig": [], "end": None, "raw": "", "crash": ""} if not raw else ("", 98))
        else:
            final.append(o if raw else parse_output(o[0], o[1]))
    return final


def run_one(binary, prog, argv=(), wrapper=(), raw=False, timeout=120):
    """Run a single program in its own exec (used by replays and by the ASLR variants of C01)."""
    try:
        r = subprocess.run(list(wrapper) + [binary, "-"] + list(argv), input=json.dumps(prog), stdout=subprocess.PIPE,
                           stderr=subprocess.STDOUT, text=True, timeout=timeout)
        out, st = r.stdout, (128 - r.returncode if r.returncode < 0 else r.returncode)
    except subprocess.TimeoutExpired:
        out, st = "", 97
    return (out, st) if raw else parse_output(out, st)


def cleanup(tag):
    shutil.rmtree(os.path.join(common.TMP, "%s-%d" % (tag, os.getpid())), ignore_errors=True)


# ------------------------------------------------------------------------------------------------ evaluate cases in shards
def _eval_shard(a):
    import importlib
    binary, d, idx, cases, modname, argv, wrapper, timeout = a
    mod = importlib.import_module(modname)
    progs = [mod.build_prog(c) for c in cases]
    outs = _run_shard((binary, d, idx, [json.dumps(p, separators=(",", ":")) for p in progs], argv, wrapper, timeout))
    res = []
    for c, p, o in zip(cases, progs, outs):
        obs = parse_output(o[0], o[1]) if o is not None else {"status": 98, "actors": {}, "sig": [], "end": None, "raw": "", "crash": ""}
        res.append(mod.judge(c, p, obs))
    return res


def eval_cases(binary, cases, modname, argv=(), wrapper=(), tag="sim", timeout=900, shards=None):
    """cases -> [modname.judge(case, modname.build_prog(case), observation)] in order; the simulation AND the judging
    (reference model) of a shard run in the same worker process, shards spread over all cores."""
    cases = list(cases)
    if not cases:
        return []
    n = shards or min(len(cases), common.NCPU * 3)
    d = common.tmpdir(tag)
    chunks = [(binary, d, i, cases[i::n], modname, tuple(argv), tuple(wrapper), timeout) for i in range(n)]
    res = common.pmap(_eval_shard, chunks, workers=min(n, common.NCPU))
    out = [None] * len(cases)
    for i, r in enumerate(res):
        for k, o in enumerate(r):
            out[i + k * n] = o
    return out


# ------------------------------------------------------------------------------------------------ packing
# Several *independent* programs can share one simulation (own hosts, links, objects, actors, variables: every name gets
# a per-program prefix).  They only share the engine (clock, timer heap, scheduling rounds), which makes more dates
# coincide — and divides the per-process cost, which dominates on a loaded machine.  Which op arguments are names:
OPARGS = {  # op -> namespaces of its arguments (None = literal); names in the same namespace get the same prefix
    "sleep": [None], "sleep_until": [None], "yield": [], "log": [None], "exec": [None],
    "exec_init": ["v", None], "exec_async": ["v", None],
    "comm_put_init": ["v", "n", None], "comm_put_async": ["v", "n", None], "comm_get_init": ["v", "n"],
    "comm_get_async": ["v", "n"], "mess_put_init": ["v", "n"], "mess_put_async": ["v", "n"], "mess_get_init": ["v", "n"],
    "mess_get_async": ["v", "n"], "io_init": ["v", None, None, None], "io_async": ["v", None, None, None],
    "put": ["n", None], "put_for": ["n", None, None], "dput": ["n", None], "get": ["n"], "get_for": ["n", None],
    "mess_put": ["n"], "mess_put_for": ["n", None], "mess_get": ["n"], "mess_get_for": ["n", None], "io": [None, None, None],
    "start": ["v"], "wait": ["v"], "wait_for": ["v", None], "wait_for_or_cancel": ["v", None], "wait_until": ["v", None],
    "test": ["v"], "cancel": ["v"], "suspend_act": ["v"], "resume_act": ["v"], "state": ["v"], "times": ["v"],
    "remaining": ["v"], "set_push": ["v", "v"], "set_erase": ["v", "v"], "set_size": ["v"], "wait_any": ["v"],
    "wait_any_for": ["v", None], "wait_all": ["v"], "wait_all_for": ["v", None], "test_any": ["v"],
    "lock": ["n"], "trylock": ["n"], "unlock": ["n"], "acquire": ["n"], "acquire_timeout": ["n", None], "release": ["n"],
    "sem_capacity": ["n"], "cv_wait": ["n", "n"], "cv_wait_for": ["n", "n", None], "cv_notify_one": ["n"],
    "cv_notify_all": ["n"], "barrier": ["n"],
    "create": ["n"], "kill": ["n"], "kill_all": [], "join": ["n"], "join_for": ["n", None], "daemonize": [],
    "set_kill_time": ["n", None], "suspend": ["n"], "resume": ["n"], "is_suspended": ["n"], "on_exit": [None], "exit": [],
    "restart": ["n"], "set_auto_restart": [], "host_off": ["n"], "host_on": ["n"], "timer": [None], "timer_in": [None],
    "kill_in": [None],
}
PACK_UNSAFE = {"kill_all"}      # ops with an effect outside their own program


def packable(prog):
    return not prog.get("timers") and all(op[0] not in PACK_UNSAFE for a in prog["actors"] for op in a.get("ops", []))


def pack(progs):
    """merge independent programs into one; program i's names are prefixed with 'k<i>.'"""
    out = {"hosts": [], "links": [], "routes": [], "objects": {}, "actors": []}
    for i, p in enumerate(progs):
        px = "k%d." % i
        for k in p:
            if k not in ("hosts", "links", "routes", "objects", "actors"):
                raise ValueError("cannot pack a program with key " + k)
        for h in p.get("hosts", []):
            out["hosts"].append(dict(h, name=px + h["name"]))
        for l in p.get("links", []):
            out["links"].append(dict(l, name=px + l["name"]))
        for (a, b, ls) in p.get("routes", []):
            out["routes"].append([px + a, px + b, [px + l for l in ls]])
        for n, o in p.get("objects", {}).items():
            out["objects"][px + n] = o
        for a in p["actors"]:
            ops = []
            for op in a.get("ops", []):
                spec = OPARGS[op[0]]
                ops.append([op[0]] + [(px + x if (k < len(spec) and spec[k] and x != "self") else x)
                                      for k, x in enumerate(op[1:])])
            out["actors"].append(dict(a, name=px + a["name"], host=px + a["host"], ops=ops))
    return out


def unpack(obs, n):
    """observation of a packed run -> n observations (values that are variable names lose their prefix)"""
    outs = [{"status": obs["status"], "actors": {}, "sig": [], "end": obs["end"], "raw": "", "crash": obs.get("crash", "")}
            for _ in range(n)]
    for (e, v, c) in obs["sig"]:         # records tagged with an actor name go to that program only, the rest to all
        px = v.partition(".")[0]
        if v.startswith("k") and px[1:].isdigit() and "." in v:
            outs[int(px[1:])]["sig"].append((e, v[len(px) + 1:], c))
        else:
            for o in outs:
                o["sig"].append((e, v, c))
    for name, incs in obs["actors"].items():
        px, _, rest = name.partition(".")
        i = int(px[1:])
        pre = px + "."
        outs[i]["actors"][rest] = [[(e, v[len(pre):] if v.startswith(pre) else v, c) for (e, v, c) in log] for log in incs]
    return outs


def _eval_shard_packed(a):
    import importlib
    binary, d, idx, cases, modname, argv, wrapper, timeout, K = a
    mod = importlib.import_module(modname)
    progs = [mod.build_prog(c) for c in cases]
    groups, cur = [], []
    pack_safe = getattr(mod, "pack_safe", None)
    for i, p in enumerate(progs):
        if packable(p) and (pack_safe is None or pack_safe(cases[i], p)):
            cur.append(i)
            if len(cur) == K:
                groups.append(cur)
                cur = []
        else:
            groups.append([i])
    if cur:
        groups.append(cur)
    obs = [None] * len(progs)
    alone = set()
    empty = {"status": 98, "actors": {}, "sig": [], "end": None, "raw": "", "crash": ""}
    todo, rnd = groups, 0
    groups = []
    while todo:       # a crash takes a whole pack down: bisect the pack until the culprits run alone
        lines = [json.dumps(pack([progs[i] for i in g]) if len(g) > 1 else progs[g[0]], separators=(",", ":")) for g in todo]
        outs = _run_shard((binary, d, idx + 1000 * rnd, lines, argv, wrapper, timeout))
        nxt = []
        for g, o in zip(todo, outs):
            ob = parse_output(o[0], o[1]) if o is not None else dict(empty)
            if len(g) == 1:
                obs[g[0]] = ob
                groups.append(g)
                if rnd:
                    alone.add(g[0])
            elif ob["status"] != 0:
                nxt += [g[:len(g) // 2], g[len(g) // 2:]]
            else:
                groups.append(g)
                for i, u in zip(g, unpack(ob, len(g))):
                    obs[i] = u
        todo, rnd = nxt, rnd + 1
    redo = alone
    res = []
    for g in groups:
        for i in g:
            r = mod.judge(cases[i], progs[i], obs[i])
            if isinstance(r, dict):
                r["packed_with"] = [cases[j] for j in g] if len(g) > 1 and i not in redo else None
            res.append((i, r))
    res.sort(key=lambda x: x[0])
    return [r for (_, r) in res]


def eval_cases_packed(binary, cases, modname, K=8, argv=(), wrapper=(), tag="sim", timeout=900, shards=None):
    """like eval_cases but K independent programs share one simulation (see pack)."""
    cases = list(cases)
    if not cases:
        return []
    n = shards or max(1, min(len(cases) // K, common.NCPU * 2))
    d = common.tmpdir(tag)
    m = (len(cases) + n - 1) // n        # contiguous chunks: neighbours in the enumeration share a pack
    chunks = [(binary, d, i, cases[i * m:(i + 1) * m], modname, tuple(argv), tuple(wrapper), timeout, K) for i in range(n)]
    res = common.pmap(_eval_shard_packed, chunks, workers=min(n, common.NCPU))
    return [o for r in res for o in r]


def judge_alone(binary, mod, case, argv=()):
    prog = mod.build_prog(case)
    return mod.judge(case, prog, run_one(binary, prog, argv=argv))


def judge_in_pack(binary, mod, case, pack_cases, argv=()):
    progs = [mod.build_prog(c) for c in pack_cases]
    i = pack_cases.index(case)
    ob = run_one(binary, pack(progs), argv=argv)
    if ob["status"] != 0:
        return mod.judge(case, progs[i], ob)
    return mod.judge(case, progs[i], unpack(ob, len(progs))[i])


def confirm(binary, mod, result, sig, argv=()):
    """Re-run a failing case twice, alone (own exec); if it only fails in the company it was packed with, re-run that
    pack twice.  sig(result) -> hashable summary that must be identical.  Returns ("alone"|"pack", result) or None when
    the failure does not reproduce identically (= harness bug, exit 2)."""
    case = result["case"]
    a = [judge_alone(binary, mod, case, argv) for _ in range(2)]
    if all(not r["ok"] for r in a) and sig(a[0]) == sig(a[1]):
        return "alone", a[0]
    if result.get("packed_with") and all(r["ok"] for r in a):
        p = [judge_in_pack(binary, mod, case, result["packed_with"], argv) for _ in range(2)]
        if all(not r["ok"] for r in p) and sig(p[0]) == sig(p[1]):
            p[0]["packed_with"] = result["packed_with"]
            return "pack", p[0]
    return None


def _job(a):
    binary, prog, argv, wrapper, timeout = a
    return run_one(binary, prog, argv=argv, wrapper=wrapper, raw=True, timeout=timeout)


def run_jobs(binary, jobs, timeout=900):
    """jobs: list of (program, argv, wrapper); each runs in its own exec'd process, all cores busy; -> [(text, status)]"""
    return common.pmap(_job, [(binary, p, tuple(a), tuple(w), timeout) for (p, a, w) in jobs])
