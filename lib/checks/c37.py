"""C37 — trace replay reproduces the online simulated time (engine E7 mpix, harness/mpix/c37/prog.c).

Exhaustive bounded enumeration of well-formed MPI programs, bound by bound (number of steps 1, 2, 3). A step is either one
message src->dst (sender Send | Isend+Wait | Isend with the Wait deferred to the end of the program; receiver Recv |
Irecv+Wait | Irecv deferred; 1 kB eager or 100 kB rendezvous) or one collective called by every rank (barrier, bcast,
reduce, allreduce, alltoall, gather, scatter, allgather, reducescatter, scan, exscan, ring sendrecv, gatherv, scatterv,
allgatherv, alltoallv; roots first/last; two sizes). Programs are deadlock free by construction (a blocking call of step i
only needs the peers to reach step i; every send has its receive in the same step; collectives are called by all).
Each list of programs is executed once online with `smpirun -trace-ti` (computation not simulated, smpi/wtime:0), every
rank printing its date at the end of each program, then the time-independent trace is replayed with `smpirun -replay`
and the dates of the same points are read from the replayer's own action log.
Oracle (differential by the statement itself): per rank and per program, the time between the previous separator and the end
of the program, and the time in the separator, are the same online and in the replay within 2e-9 s (9 decimals printed)."""
import os, sys, re, json, time, itertools, subprocess, shutil, concurrent.futures as cf
import common, mpix

TOL = 2e-9
SMALL, LARGE = 1000, 100000
COLL_ROOTED = ["bcast", "reduce", "gather", "scatter", "gatherv", "scatterv"]
COLL_FLAT = ["allreduce", "alltoall", "allgather", "reducescatter", "scan", "exscan", "sendrecv", "allgatherv", "alltoallv"]
V_KINDS = ["gatherv", "scatterv", "allgatherv", "alltoallv"]
NPS = {"quick": [2, 3, 4], "thorough": [2, 3, 4, 8]}
PLATFORM = ('<?xml version="1.0"?>\n<!DOCTYPE platform SYSTEM "https://simgrid.org/simgrid.dtd">\n<platform version="4.1">\n'
            '<cluster id="c" prefix="n" suffix="" radical="0-7" speed="1Gf" bw="10MBps" lat="1ms" bb_bw="100MBps" bb_lat="1ms"/>\n'
            '</platform>\n')
ONLINE_CFG = ["--cfg=smpi/simulate-computation:no", "--cfg=smpi/host-speed:1Gf", "--cfg=smpi/wtime:0"]


# ------------------------------------------------------------------------------------------------ alphabets
def alphabet(np_, level):
    """level 'full': every step; 'red': p2p pairs (0,1),(1,0),(last,0), collectives with root 0 and the small size;
    'tiny': p2p (0,1),(1,0) large only, collectives root 0 small. tiny <= red <= full."""
    assert level in ("full", "red", "tiny")
    last = np_ - 1
    if level == "full":
        ranks = sorted({0, 1, last})
        pairs = [(s, d) for s in ranks for d in ranks if s != d]
        sizes, roots, csizes = [SMALL, LARGE], sorted({0, last}), [SMALL, LARGE]
    elif level == "red":
        pairs = [(0, 1), (1, 0)] + ([(last, 0)] if last > 1 else [])
        sizes, roots, csizes = [SMALL, LARGE], [0], [SMALL]
    else:
        pairs, sizes, roots, csizes = [(0, 1), (1, 0)], [LARGE], [0], [SMALL]
    steps = []
    for (s, d) in pairs:
        for b in sizes:
            for sm in "SID":
                for rm in "RJE":
                    steps.append("p%d,%d,%d,%s,%s" % (s, d, b, sm, rm))
    steps.append("cbarrier,0,0")
    for k in COLL_ROOTED:
        for r in roots:
            for b in ([SMALL] if k in V_KINDS else csizes):
                steps.append("c%s,%d,%d" % (k, r, b))
    for k in COLL_FLAT:
        for b in ([SMALL] if k in V_KINDS else csizes):
            steps.append("c%s,0,%d" % (k, b))
    return steps


BOUNDS = {   # (depth, alphabet level, level already covered at this depth by an earlier bound or None)
    "quick": [(1, "full", None), (2, "red", None)],
    "thorough": [(1, "full", None), (2, "red", None), (3, "tiny", None), (2, "full", "red"), (3, "red", "tiny")],
}


def programs(np_, depth, level, exclude=None):
    a = alphabet(np_, level)
    smaller = set(alphabet(np_, exclude)) if exclude else None
    out = []
    for t in itertools.product(a, repeat=depth):
        if smaller is not None and all(x in smaller for x in t):
            continue       # already run by the earlier bound (depth, exclude)
        out.append(" ".join(t))
    return out


# ------------------------------------------------------------------------------------------------ running
def _smpirun(tmp, np_, opts, tail, timeout):
    cmd = [os.path.join(mpix.SMPIBIN, "smpirun"), "-np", str(np_), "-platform", os.path.join(tmp, "plat.xml"),
           "-hostfile", os.path.join(tmp, "hosts.txt")] + opts + ["--log=root.thres:error"] + tail
    e = dict(os.environ)
    e["TMPDIR"] = tmp
    try:
        r = subprocess.run(cmd, stdout=subprocess.PIPE, stderr=subprocess.PIPE, text=True, timeout=timeout, env=e, errors="replace")
        return r.returncode, r.stdout, r.stderr
    except subprocess.TimeoutExpired as ex:
        return 124, "", "timeout after %ss" % timeout


LOGLINE = re.compile(r"^\[(\d+):([0-9.]+)\] (\d+) (\S+)")


def run_pair(tmp, binary, path, np_, lo, hi, tag, timeout=600):
    """Online run with TI tracing, then replay. Returns (online {(idx, rank): (t_before_sep, t_after_sep)},
    replay {rank: [(action, end_date)...]}, error string or None)."""
    trace = os.path.join(tmp, "tr-%s" % tag)
    rc, out, err = _smpirun(tmp, np_, ["-trace-ti", "-trace-file", trace] + ONLINE_CFG, [binary, path, str(lo), str(hi)], timeout)
    online = {}
    for t, d in mpix.records(out):
        if t in ("T", "U"):
            k = (int(d["idx"]), int(d["rank"]))
            cur = online.get(k, [None, None])
            cur[0 if t == "T" else 1] = float(d["t"])
            online[k] = cur
    if rc != 0 or len(online) != (hi - lo) * np_:
        return online, None, "online run failed: rc=%s %s" % (rc, err[-400:])
    rc2, out2, err2 = _smpirun(tmp, np_, ["-replay", trace, "--log=smpi_replay.thres:verbose", "--log=root.fmt:[%a:%.9r]%e%m%n"]
                               + ONLINE_CFG[:2], [], timeout)
    shutil.rmtree(trace + "_files", ignore_errors=True)
    if os.path.exists(trace):
        os.unlink(trace)
    actions = {r: [] for r in range(np_)}
    for line in (out2 + "\n" + err2).splitlines():
        m = LOGLINE.match(line)
        if m and int(m.group(1)) == int(m.group(3)) and int(m.group(1)) < np_:
            actions[int(m.group(1))].append((m.group(4), float(m.group(2))))
    if rc2 != 0:
        return online, actions, "replay failed: rc=%s %s" % (rc2, (err2 or out2)[-400:])
    return online, actions, None


def replay_dates(actions, progs, lo, hi, np_):
    """Dates of each rank at the end of each program (before / after the separator barrier), from the replayer's log.
    The separator is the (number of barrier steps of the program + 1)-th barrier action of the rank in this program."""
    res = {}
    for r in range(np_):
        acts = actions[r]
        pos, last_end = 0, 0.0
        for idx in range(lo, hi):
            need = progs[idx].count("cbarrier") + 1
            seen = 0
            before = last_end
            while pos < len(acts):
                name, end = acts[pos]
                pos += 1
                if name == "barrier":
                    seen += 1
                    if seen == need:
                        res[(idx, r)] = (before, end)
                        last_end = end
                        break
                before = end
            else:
                return res, "rank %d: the replay log ends before the separator of program %d" % (r, idx)
    return res, None


def compare(online, rep, progs, lo, hi, np_):
    """Per rank and program: time spent in the program (since the end of the previous separator barrier) and in the
    separator. Durations rather than dates, so that one diverging program does not flag all the programs that follow it."""
    bad = []
    for idx in range(lo, hi):
        for r in range(np_):
            o, p = online[(idx, r)], rep.get((idx, r))
            if p is None:
                bad.append((idx, r, "missing", o[0], None))
                continue
            o0 = online[(idx - 1, r)][1] if idx > lo else 0.0
            p0 = rep[(idx - 1, r)][1] if idx > lo else 0.0
            if abs((o[0] - o0) - (p[0] - p0)) > TOL:
                bad.append((idx, r, "end-of-program", o[0] - o0, p[0] - p0))
            elif abs((o[1] - o[0]) - (p[1] - p[0])) > TOL:
                bad.append((idx, r, "after-separator-barrier", o[1] - o[0], p[1] - p[0]))
    return bad


def _job(job):
    tmp, binary, path, progs, np_, lo, hi, tag, kill_at = job
    left = kill_at - time.time()
    if left <= 1:
        return {"complete": False, "bad": [], "err": None, "lo": lo, "hi": hi}
    online, actions, err = run_pair(tmp, binary, path, np_, lo, hi, tag, timeout=left)
    if err and "timeout" in err:
        return {"complete": False, "bad": [], "err": None, "lo": lo, "hi": hi}
    if err:
        return {"complete": True, "bad": [], "err": err, "lo": lo, "hi": hi}
    rep, perr = replay_dates(actions, progs, lo, hi, np_)
    if perr:
        return {"complete": True, "bad": [], "err": perr, "lo": lo, "hi": hi}
    skewed = 0   # programs in which the ranks do not all spend the same time: who does what matters for the dates
    for idx in range(lo, hi):
        ds = [online[(idx, r)][0] - (online[(idx - 1, r)][1] if idx > lo else 0.0) for r in range(np_)]
        if max(ds) - min(ds) > 1e-6:
            skewed += 1
    return {"complete": True, "bad": compare(online, rep, progs, lo, hi, np_), "err": None, "lo": lo, "hi": hi, "skewed": skewed}


def _kind_of(prog, what):
    """Group of a divergence: the multiset of step kinds of the program (p2p: modes and protocol; collective: name)."""
    ks = []
    for s in prog.split():
        if s[0] == "p":
            f = s[1:].split(",")
            ks.append("p2p-%s%s-%s" % (f[3], f[4], "eager" if int(f[2]) < 65536 else "rdv"))
        else:
            ks.append(s[1:].split(",")[0])
    return "+".join(sorted(set(ks)))


def ambiguous_wait(prog):
    """True when some rank waits for a request that is not the oldest of its outstanding requests with the same
    (src, dst, tag) - all p2p steps use one tag. The TI trace names a request only by (src, dst, tag) ('wait 0 1 1') and the
    replayer serves such waits in FIFO order, so these are the programs in which it may wait for another request than the
    application did. (Classification of a divergence only; the dates are still compared.)"""
    out = {}        # rank -> list of (key, serial) outstanding, in issue order
    deferred = {}   # rank -> list of (key, serial) to wait at the end, in issue order
    serial = 0
    amb = False

    def wait(rank, key, ser):
        nonlocal amb
        lst = out.setdefault(rank, [])
        same = [x for x in lst if x[0] == key]
        if same and same[0][1] != ser:
            amb = True
        lst.remove((key, ser))

    for st in prog.split():
        if st[0] != "p":
            continue
        f = st[1:].split(",")
        s_, d_, sm, rm = int(f[0]), int(f[1]), f[3], f[4]
        key = (s_, d_)
        for rank, mode, now, later in ((s_, sm, "I", "D"), (d_, rm, "J", "E")):
            if mode in (now, later):
                serial += 1
                out.setdefault(rank, []).append((key, serial))
                if mode == now:
                    wait(rank, key, serial)
                else:
                    deferred.setdefault(rank, []).append((key, serial))
    for rank, lst in deferred.items():
        for key, ser in lst:
            wait(rank, key, ser)
    return amb


AMBIG = "wait-on-ambiguous-request"


def setup(tmp):
    open(os.path.join(tmp, "plat.xml"), "w").write(PLATFORM)
    open(os.path.join(tmp, "hosts.txt"), "w").write("".join("n%d\n" % i for i in range(8)))


def run(ctx):
    binary = mpix.build_smpi("c37_prog", ["c37/prog.c"])
    tmp = common.tmpdir("c37")
    setup(tmp)
    nps = NPS[ctx.tier]
    groups, done, skipped, per_bound, samples, explained = {}, [], [], [], [], {}
    tot = dict(programs=0, dates=0, nontrivial=0)
    exhaustive = True
    rates = {}         # np -> wall seconds per program, refined as the run goes
    try:
        for bound_index, (depth, level, excl) in enumerate(BOUNDS[ctx.tier]):
            for np_ in nps:
                progs = programs(np_, depth, level, excl)
                n = len(progs)
                bid = "steps=%d alphabet=%s%s np=%d" % (depth, level, "-minus-" + excl if excl else "", np_)
                predicted = 3 + rates.get(np_, 0.0008 * max(1, np_ / 3)) * n
                if ctx.deadline.over() or predicted > ctx.deadline.left():
                    exhaustive = False
                    skipped.append(bid)
                    common.log("C37: bound %s (%d programs) not started (%.0fs left, needs ~%.0fs)" % (bid, n, ctx.deadline.left(), predicted))
                    continue
                path = os.path.join(tmp, "progs-%d-%s-%d.txt" % (depth, level, np_))
                open(path, "w").write("".join(p + "\n" for p in progs))
                chunk = max(50, min(1500, n // (2 * common.NCPU) + 1))
                kill_at = time.time() + max(20, ctx.deadline.left() + 15)
                jobs = [(tmp, binary, path, progs, np_, lo, min(n, lo + chunk), "%d-%s-%d-%d" % (depth, level, np_, lo), kill_at)
                        for lo in range(0, n, chunk)]
                if ctx.seed:
                    import random
                    random.Random(ctx.seed).shuffle(jobs)
                t0 = time.time()
                with cf.ThreadPoolExecutor(max_workers=common.NCPU) as ex:
                    res = list(ex.map(_job, jobs))
                if not all(r["complete"] for r in res):
                    exhaustive = False
                    skipped.append(bid + " (started, not completed: discarded)")
                    common.log("C37: bound %s not completed before the deadline: discarded" % bid)
                    continue
                nbad = 0
                tot["nontrivial"] += sum(r.get("skewed", 0) for r in res)
                for r in res:
                    if r["err"]:
                        # a run that dies is located by bisection below: treat the whole chunk as one failing case
                        g = groups.setdefault("run-failed np=%d" % np_, {"count": 0, "first": None})
                        g["count"] += 1
                        order = (depth, bound_index, np_, r["lo"])
                        if g["first"] is None or order < g["first"][0]:
                            g["first"] = (order, {"depth": depth, "level": level, "excl": excl, "np": np_, "lo": r["lo"], "hi": r["hi"], "idx": r["lo"],
                                                  "prog": progs[r["lo"]], "what": "run-failed", "rank": -1, "err": r["err"]})
                        continue
                    firsts = {}
                    for (idx, rk, what, o, p) in r["bad"]:
                        firsts.setdefault(idx, (idx, rk, what, o, p))
                    nbad += len(firsts)
                    for idx, (i_, rk, what, o, p) in sorted(firsts.items()):
                        kind = AMBIG if ambiguous_wait(progs[idx]) else _kind_of(progs[idx], what)
                        g = groups.setdefault(kind, {"count": 0, "first": None})
                        g["count"] += 1
                        order = (depth, bound_index, np_, idx)
                        if g["first"] is None or order < g["first"][0]:
                            g["first"] = (order, {"depth": depth, "level": level, "excl": excl, "np": np_, "lo": r["lo"], "hi": r["hi"], "idx": idx,
                                                  "prog": progs[idx], "what": what, "rank": rk, "online": o, "replay": p})
                # non-trivial: programs whose ranks do not all finish at the same date (timing really depends on the calls)
                b = dict(bound=bid, programs=n, diverging_programs=nbad, wall_s=round(time.time() - t0, 1),
                         programs_with_ambiguous_waits=sum(1 for p_ in progs if ambiguous_wait(p_)))
                per_bound.append(b)
                tot["programs"] += n
                tot["dates"] += 2 * n * np_
                done.append(bid)
                if n >= 10000:
                    rates[np_] = min(rates.get(np_, 1.0), (time.time() - t0) / n)
                if len(samples) < 10:
                    samples += ["np=%d: %s" % (np_, progs[i]) for i in (0, n // 2, n - 1)][:3]
                common.log("C37: bound %s: %d programs, %d diverging [%.1fs]" % (bid, n, nbad, time.time() - t0))

        # one violation per *minimal* set of step kinds: a program whose kinds include a smaller diverging set is explained by it
        kept = []
        for kind in sorted(groups, key=lambda k: (len(k.split("+")), k)):
            ks = set(kind.split("+"))
            if kind != AMBIG and any(set(k2.split("+")) < ks for k2 in kept if not k2.startswith("run-failed") and k2 != AMBIG):
                explained[kind] = groups[kind]["count"]
                continue
            kept.append(kind)
        violations = []
        for kind in kept:
            g = groups[kind]
            order, case = g["first"]
            np_ = case["np"]
            key = "C37 %s np=%d prog=%s" % (AMBIG if kind == AMBIG else case["what"], np_, case["prog"].replace(" ", ";")) + (" rank=%d" % case["rank"] if case["rank"] >= 0 else "")
            for attempt in (1, 2):
                ok, seen = _rerun(tmp, binary, case)
                if not ok:
                    common.log("C37: divergence %s did not reproduce (attempt %d): harness bug\n%s" % (key, attempt, seen))
                    sys.exit(2)
            if case["what"] == "run-failed":
                what = "online run or replay of programs %d..%d (np=%d) failed: %s" % (case["lo"], case["hi"], np_, case["err"][-300:])
            else:
                what = ("steps {%s}: rank %d spends %.9f s (%s) online but %.9f s in the replay of the TI trace (program '%s', np=%d); %d program(s) of this kind diverge"
                        % (kind, case["rank"], case["online"], case["what"], case["replay"] if case["replay"] is not None else float("nan"), case["prog"], np_, g["count"]))
            violations.append(common.Violation(key, what, case))
    finally:
        mpix.cleanup(tmp)

    nontrivial = tot["nontrivial"]
    if tot["nontrivial"] < 2:
        common.log("C37: vacuous run")
        sys.exit(2)
    coverage = {
        "evaluations": tot["programs"],
        "distinct_nontrivial": nontrivial,
        "rule": "a case = one program (list of <=3 steps) x np, run online with TI tracing and replayed; programs are distinct by "
                "construction (odometer over the step alphabet); non-trivial = programs in which, online, the ranks do not all "
                "spend the same time (measured, > 1 us apart): the dates depend on who sends/roots what, so a replay that gets a "
                "partner, root, size or request wrong moves them; every program contains a communication of > 1 ms",
        "samples": samples,
        "exhaustive": exhaustive,
        "bounds_completed": done,
        "bounds_not_completed": skipped,
        "per_bound": per_bound,
        "dates_compared": tot["dates"],
        "tolerance_s": TOL,
        "divergence_groups": {k: v["count"] for k, v in sorted(groups.items())},
        "divergence_groups_explained_by_a_smaller_one": explained,
    }
    assumptions = [
        "online run: smpi/simulate-computation:no, smpi/wtime:0 (MPI_Wtime would otherwise inject 10 ns per call that the trace cannot contain), same platform/hostfile/host-speed for both runs",
        "replay dates are read from the replayer's own verbose action log (end date of the last action of the program, end date of the separator barrier), online dates from MPI_Wtime; both printed with 9 decimals",
        "programs of a chunk run back to back separated by a barrier; what is compared per rank is the time spent in each program since the previous separator and the time spent in the separator; one violation per minimal set of step kinds, confirmed by running its first program alone (or, failing that, with the same prefix)",
        "p2p steps only involve ranks 0, 1 and np-1; roots are the first and last rank; two message sizes (eager 1 kB, rendezvous 100 kB)",
    ]
    common.finish(ctx, "exploration", coverage, assumptions, violations, engine="mpix")


def _rerun(tmp, binary, case):
    """Alone first; if the divergence needs what ran before, the prefix of its chunk."""
    path = os.path.join(tmp, "one-%d.txt" % os.getpid())
    np_ = case["np"]
    if case["what"] == "run-failed":
        progs = programs(np_, case["depth"], case["level"], case.get("excl"))
        open(path, "w").write("".join(p + "\n" for p in progs))
        online, actions, err = run_pair(tmp, binary, path, np_, case["lo"], case["hi"], "re")
        if err is None:
            rep, err = replay_dates(actions, progs, case["lo"], case["hi"], np_)
        return err is not None, str(err)
    open(path, "w").write(case["prog"] + "\n")
    online, actions, err = run_pair(tmp, binary, path, np_, 0, 1, "re")
    if err:
        return False, err
    rep, perr = replay_dates(actions, [case["prog"]], 0, 1, np_)
    bad = compare(online, rep, [case["prog"]], 0, 1, np_) if not perr else []
    seen = "alone: online=%s replay=%s" % (sorted(online.items()), sorted(rep.items()))
    if any(b[1] == case["rank"] and b[2] == case["what"] for b in bad):
        return True, seen
    progs = programs(np_, case["depth"], case["level"], case.get("excl"))
    open(path, "w").write("".join(p + "\n" for p in progs))
    online, actions, err = run_pair(tmp, binary, path, np_, case["lo"], case["idx"] + 1, "re")
    if err:
        return False, seen + "\nprefix: " + err
    rep, perr = replay_dates(actions, progs, case["lo"], case["idx"] + 1, np_)
    bad = compare(online, rep, progs, case["lo"], case["idx"] + 1, np_) if not perr else []
    seen += "\nwith the prefix %d..%d: %s" % (case["lo"], case["idx"], bad[:4])
    return any(b[0] == case["idx"] and b[1] == case["rank"] and b[2] == case["what"] for b in bad), seen


def replay(ctx, case):
    binary = mpix.build_smpi("c37_prog", ["c37/prog.c"])
    tmp = common.tmpdir("c37r")
    try:
        setup(tmp)
        c = case["case"]
        ok, seen = _rerun(tmp, binary, c)
        print("C37 replay: np=%d program '%s'" % (c["np"], c["prog"]))
        print(seen)
        print("C37 replay: recorded divergence %s" % ("reproduced" if ok else "NOT reproduced"))
        return 1 if ok else 0
    finally:
        mpix.cleanup(tmp)
