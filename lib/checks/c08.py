"""C08 Mailbox communications are exactly-once, FIFO and intact — every interleaving of every small program (blocking,
asynchronous, detached sends; wait/test/wait_any/test_any; match filters; permanent receiver) on the real kernel vs rs."""
import itertools
import common, vxlib, synccheck

# macro-ops keep programs short: each expands to one or more interpreter ops; {k} = a fresh slot of the actor, {v} = a unique payload
MACROS = {
    "put":   lambda b: [("put", b, "v")],
    "get":   lambda b: [("get", b)],
    "PA":    lambda b: [("puta", b, "v", "k"), ("wait", "k")],
    "GA":    lambda b: [("geta", b, "k"), ("wait", "k")],
    "GT":    lambda b: [("geta", b, "k"), ("test", "k"), ("wait", "k")],
    "PT":    lambda b: [("puta", b, "v", "k"), ("test", "k"), ("wait", "k")],
    "det":   lambda b: [("detach", b, "v")],
    "P2any": lambda b: [("puta", b, "v", "k"), ("puta", b, "v", "k2"), ("waitany",), ("waitany",)],
    "G2any": lambda b: [("geta", b, "k"), ("geta", b, "k2"), ("waitany",), ("waitany",)],
    "G2tany": lambda b: [("geta", b, "k"), ("geta", b, "k2"), ("testany",), ("waitany",), ("waitany",)],
    "s1":    lambda b: [("sendf", b, "v", 1)],
    "s2":    lambda b: [("sendf", b, "v", 2)],
    "r1":    lambda b: [("recvf", b, 1)],
    "r2":    lambda b: [("recvf", b, 2)],
    "setr":  lambda b: [("setrecv", b)],
    "PAnw":  lambda b: [("puta", b, "v", "k")],            # asynchronous send never waited for (actor may end first)
    "GAnw":  lambda b: [("geta", b, "k")],
}
SENDS = {"put", "PA", "PT", "det", "P2any", "s1", "s2", "PAnw"}
RECVS = {"get", "GA", "GT", "G2any", "G2tany", "r1", "r2", "GAnw"}

def expand(actors):
    out = []
    for ai, seq in enumerate(actors):
        ops, slot, n = [], 0, 0
        for name, b in seq:
            k, k2 = slot % 4, (slot + 1) % 4
            used = set()
            for op in MACROS[name](b):
                o = []
                for x in op:
                    if x == "v":
                        n += 1
                        x = (ai + 1) * 10 + n
                    elif x == "k":
                        x = k; used.add("k")
                    elif x == "k2":
                        x = k2; used.add("k2")
                    o.append(x)
                ops.append(tuple(o))
            slot += len(used)
        out.append(ops)
    return out

def gen(names, nbox, nact, maxops, minops=1, first=None, max_slots=4):
    alpha = [(n, b) for b in range(nbox) for n in names]
    seqs = [s for k in range(minops, maxops + 1) for s in itertools.product(alpha, repeat=k)]
    def g():
        for combo in itertools.combinations_with_replacement(seqs, nact):
            actors = [list(c) for c in combo]
            if not any(n in SENDS for a in actors for n, b in a) or not any(n in RECVS for a in actors for n, b in a):
                continue
            if not vxlib.touches(actors, lambda op: op[1]):
                continue
            if first:  # e.g. the last actor declares itself permanent receiver first
                actors = actors[:-1] + [[first] + actors[-1]]
            ex = expand(actors)
            if any(sum(1 for op in a if op[0] in ("puta", "geta")) > max_slots for a in ex):
                continue
            yield dict(mbox=nbox, actors=ex)
    return g

def gen_deep_filter(tagsets, wantsets):
    """several senders each blocked on one filtered send (>=4 pending comms), one receiver draining with filtered receives:
    a filter that skips the head of a long queue, then takes from its middle"""
    def g():
        for tags in tagsets:
            for wants in wantsets:
                actors = [[("sendf", 0, (i + 1) * 10 + 1, t)] for i, t in enumerate(tags)] + [[("recvf", 0, w) for w in wants]]
                yield dict(mbox=1, actors=actors)
    return g

def bounds(ctx):
    basic = ("put", "get", "PA", "GA", "GT", "det")
    b = [("basic-A2K2", gen(basic, 1, 2, 2)),
         ("filter-A2K2", gen(("s1", "s2", "r1", "r2", "put", "get"), 1, 2, 2)),
         ("perm-A2K2", gen(("put", "get", "PA", "GA", "det"), 1, 2, 2, first=("setr", 0))),
         ("any-A2K2", gen(("P2any", "G2any", "G2tany", "put", "get"), 1, 2, 2)),
         ("basic-A3K1", gen(basic + ("PT",), 1, 3, 1)),
         ("twobox-A2K2", gen(("put", "get"), 2, 2, 2)),
         ("deep-filter", gen_deep_filter([(1, 2, 2, 2), (2, 1, 2, 2)], list(itertools.product((1, 2), repeat=3))))]
    if not ctx.quick:
        b += [("basic-A3K2", gen(("put", "get", "PA", "GA", "det"), 1, 3, 2, 2)),
              ("filter-A3K2", gen(("s1", "s2", "r1", "r2"), 1, 3, 2, 2)),
              ("perm-A3K2", gen(("put", "get", "det"), 1, 3, 2, 2, first=("setr", 0))),
              ("basic-A2K3", gen(("put", "get", "PA", "GT", "det"), 1, 2, 3, 3)),
              ("any-A3K1", gen(("P2any", "G2any", "G2tany", "put", "get", "det"), 1, 3, 1)),
              ("twobox-A3K2", gen(("put", "get"), 2, 3, 2, 2)),
              ("basic-A4K1", gen(basic, 1, 4, 1)),
              ("deep-filter-all", gen_deep_filter(list(itertools.product((1, 2), repeat=4)), list(itertools.product((1, 2), repeat=3))))]
    return b

def run(ctx):
    synccheck.run_bounds(ctx, bounds(ctx), "mailboxes",
        ["MC-mode code paths (put = COMM_ASYNC_SEND + COMM_WAIT …): no network model, so sizes and rates do not matter here; "
         "timed variants (sizes, rates, two hosts) belong to the timed engine",
         "payloads are unique per send so exactly-once / FIFO are visible in the receivers' logs and in the mailbox queues",
         "Mailbox::iprobe needs an SMPI request and is not reachable from S4U programs: not in the alphabet",
         "every asynchronous operation is eventually waited for by its actor (what happens to the pending communications of an actor that ends "
         "without waiting is not part of the property: in MC mode they stay in the mailbox, in normal mode they are cancelled)",
         "reference semantics lib/rs.py: oldest accepted pending send wins; permanent receiver = eager queue"])

replay = synccheck.replay
