"""C49 — Parmap applies the function to every element exactly once per apply (engine E8 "parmapx").

The real template simgrid::xbt::Parmap<int> (/repo/src/xbt/parmap.hpp, current working tree, compiled into the harness with
its synchronisation vocabulary re-pointed by macros to scheduler-aware shims) is run under a cooperative scheduler that owns
every interleaving decision.  For each configuration (mode x workers x vector sizes x two applies then destruction) all
schedules with at most b preemptions are enumerated by a stateless DFS, b = 0,1,2,...; a bound is completed or not started.
Oracle per execution (harness/parmapx/parmapx.cpp, independent of Parmap): the function of apply r ran exactly once on every
element of vector r and on nothing else when apply r returns, apply returns (no deadlock / livelock), the destructor joins
every worker.

Side passes, all of them hard errors (exit 2) when they disagree because they guard the explorer itself, never the property:
  * the same exploration at a low bound WITHOUT state-hash pruning must reach exactly the same set of final observations;
  * the same exploration at bound 1 with REAL std::threads (futex hand-off) instead of fibers must reach the same set;
  * sampled schedules are replayed in fresh processes with real threads and must give the recorded observation.
And one more detector for the property: a free-running ThreadSanitizer build of the same bodies on the unmodified header
(unsynchronised accesses to worker_fun / common_data / destroying / the element counters).
"""
import os, sys, json, re, time, shutil, subprocess, concurrent.futures as cf
import common

ENGINE = "E8 parmapx"
MODES = ["futex", "posix", "busy_wait"]
APPLIES = 2
HARNESS_VERDICTS = ("HARNESS", "UNMODELLED", "STATEFUL-SPIN", "NONDETERMINISM", "DIVERGED")
TSAN_FLAGS = ["-fsanitize=thread", "-g", "-fno-omit-frame-pointer"]


def build():
    jobs = {"fib": lambda: common.build_harness("parmapx", ["parmapx/parmapx.cpp"], extra=["-DPX_FIBERS", "-O2"]),
            "thr": lambda: common.build_harness("parmapx_thr", ["parmapx/parmapx.cpp"], extra=["-O2"]),
            "tsan": lambda: common.build_harness("parmapx_tsan", ["parmapx/tsan_free.cpp"], extra=TSAN_FLAGS,
                                                 libs=["-fsanitize=thread"])}
    with cf.ThreadPoolExecutor(3) as ex:
        fut = {k: ex.submit(f) for k, f in jobs.items()}
        return {k: f.result() for k, f in fut.items()}


# ------------------------------------------------------------------------------------------------ configurations and batches
def cfg_name(c):
    return "mode=%s workers=%d sizes=%s steal=%d" % (c["mode"], c["workers"], c["sizes"], c["steal"])


def cfg_args(c):
    return [c["mode"], str(c["workers"]), c["sizes"], str(APPLIES), str(c["steal"])]


def configurations():
    """base: the grid of DESIGN.md (same size for both applies); extra: different sizes for the two applies, and the
    SwappedContext usage pattern where the applied function also drains Parmap::next()."""
    base = [dict(mode=m, workers=w, sizes=str(n), steal=0, base=True) for w in (2, 3) for n in (0, 1, 2, 3) for m in MODES]
    extra = [dict(mode=m, workers=w, sizes=s, steal=0, base=False) for w in (2, 3) for s in ("3,1", "1,3", "0,2", "2,0")
             for m in MODES]
    extra += [dict(mode=m, workers=w, sizes=str(n), steal=1, base=False) for w in (2, 3) for n in (2, 3) for m in MODES]
    return base + extra


def shards_for(c, bound):
    """fixed table (never derived from the number of cores: the DFS order, hence the first violation found, must not
    depend on the machine)"""
    if c["workers"] == 2:
        return 1 if bound <= 4 else 4
    if bound <= 1:
        return 1
    if bound == 2:
        return 2 if c["mode"] == "busy_wait" else 1
    if bound == 3:
        return 32 if c["mode"] == "busy_wait" else 16
    return 64


def batches(quick):
    """(label, bounds run one after the other by one process per shard, predicate on configuration, required?) in the
    order they are run.  required = part of what DESIGN.md promises for the tier; the others are run if the time allows."""
    every = lambda c: True
    base = lambda c: c["base"]
    extra = lambda c: not c["base"]
    w2 = lambda c: c["workers"] == 2
    B = [("bounds 0-2, base grid", [0, 1, 2], base, True), ("bounds 0-2, extra configurations", [0, 1, 2], extra, False)]
    if quick:
        return [B[0], ("bounds 0-2, extra configurations, 2 workers", [0, 1, 2], lambda c: w2(c) and extra(c), False),
                ("bounds 0-1, extra configurations, 3 workers", [0, 1], lambda c: not w2(c) and extra(c), False),
                ("bound 3, 2 workers", [3], w2, False),
                ("bound 2, extra configurations, 3 workers", [2], lambda c: not w2(c) and extra(c), False)]
    B += [("bound 3, base grid", [3], base, True), ("bound 4, 2 workers, base grid", [4], lambda c: w2(c) and base(c), True),
          ("bound 3, extra configurations", [3], extra, False), ("bound 4, 2 workers, extra configurations", [4], lambda c: w2(c) and extra(c), False),
          ("bounds 5-6, 2 workers", [5, 6], w2, False),
          ("bound 4, 3 workers, futex+posix, base grid", [4], lambda c: c["workers"] == 3 and base(c) and c["mode"] != "busy_wait", False)]
    return B


# ------------------------------------------------------------------------------------------------ running the explorer
class Runner:
    def __init__(self, ctx, bins, tmp):
        self.ctx, self.bins, self.tmp = ctx, bins, tmp
        import itertools
        self.counter = itertools.count()

    def run_group(self, group):
        """one explorer process runs the tasks of the group one after the other (process start-up costs as much as thousands
        of executions); a task = kwargs c, bounds, shard, nshards [, prune, backend, tag].  Returns one result per (task,
        bound) (fewer after a violation)."""
        out = []
        while group:
            lst = os.path.join(self.tmp, "tasks-%d.txt" % next(self.counter))
            backend = group[0].get("backend", "fib")
            with open(lst, "w") as f:
                for i, t in enumerate(group):
                    c = t["c"]
                    t["obs"] = os.path.join(self.tmp, "%s-%s-%s-%d-%d-%dof%d.obs" % (
                        t.get("tag", "x"), c["mode"], c["sizes"].replace(",", "_"), c["workers"], c["steal"], t["shard"], t["nshards"]))
                    f.write(" ".join([str(i)] + cfg_args(c) + [",".join(map(str, t["bounds"])), str(t["shard"]), str(t["nshards"]),
                                                               "1" if t.get("prune", True) else "0", t["obs"]]) + "\n")
            cmd = [self.bins[backend], "explorelist", lst]
            left = self.ctx.deadline.left()
            r = None
            if left >= 1:
                try:
                    r = subprocess.run(cmd, stdout=subprocess.PIPE, stderr=subprocess.PIPE, text=True, timeout=left)
                except subprocess.TimeoutExpired:
                    pass
            if r is None:
                return out + [dict(timeout=True, cfg=t["c"], bound=t["bounds"][0], shard=t["shard"], nshards=t["nshards"]) for t in group]
            try:
                ds = [json.loads(l) for l in r.stdout.splitlines() if l.strip()]
                last = int(ds[-1]["task"])
                assert "violation" in ds[-1] or (last == len(group) - 1 and ds[-1]["bound"] == group[-1]["bounds"][-1])
            except Exception:
                common.log("C49: explorer gave no result: %s\nexit=%s stdout=%s stderr=%s" % (" ".join(cmd), r.returncode,
                                                                                             r.stdout[-500:], r.stderr[-1500:]))
                print("C49: harness error: explorer crashed outside an execution")
                sys.exit(2)
            for d in ds:
                t = group[int(d["task"])]
                d.update(cfg=t["c"], shard=t["shard"], nshards=t["nshards"], obsfile="%s.b%d" % (t["obs"], d["bound"]), cpu=d["wall"],
                         cmd="%s explore %s" % (cmd[0], " ".join(cfg_args(t["c"]) + [",".join(map(str, t["bounds"])), str(t["shard"]),
                                                                                      str(t["nshards"]), "1", "-"])))
            out += ds
            group = group[last + 1:]  # after a violation the process is gone: the tasks behind it run in a new one
        return out

    def run_tasks(self, tasks):
        """heaviest first on all cores; cheap tasks share a process; flat list of per-bound results"""
        light = [t for t in tasks if t["c"]["workers"] == 2 and max(t["bounds"]) <= (4 if t.get("backend", "fib") == "fib" else 1)]
        heavy = [t for t in tasks if not any(t is l for l in light)]
        per_group = 10 if not light or light[0].get("backend", "fib") == "fib" else 6
        groups = [[t] for t in heavy] + [light[i:i + per_group] for i in range(0, len(light), per_group)]
        with cf.ThreadPoolExecutor(common.NCPU) as ex:
            return [d for ds in ex.map(self.run_group, groups) for d in ds]

    def merged_distinct(self, files):
        """number of distinct 64-bit observation hashes in the files"""
        files = [f for f in files if os.path.exists(f)]
        if not files:
            return 0
        if sum(os.path.getsize(f) for f in files) > (64 << 20):
            r = subprocess.run([self.bins["fib"], "merge"] + files, stdout=subprocess.PIPE, text=True)
            return int(r.stdout.strip() or 0)
        import array
        seen = set()
        for f in files:
            a = array.array("Q")
            with open(f, "rb") as fh:
                a.frombytes(fh.read())
            seen.update(a)
        return len(seen)

    def replay(self, c, schedule, backend, verbose=False):
        cmd = [self.bins[backend], "replay"] + cfg_args(c) + [schedule] + (["-v"] if verbose else [])
        r = subprocess.run(cmd, stdout=subprocess.PIPE, stderr=subprocess.PIPE, text=True, timeout=120)
        return r.stdout


def weight(c, bound):
    return (40 if c["workers"] == 3 else 1) * (3 if c["mode"] == "busy_wait" else 1) * (1 + sum(map(int, c["sizes"].split(","))))


def phase_name(p):
    return {0: "construction", 100: "destruction", 101: "end"}.get(p, "apply%d" % p)


# ------------------------------------------------------------------------------------------------ ThreadSanitizer pass
def tsan_chunk(bins, mode, reps, limit):
    env = dict(os.environ)
    env["TSAN_OPTIONS"] = "exitcode=66 halt_on_error=0 report_signal_unsafe=0 history_size=4"
    cmd = [bins["tsan"], mode, str(reps)]
    try:
        r = subprocess.run(cmd, stdout=subprocess.PIPE, stderr=subprocess.PIPE, text=True, env=env, timeout=limit)
    except subprocess.TimeoutExpired:
        return dict(mode=mode, runs=0, reports=0, summaries=[], wrong="", timeout=True, stderr="")
    if "unexpected memory mapping" in r.stderr:  # ASLR entropy vs this libtsan: retry with randomisation off
        r = subprocess.run(["setarch", "-R"] + cmd, stdout=subprocess.PIPE, stderr=subprocess.PIPE, text=True, env=env, timeout=limit)
    m = re.search(r"RUNS (\d+)", r.stdout)
    summ = sorted(set(re.sub(r"0x[0-9a-f]+", "", s).strip() for s in re.findall(r"SUMMARY: ThreadSanitizer: (.*)", r.stderr)))
    wrong = "".join(l for l in r.stdout.splitlines(True) if l.startswith("WRONGCOUNT"))
    if r.returncode not in (0, 3, 66):
        common.log("C49: tsan harness ended with status %s\n%s" % (r.returncode, r.stderr[-2000:]))
        print("C49: harness error: the ThreadSanitizer pass crashed (status %s)" % r.returncode)
        sys.exit(2)
    return dict(mode=mode, runs=int(m.group(1)) if m else 0, reports=r.stderr.count("WARNING: ThreadSanitizer"),
                summaries=summ, wrong=wrong.strip(), timeout=False, stderr=r.stderr)


def tsan_run(bins, mode, reps, tmp, limit=300):
    """the free-running pass in chunks of 2 repetitions (30 runs), so that an overloaded machine yields a partial result
    instead of none; stops at `reps` repetitions or after `limit` seconds"""
    t0 = time.time()
    acc = dict(mode=mode, runs=0, reports=0, summaries=[], wrong="", timeout=False, stderr="", wanted_runs=reps * 15)
    done = 0
    while done < reps and time.time() - t0 < limit:
        n = min(2, reps - done)
        t = tsan_chunk(bins, mode, n, max(30, min(150, limit - (time.time() - t0))))
        if t["timeout"]:
            acc["timeout"] = True
            break
        done += n
        acc["runs"] += t["runs"]
        acc["reports"] += t["reports"]
        acc["summaries"] = sorted(set(acc["summaries"]) | set(t["summaries"]))
        acc["wrong"] = acc["wrong"] or t["wrong"]
        acc["stderr"] = (acc["stderr"] + t["stderr"])[:20000]
        if t["wrong"]:
            break
    return acc


def tsan_key(t):
    what = "WRONGCOUNT" if t["wrong"] else "data race"
    where = ""
    if t["summaries"] and not t["wrong"]:
        fn = re.findall(r" in (.*)$", t["summaries"][0])
        where = " in " + re.sub(r"\(.*", "", fn[0]).strip() if fn else ""
    return "tsan mode=%s %s%s" % (t["mode"], what, where)


# ------------------------------------------------------------------------------------------------ the check
def run(ctx):
    bins = build()
    # the budget is for exploring: a slow (re)build of /repo must not turn the run into an empty one
    total = ctx.deadline.end - ctx.deadline.t0
    if ctx.deadline.left() < 0.6 * total:
        ctx.deadline = common.Deadline(0.6 * total)
    tmp = common.tmpdir("c49")
    try:
        _run(ctx, bins, tmp)
    finally:
        shutil.rmtree(tmp, ignore_errors=True)


def harness_error(msg):
    print("C49: harness error (not a verdict on the property): " + msg)
    sys.exit(2)


def _run(ctx, bins, tmp):
    R = Runner(ctx, bins, tmp)
    common.log("C49: harnesses built at %.0fs" % (time.time() - ctx.t0))
    cfgs = configurations()
    if ctx.seed:  # the seed may only change the order in which shards are started
        import random
        random.Random(ctx.seed).shuffle(cfgs)
    violations, assumptions = [], []

    # ---- ThreadSanitizer pass, free-running, in the background of the exploration
    tsan_pool = cf.ThreadPoolExecutor(3)
    tsan_reps = 4 if ctx.quick else 16
    tsan_limit = 60 if ctx.quick else 400
    tsan_fut = [tsan_pool.submit(tsan_run, bins, m, tsan_reps, tmp, tsan_limit) for m in MODES]

    # ---- exploration, bound by bound
    per = {}          # cfg name -> bound -> merged statistics
    done_bound = {}   # cfg name -> largest completed bound
    raw_viol = []
    batch_log = []
    all_required_done = True
    history = []      # (cpu seconds, wall seconds) of the completed batches, to predict the next
    total_exec = 0
    samples_pool = []
    for label, bounds, pred, required in batches(ctx.quick):
        bound = bounds[0]
        sel = [c for c in cfgs if pred(c) and done_bound.get(cfg_name(c), -1) == bound - 1
               and not any(v["cfg"] is c for v in raw_viol)]
        if not sel:
            continue
        # will it fit?  cost grows by a measured factor from one bound to the next
        if bound >= 3:
            # predicted executions (measured growth from the two bounds below) / best measured throughput of this run
            e1 = sum(per[cfg_name(c)][bound - 1]["executions"] for c in sel)
            e2 = sum(per[cfg_name(c)][bound - 2]["executions"] for c in sel)
            growth = max(3.0, min(60.0, e1 / max(e2, 1)))
            predicted = sum(e1 * growth ** (i + 1) for i in range(len(bounds)))
            rate = max([h[0] / h[1] for h in history if h[1] > 5] or [max(h[0] / max(h[1], 0.1) for h in history)])
            est = predicted / rate * 1.4 + 5
        else:
            est = 1
        too_late = ctx.quick and not required and time.time() - ctx.t0 > 70  # quick: optional batches only while it is still quick
        if too_late or est > ctx.deadline.left() - (15 if ctx.quick else 60):
            batch_log.append(dict(batch=label, started=False, estimated_wall_s=round(est, 1), left_s=round(ctx.deadline.left(), 1)))
            common.log("C49: %-45s not started: estimated %.0fs, %.0fs left" % (label, est, ctx.deadline.left()))
            if required:
                all_required_done = False
                break
            continue
        tasks = [dict(c=c, bounds=bounds, shard=s, nshards=shards_for(c, bounds[-1])) for c in sel
                 for s in range(shards_for(c, bounds[-1]))]
        tasks.sort(key=lambda t: -weight(t["c"], bound) / t["nshards"])
        t0 = time.time()
        res = R.run_tasks(tasks)
        wall = time.time() - t0
        if any(r.get("timeout") for r in res):
            batch_log.append(dict(batch=label, started=True, completed=False, wall_s=round(wall, 1)))
            if required:
                all_required_done = False
            break
        cpu = sum(r["cpu"] for r in res)
        execs = sum(r["executions"] for r in res)
        history.append((execs, wall))
        for c, bound in [(c, b) for b in bounds for c in sel]:
            mine = [r for r in res if r["cfg"] is c and r["bound"] == bound]
            if not mine or any(v["cfg"] is c for v in raw_viol):
                continue  # a lower bound of this configuration already failed
            m = dict(executions=sum(r["executions"] for r in mine), scheduling_points=sum(r["points"] for r in mine),
                     longest=max(r["maxlen"] for r in mine), states_hashed=sum(r["states"] for r in mine),
                     pruned=sum(r["pruned"] for r in mine), contended=sum(r["nontrivial"] for r in mine),
                     preempted=sum(r["preempted"] for r in mine), shards=len(mine), cpu=round(sum(r["cpu"] for r in mine), 2),
                     max_preemptions=max(r["max_preemptions"] for r in mine))
            out, cont = {}, {}
            for r in mine:
                for k, n in r["outcomes"].items():
                    out[k] = out.get(k, 0) + n
                for k, n in r["contended"].items():
                    cont[k] = cont.get(k, 0) + n
            m["outcomes"] = out
            m["contended_on"] = cont
            m["obsfiles"] = [r["obsfile"] for r in mine]
            m["interleaving_classes"] = R.merged_distinct(m["obsfiles"]) if len(mine) > 1 else mine[0]["distinct_obs"]
            per.setdefault(cfg_name(c), {})[bound] = m
            total_exec += m["executions"]
            vs = [r for r in mine if "violation" in r]
            if vs:
                v = min(vs, key=lambda r: r["shard"])
                raw_viol.append(dict(cfg=c, bound=bound, **v["violation"]))
            else:
                done_bound[cfg_name(c)] = bound
            for r in mine:
                for s in r["samples"]:
                    samples_pool.append((c, bound, s))
        batch_log.append(dict(batch=label, started=True, completed=True, configurations=len(sel), shards=len(tasks),
                              executions=execs, wall_s=round(wall, 1), cpu_s=round(cpu, 1)))
        common.log("C49: %-45s %3d configurations %4d shards %9d executions  %.1fs wall %.1fs cpu" % (label, len(sel), len(tasks), execs, wall, cpu))

    # ---- harness-level verdicts are never violations
    for v in raw_viol:
        if v["verdict"].split("(")[0] in HARNESS_VERDICTS:
            harness_error("%s bound=%d: %s %s; schedule %s" % (cfg_name(v["cfg"]), v["bound"], v["verdict"], v["detail"], v["schedule"]))

    # ---- violations: smallest failing configuration per mode, re-run alone twice on each backend
    for mode in MODES:
        mine = [v for v in raw_viol if v["cfg"]["mode"] == mode]
        if not mine:
            continue
        mine.sort(key=lambda v: (v["bound"], v["cfg"]["workers"], not v["cfg"]["base"], v["cfg"]["steal"], v["cfg"]["sizes"]))
        v = mine[0]
        c = v["cfg"]
        outs = [R.replay(c, v["schedule"], b) for b in ("fib", "fib", "thr", "thr")]
        want = "VERDICT %s phase=%s" % (v["verdict"], phase_name(v["phase"]))
        if len(set(outs)) != 1 or not outs[0].startswith(want):
            harness_error("violation does not reproduce identically (%s, schedule %s): expected '%s', replays gave %s" % (
                cfg_name(c), v["schedule"], want, json.dumps(sorted(set(outs)))[:1500]))
        key = "%s %s phase=%s" % (cfg_name(c), v["verdict"], phase_name(v["phase"]))
        others = sorted(set(cfg_name(o["cfg"]) + " (bound %d)" % o["bound"] for o in mine[1:]))
        what = "%s %s; found at preemption bound %d with %d preemption(s); schedule %s; outcome %s" % (
            v["verdict"], v["detail"], v["bound"], v["preemptions"], v["schedule"], v["outcome"])
        if others:
            what += "; also failing: " + "; ".join(others[:8]) + (" (+%d more)" % (len(others) - 8) if len(others) > 8 else "")
        case = dict(kind="schedule", mode=c["mode"], workers=c["workers"], sizes=c["sizes"], steal=c["steal"], applies=APPLIES,
                    schedule=v["schedule"], expected="VERDICT OK", observed=outs[0].splitlines()[0] if outs[0] else "")
        violations.append(common.Violation(key, what, case))

    # ---- guards of the explorer itself (skipped for configurations that already failed)
    ok_cfgs = [c for c in cfgs if cfg_name(c) in done_bound]
    guards = {}
    if ok_cfgs and not ctx.deadline.over():
        # (1) pruning on/off must give the same set of final observations
        def pb(c):
            b = 2 if (c["workers"] == 2 or not ctx.quick) else 1
            return min(b, done_bound[cfg_name(c)])
        sel = [c for c in ok_cfgs if c["base"] or not ctx.quick]
        tasks = [dict(c=c, bounds=[pb(c)], shard=s, nshards=shards_for(c, pb(c)), prune=False, tag="np") for c in sel
                 for s in range(shards_for(c, pb(c)))]
        tasks.sort(key=lambda t: -weight(t["c"], 0) / t["nshards"])
        res = R.run_tasks(tasks)
        bad, ex_np = [], 0
        if not any(r.get("timeout") for r in res):
            for c in sel:
                mine = [r for r in res if r["cfg"] is c]
                for r in mine:
                    if "violation" in r:
                        harness_error("unpruned exploration of %s fails (%s) where the pruned one passed" % (cfg_name(c), r["violation"]))
                ex_np += sum(r["executions"] for r in mine)
                a = per[cfg_name(c)][pb(c)]
                na, nb = a["interleaving_classes"], R.merged_distinct([r["obsfile"] for r in mine])
                nu = R.merged_distinct([r["obsfile"] for r in mine] + a["obsfiles"])
                if not (na == nb == nu):
                    bad.append("%s bound %d: pruned %d, unpruned %d, union %d" % (cfg_name(c), pb(c), na, nb, nu))
            if bad:
                harness_error("state-hash pruning changes the set of reachable final observations: " + "; ".join(bad[:5]))
            common.log("C49: pruning cross-check done at %.0fs" % (time.time() - ctx.t0))
            guards["pruning_crosscheck"] = dict(configurations=len(sel), unpruned_executions=ex_np, mismatches=0,
                                                what="same set of final observations with and without pruning (bound 2; 3 workers in quick: bound 1)")
        # (2) real threads instead of fibers, bound 1
        sel = [c for c in ok_cfgs if done_bound[cfg_name(c)] >= 1 and
               ((c["base"] and (c["workers"] == 2 or (c["sizes"] == "1" and c["mode"] == "futex"))) if ctx.quick else True)]
        tasks = [dict(c=c, bounds=[1], shard=0, nshards=1, backend="thr", tag="thr") for c in sel]
        tasks.sort(key=lambda t: -weight(t["c"], 0))
        res = R.run_tasks(tasks) if not ctx.deadline.over() else []
        if res and not any(r.get("timeout") for r in res):
            bad = []
            for r in res:
                a = per[cfg_name(r["cfg"])][1]
                if "violation" in r:
                    harness_error("real-thread exploration of %s fails (%s) where the fibre one passed" % (cfg_name(r["cfg"]), r["violation"]))
                nu = R.merged_distinct([r["obsfile"]] + a["obsfiles"])
                if not (r["distinct_obs"] == a["interleaving_classes"] == nu) or (a["shards"] == 1 and r["executions"] != a["executions"]):
                    bad.append("%s: threads %d executions/%d classes, fibres %d/%d, union %d" % (
                        cfg_name(r["cfg"]), r["executions"], r["distinct_obs"], a["executions"], a["interleaving_classes"], nu))
            if bad:
                harness_error("real threads and fibres disagree at bound 1: " + "; ".join(bad[:5]))
            common.log("C49: real-thread cross-check done at %.0fs" % (time.time() - ctx.t0))
            guards["real_thread_crosscheck"] = dict(configurations=len(res), executions=sum(r["executions"] for r in res), mismatches=0,
                                                    what="bound-1 exploration with real std::threads + futex hand-off: same executions, same observations")
        # (3) sampled schedules replayed in fresh processes with real threads
        want_n = 32 if ctx.quick else 96
        pool = [s for s in samples_pool if cfg_name(s[0]) in done_bound]
        pool.sort(key=lambda s: (-s[1], -len(s[2]["schedule"])))
        step = max(1, len(pool) // want_n)
        chosen = pool[::step][:want_n]
        def one(s):
            return s, R.replay(s[0], s[2]["schedule"], "thr")
        mism = []
        with cf.ThreadPoolExecutor(common.NCPU) as ex:
            for s, out in ex.map(one, chosen):
                m = re.match(r"VERDICT OK phase=end outcome=(\S*) obs=([0-9a-f]+)", out)
                if not m or m.group(2) != s[2]["obs"] or m.group(1) != s[2]["outcome"]:
                    mism.append("%s schedule %s: recorded obs=%s outcome=%s, replay printed %s" % (
                        cfg_name(s[0]), s[2]["schedule"], s[2]["obs"], s[2]["outcome"], out[:200]))
        if mism:
            harness_error("replay in a fresh process diverges: " + "; ".join(mism[:3]))
        guards["replay_determinism"] = dict(schedules_replayed=len(chosen), mismatches=0,
                                            what="fresh process, real-thread backend, same observation hash and outcome as recorded by the explorer")

    common.log("C49: replays done at %.0fs" % (time.time() - ctx.t0))
    # ---- ThreadSanitizer results
    unreproduced = []
    tsan = [f.result() for f in tsan_fut]
    tsan_pool.shutdown()
    for t in tsan:
        if t["timeout"] or t["runs"] < t["wanted_runs"]:
            assumptions.append("ThreadSanitizer pass for mode %s: %d of %d free-running runs done within %d s%s" % (
                t["mode"], t["runs"], t["wanted_runs"], tsan_limit,
                " (a chunk of 30 runs did not end: overloaded machine, or the free-running bodies hang)" if t["timeout"] else ""))
        if t["reports"] or t["wrong"]:
            # free-running: whether the race window is hit varies from run to run; confirm = seen again in 2 of up to 4 longer runs
            seen = []
            for _ in range(4):
                a = tsan_run(bins, t["mode"], 2 * tsan_reps, tmp, tsan_limit)
                if a["reports"] or a["wrong"]:
                    seen.append(a)
                if len(seen) == 2:
                    break
            if len(seen) < 2:
                unreproduced.append("ThreadSanitizer report for mode %s was not seen again: %s %s" % (t["mode"], t["summaries"][:3], t["wrong"]))
                continue
            summ = sorted(set(t["summaries"]) & set(seen[0]["summaries"]) & set(seen[1]["summaries"])) or t["summaries"]
            t["summaries"] = summ
            what = (t["wrong"] or "%d report(s): %s" % (t["reports"], "; ".join(summ[:4])))[:900]
            violations.append(common.Violation(tsan_key(t), "free-running ThreadSanitizer pass: " + what,
                                               dict(kind="tsan", mode=t["mode"], reps=2 * tsan_reps)))
    if unreproduced and not violations:
        harness_error("; ".join(unreproduced))
    assumptions += unreproduced

    # ---- evidence
    top = {n: max(b) for n, b in per.items()}
    nontrivial = sum(per[n][top[n]]["contended"] for n in per)
    preempted = sum(per[n][top[n]]["preempted"] for n in per)
    classes = sum(per[n][top[n]]["interleaving_classes"] for n in per)
    outcomes = sum(len(per[n][top[n]]["outcomes"]) for n in per)
    groups = {"base grid": {}, "extra configurations": {}}
    for c in cfgs:
        g = groups["base grid" if c["base"] else "extra configurations"]
        k = "%s workers=%d" % (c["mode"], c["workers"])
        g[k] = min(g.get(k, 99), done_bound.get(cfg_name(c), -1))
    table = {}
    for n in sorted(per):
        table[n] = {"bound %d" % b: {k: v for k, v in m.items() if k not in ("obsfiles", "cpu", "outcomes", "shards")} |
                    {"distinct_outcomes": len(m["outcomes"])} for b, m in sorted(per[n].items())}
    samples = []
    for c, b, s in samples_pool[:: max(1, len(samples_pool) // 8)][:8]:
        samples.append(dict(configuration=cfg_name(c), bound=b, schedule=s["schedule"], who_processed_each_element=s["outcome"],
                            preemptions=s["preemptions"], contended_preemptions=s["contended"]))
    big = max(per, key=lambda n: per[n][top[n]]["executions"]) if per else None
    coverage = dict(
        evaluations=total_exec, distinct_nontrivial=nontrivial,
        rule="one evaluation = one complete execution (construction, 2 applies, destruction) of the real Parmap<int> under one schedule; "
             "the DFS never runs the same schedule twice, so executions are distinct. Non-trivial = at least one preemption was taken "
             "in front of an operation on a Parmap synchronisation object and, before the preempted thread resumed, another thread "
             "performed a conflicting operation (one of the two writes) on the SAME object, i.e. the race the schedule aims at really "
             "happened in the inverted order. Counted at the largest completed bound of each configuration (a bound contains the lower ones).",
        executions_with_a_preemption=preempted, interleaving_classes=classes, distinct_outcomes=outcomes,
        classes_rule="interleaving class = distinct tuple of per-thread observation histories (every value returned by every operation "
                     "of every thread); outcome = which thread processed which element in which apply; both summed over configurations "
                     "at their largest completed bound",
        exhaustive=bool(all_required_done and not raw_viol),
        preemption_bound_completed=groups, batches=batch_log, configurations=len(cfgs),
        largest_configuration=dict(name=big, **{k: v for k, v in per[big][top[big]].items() if k not in ("obsfiles", "outcomes")},
                                   outcomes_seen=sorted(per[big][top[big]]["outcomes"])[:40]) if big else None,
        per_configuration=table, guards=guards,
        tsan_pass=[dict(mode=t["mode"], free_running_runs=t["runs"], reports=t["reports"], summaries=t["summaries"][:5]) for t in tsan],
        samples=samples)
    assumptions += [
        "plain (non-atomic) code runs atomically with the synchronisation operation that precedes it: the exploration is complete for data-race-free code only; unsynchronised accesses are what the free-running ThreadSanitizer pass is for",
        "sequential consistency: the scheduler serialises the threads, reorderings allowed by memory orders weaker than seq_cst are not explored (the ThreadSanitizer pass covers missing synchronisation, not reordering of relaxed atomics)",
        "no spurious wake-ups of condition variables / futexes; notify_one/futex_wake with fewer wake-ups than waiters is not enumerated (the harness aborts with UNMODELLED if it happens)",
        "yield parks a spinning thread until an object it read is modified; checked at every livelock verdict (STATEFUL-SPIN otherwise)",
        "workers in {2,3}, vectors of at most 3 elements, 2 applies: larger instances are not explored",
        "exploration runs the threads as fibres of one OS thread (the thread-local current Context is swapped by hand); real std::threads are used for the bound-1 cross-check and for every replay",
        "state-hash pruning (128-bit hash of per-thread observation histories + shared state) is assumed collision-free; its effect on the reachable observations is cross-checked at a low bound in every run"]
    if nontrivial < 2 and not violations:
        print("C49: vacuous run: fewer than 2 executions in which a contended preemption happened")
        sys.exit(2)
    common.finish(ctx, "exploration", coverage, assumptions, violations, engine=ENGINE)


# ------------------------------------------------------------------------------------------------ replay of one stored case
def replay(ctx, rf):
    c = rf["case"]
    bins = build()
    if c.get("kind") == "tsan":
        t = tsan_run(bins, c["mode"], c.get("reps", 6), None)
        print("free-running ThreadSanitizer pass, mode %s: %d runs, %d report(s)" % (c["mode"], t["runs"], t["reports"]))
        for s in t["summaries"]:
            print("  " + s)
        if t["wrong"]:
            print("  " + t["wrong"])
        print(t["stderr"][:6000])
        return 1 if (t["reports"] or t["wrong"]) else 0
    R = Runner(ctx, bins, None)
    cfg = dict(mode=c["mode"], workers=c["workers"], sizes=c["sizes"], steal=c["steal"])
    rc = 0
    for backend, name in (("fib", "fibres"), ("thr", "real std::threads")):
        out = R.replay(cfg, c["schedule"], backend, verbose=True)
        print("replaying %s schedule %s (%s)" % (cfg_name(cfg), c["schedule"], name))
        print(out)
        if "VERDICT OK" not in out:
            rc = 1
    return rc
