"""C40 ODPOR explores each equivalence class exactly once: the complete executions simgrid-mc runs under reduction odpor
(logged by the H1 hook) are replayed on the real kernel, reduced to their Foata normal form under the checker's own
dependency relation; no two may be equal, and their number must equal the number of classes among ALL complete executions
(enumerated without reduction by vx)."""
import os, time, shutil
import common, vxlib, rs, smc, synccheck, mcprogs

def bounds(ctx):
    f = mcprogs.family
    b = [("misc", mcprogs.misc()), ("mutex", f("c04", ["plain-A2K3"])), ("sem", f("c05", ["c0-A2K2-acqt"])), ("mbox", f("c08", ["twobox-A2K2"]))]
    if not ctx.quick:
        b += [("mutex3", f("c04", ["plain-A3K2"])), ("mutex-rec", f("c04", ["rec-A2K3"])), ("condvar", f("c06", ["A2K2"])), ("barrier", f("c07", ["n2-A1to4"])),
              ("mbox-basic", f("c08", ["basic-A2K2"])), ("sem3", f("c05", ["c1-A3K2"]))]
    return b

def _job(item):
    pid, prog, idx, pfile, binary, workdir, klass = item
    out = dict(pid=pid, problems=[], traces=None, classes=klass["nclasses"])
    r = smc.run(binary, pfile, idx, ["model-check/reduction:odpor"], workdir, "%s-%d" % (pid, os.getpid()), max_errors=0, timeout=300)
    if r["timeout"]:
        out["inconclusive"] = True
        return out
    if r["rc"] not in (0, 1, 2):
        out["problems"].append(("crash", "simgrid-mc exit code %s under odpor: %s" % (r["rc"], r["out"][-300:].replace("\n", " / "))))
        return out
    scheds = sorted(set(s.rstrip(";").replace("/0", "") for s in r["complete"]))
    fn = vxlib.run_fnf(prog, scheds, "%s-%d" % (pid, os.getpid()))
    if len(fn) != len(scheds) or any(f[0] != "OK" or not f[2] for f in fn):
        out["problems"].append(("not-replayable", "an execution logged as complete under odpor does not replay to a terminal state on the kernel: %s" % [s for s, f in zip(scheds, fn) if f[0] != "OK" or not f[2]][:2]))
        return out
    hashes = [f[1] for f in fn]
    out["traces"] = len(scheds)
    dup = len(hashes) - len(set(hashes))
    if dup:
        seen = {}
        pair = None
        for s, h in zip(scheds, hashes):
            if h in seen:
                pair = (seen[h], s); break
            seen[h] = s
        out["problems"].append(("equivalent-executions", "%d of the %d complete executions explored under odpor are equivalent to an earlier one, e.g. %s ~ %s" % (dup, len(scheds), pair[0], pair[1])))
    missing = klass["classes"] - set(hashes)
    if missing:
        out["problems"].append(("missed-classes", "odpor explored %d classes, the unreduced exploration has %d" % (len(set(hashes)), klass["nclasses"])))
    extra = set(hashes) - klass["classes"]
    if extra:
        out["problems"].append(("unknown-class", "%d explored classes are not classes of any complete execution" % len(extra)))
    return out

def run(ctx):
    binary = vxlib.vx_binary()
    d = common.tmpdir("c40")
    maxexec = 3000 if ctx.quick else 30000
    tot = dict(programs=0, traces=0, classes=0, nontrivial=0, skipped_failing=0, skipped_capped=0, inconclusive=0)
    completed, violations, samples = [], {}, []
    exhaustive = True
    for name, gen in bounds(ctx):
        if ctx.deadline.left() < 20:
            exhaustive = False; break
        t0 = time.time()
        progs = []
        for i, p in enumerate(gen()):
            if p.get("mq"):
                continue
            ref = rs.explore(p)
            if any("ASSERTFAIL" in ref["states"][t][0] or rs.is_deadlock(ref["states"][t][0]) for t in ref["terminals"]):
                tot["skipped_failing"] += 1   # the checker stops at its first report: only failure-free programs have a complete odpor exploration
                continue
            progs.append(("%s-%d" % (name, i), p))
        kl = vxlib.run_classes(progs, "c40" + name, maxexec=maxexec, deadline=ctx.deadline.end)
        pfile = os.path.join(d, name + ".txt")
        open(pfile, "w").write("".join(vxlib.prog_text(pid, p) for pid, p in progs))
        jobs = []
        for i, (pid, p) in enumerate(progs):
            k = kl.get(pid)
            if not k or k["status"] != "OK":
                continue
            if not k["complete"]:
                tot["skipped_capped"] += 1; exhaustive = False
                continue
            jobs.append((pid, p, i, pfile, binary, d, k))
        done = 0
        for c in range(0, len(jobs), 64):
            if ctx.deadline.left() < 15:
                exhaustive = False; break
            for res in common.pmap(_job, jobs[c:c + 64]):
                p = dict(progs)[res["pid"]]
                if res.get("inconclusive"):
                    tot["inconclusive"] += 1; continue
                done += 1; tot["programs"] += 1; tot["traces"] += res["traces"] or 0; tot["classes"] += res["classes"]
                if res["classes"] >= 2:
                    tot["nontrivial"] += 1
                for kind, what in res["problems"]:
                    ops = mcprogs.features(p)
                    key = "C40 %s uses=%s" % (kind, ops)
                    violations.setdefault(key, common.Violation(key, what + " -- program: " + synccheck.compact(p), dict(program=p, kind=kind)))
        if len(samples) < 4 and jobs:
            samples.append(dict(bound=name, program=synccheck.compact(jobs[0][1]), classes=jobs[0][6]["nclasses"], executions_without_reduction=jobs[0][6]["nexec"]))
        completed.append(dict(bound=name, programs=done, of=len(progs), wall_s=round(time.time() - t0, 1)))
        common.log("C40 bound %s: %d/%d programs %.0fs violations %d" % (name, done, len(progs), time.time() - t0, len(violations)))
        if done < len(jobs):
            exhaustive = False
    shutil.rmtree(d, ignore_errors=True)
    if tot["programs"] < 2 or tot["nontrivial"] < 2:
        common.log("vacuous run"); raise SystemExit(2)
    vs = []
    for v in violations.values():   # confirmation: same program, twice
        pf = os.path.join(common.tmpdir("c40c"), "p.txt"); open(pf, "w").write(vxlib.prog_text("x", v.case["program"]))
        k = vxlib.run_classes([("x", v.case["program"])], "c40c", maxexec=maxexec)["x"]
        a = [_job(("x", v.case["program"], 0, pf, binary, os.path.dirname(pf), k)) for _ in range(2)]
        kinds = [sorted(x for x, _ in r["problems"]) for r in a]
        if kinds[0] != kinds[1] or v.case["kind"] not in kinds[0]:
            common.log("C40: a verdict of the external checker did not repeat, dropped: %s %s" % (v.key, kinds)); tot["unreproducible_dropped"] = tot.get("unreproducible_dropped", 0) + 1
            continue
        vs.append(v)
    cov = dict(states=tot["classes"], transitions=tot["traces"], traces_validated_against_impl=tot["traces"], programs=tot["programs"],
               evaluations=tot["programs"], distinct_nontrivial=tot["nontrivial"],
               rule="every program of the bound without failing assertion: odpor's complete executions (H1 log) replayed on the kernel and compared, as Foata normal forms, with the classes of all executions; non-trivial = >=2 classes",
               classes_total=tot["classes"], odpor_complete_executions=tot["traces"], skipped_programs_with_reachable_failure=tot["skipped_failing"], unreproducible_dropped=tot.get("unreproducible_dropped", 0),
               skipped_programs_too_many_executions=tot["skipped_capped"], runs_too_slow_to_conclude=tot["inconclusive"], bounds_completed=completed, samples=samples, exhaustive=exhaustive)
    common.finish(ctx, "model_checking", cov, ["equivalence is decided with the checker's own dispatch_depends (as the statement says)", "ground truth: every complete execution enumerated by vx without any reduction"], vs, engine="E3 smc + E1 vx")

def replay(ctx, case):
    c = case["case"]; binary = vxlib.vx_binary(); d = common.tmpdir("c40r")
    pf = os.path.join(d, "p.txt"); open(pf, "w").write(vxlib.prog_text("x", c["program"]))
    k = vxlib.run_classes([("x", c["program"])], "c40r", maxexec=30000)["x"]
    r = _job(("x", c["program"], 0, pf, binary, d, k))
    print("program:", synccheck.compact(c["program"])); print("classes without reduction:", k["nclasses"], "executions:", k["nexec"], "odpor executions:", r["traces"])
    for p in r["problems"]:
        print("PROBLEM", p)
    return 1 if r["problems"] else 0
