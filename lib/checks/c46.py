"""C46 File system accounting is consistent  (DESIGN.md §5 group C, level model_checking).

Every history of file operations of length <= L (quick 4, thorough 5) over two handles (slot 0 opens /d/a, pre-existing, size 10;
slot 1 opens /d/b, new) on a disk of size 30 is replayed on the REAL plugin (harness/misc/c46/c46x.cpp; the platform comes
from a generated XML file) and compared step by step with a reference relation written here.  The reference is a relation,
not a function: where the statement leaves an outcome open (does a short overwrite truncate? does a seek beyond the end grow
the file? is a rename onto an existing name a replacement or refused? does a handle follow its file when the file is renamed,
or keep its old name? how many of the requested bytes are written on a nearly full disk?) every outcome is accepted and the
reference follows the one observed.

Checked after every operation (all on the step, so one accounting error does not cascade into the following steps):
  used==sum   the change of sg_disk_get_size_used equals the change of the total size of the files stored on the disk
              (the plugin's own content map), and the initial state has used == sum
  read        read returns <= min(requested, size - position)
  unlink      unlink of a stored file succeeds, removes it and gives back exactly its size
  conform     tell()/size() of both handles and the stored file sizes are among the outcomes the reference allows
  crash       the operation does not kill the process

Case key = the *shape* of the failing step (invariant, operation, relation of position/size, symbolic error), so that all
histories hitting the same defect share one key and a different accounting error gets a different one.
"""
import os, sys, json, subprocess, time, shutil
import common

NAMES = "abc"
VALS = [0, 3, 10, 15]
CUR = [-3, 3, 10]
END = [-10, -3, 0, 3]
DISK = 30
PRE = 10           # size of the pre-existing file a
SHARD_DEPTH = 2
# reference state = (content sizes of a,b,c (-1 absent), slots); slot = None | (name, pos, size, dead, moved, orig)
#   name: index of the stored file the handle is attached to (None: to none), orig: the name it was opened with,
#   dead: its file was unlinked through it, moved: it was renamed through it.
INIT = ((PRE, -1, -1), (None, None))
INIT_REC = (0, 0, PRE, PRE, -1, -1, 0, -1, -1, -1, -1)   # (unused, ret, used, content a, b, c, #other entries, h0 tell, size, h1 tell, size)

OPNAME = {"o": "open", "c": "close", "w": "write(overwrite)", "i": "write_inplace", "r": "read", "s": "seek", "m": "move", "u": "unlink"}


def pretty(op):
    t = op.split()
    f = "h%s" % t[1]
    k = t[0]
    if k == "o":
        return "open(%s=/d/%s)" % (f, NAMES[int(t[1])])
    if k in "cu":
        return "%s(%s)" % (OPNAME[k], f)
    if k == "w":
        return "write(%s,%s)" % (f, t[2])
    if k in "ir":
        return "%s(%s,%s)" % (OPNAME[k], f, t[2])
    if k == "s":
        return "seek(%s,%s,%s)" % (f, t[3], {"S": "SET", "C": "CUR", "E": "END"}[t[2]])
    return "move(%s,/d/%s)" % (f, t[2])


def live_names(slots):
    s = set()
    for h in slots:
        if h and not h[3]:
            s.add(h[5])
            if h[0] is not None:
                s.add(h[0])
    return s


def gen_ops(st):
    """well-formed operations in reference state st (API preconditions only: no negative position; at most one live handle
    per file name, counting the name a handle was opened with; a handle whose file was unlinked is only closed)."""
    content, slots = st
    live = live_names(slots)
    out = []
    for i in (0, 1):
        h = slots[i]
        if h is None:
            if i not in live:
                out.append("o %d" % i)
            continue
        out.append("c %d" % i)
        name, pos, size, dead, moved, orig = h
        if dead:
            continue
        for n in VALS:
            out.append("w %d %d" % (i, n))
        for n in VALS:
            out.append("i %d %d" % (i, n))
        for n in VALS:
            out.append("r %d %d" % (i, n))
        for p in VALS:
            out.append("s %d S %d" % (i, p))
        for o in CUR:
            if pos + o >= 0:
                out.append("s %d C %d" % (i, o))
        for o in END:
            if size + o >= 0:
                out.append("s %d E %d" % (i, o))
        for g in (0, 1, 2):
            if g not in live or (g == name and name is not None):   # including a rename of the file onto its own name (a no-op)
                out.append("m %d %s" % (i, NAMES[g]))
        out.append("u %d" % i)
    return out


def _set(t, i, v):
    l = list(t)
    l[i] = v
    return tuple(l)


def ref_posts(st, op, ret):
    """all reference post-states allowed after `op` returned `ret` in state st -> (list of states, tags describing the step)"""
    content, slots = st
    t = op.split()
    k, i = t[0], int(t[1])
    h = slots[i]
    tags = []
    if k == "o":
        sz = content[i]
        if sz < 0:
            content = _set(content, i, 0)
            sz = 0
            tags.append("create")
        return [(content, _set(slots, i, (i, 0, sz, False, False, i)))], tags
    if k == "c":
        return [(content, _set(slots, i, None))], tags
    name, pos, size, dead, moved, orig = h

    def resized(p, s):
        """the handle now has position p and size s: outcomes for the stored files"""
        outs = []
        if s == size:
            return [(content, _set(slots, i, (name, p, s, dead, moved, orig)))]
        if name is not None:
            outs.append((_set(content, name, s), _set(slots, i, (name, p, s, dead, moved, orig))))
        if moved:
            # the handle kept the name it was opened with: the file is (re)created under that name with the new size
            outs.append((_set(content, orig, s), _set(slots, i, (orig, p, s, dead, False, orig))))
        return outs
    if k in "wi":
        n = int(t[2])
        if ret < 0 or ret > n:
            return [], tags
        if ret == 0:
            if n:
                tags.append("write-refused")
            return [st], tags
        end = pos + ret
        if pos < size:
            tags.append("write-middle" if k == "w" else "inplace-middle")
        if ret < n:
            tags.append("short-write")
        outs = resized(end, max(size, end))
        if k == "w" and end < size:
            outs += resized(end, end)          # a not-in-place write may truncate the file at its end
            tags.append("short-overwrite")
        return outs, tags
    if k == "r":
        n = int(t[2])
        if n > max(0, size - pos):
            tags.append("read-clipped")
        if ret < 0:
            return [], tags
        return resized(pos + ret, size), tags    # the bound on ret is checked separately (invariant `read`)
    if k == "s":
        np_ = {"S": 0, "C": pos, "E": size}[t[2]] + int(t[3])
        outs = resized(np_, max(size, np_))
        if np_ > size:
            tags.append("seek-beyond-end")
            outs += resized(np_, size)           # a sparse seek (no growth) is not excluded by the statement
        return outs, tags
    if k == "m":
        g = NAMES.index(t[2])
        outs = []
        if name is not None:
            outs.append((_set(_set(content, name, -1), g, size), _set(slots, i, (g, pos, size, False, True, orig))))   # renamed
            if content[g] >= 0:
                tags.append("move-onto-existing")
                outs.append(st)                                                                                        # refused
                # source dropped, target kept: accepted here, the accounting is judged by used==sum
                outs.append((_set(content, name, -1), _set(slots, i, (None, pos, size, False, True, orig))))
        if moved or name is None:
            outs.append(st)                      # nothing stored under the handle's own name any more: refused
        return outs, tags
    if k == "u":
        outs = []
        tags.append("unlink")
        if ret == 0 and name is not None:
            outs.append((_set(content, name, -1), _set(slots, i, (name, pos, size, True, moved, orig))))
        elif ret == -1 and (moved or name is None):
            outs.append(st)                      # unlink through a handle whose file was renamed: a refusal is accepted
        return outs, tags
    raise ValueError(op)


def obs_of(st):
    content, slots = st
    o = list(content)
    for h in slots:
        o += [h[1], h[2]] if h else [-1, -1]
    return tuple(o)


def rec_obs(rec):
    return (rec[3], rec[4], rec[5], rec[7], rec[8], rec[9], rec[10])


def s64(x):
    x &= (1 << 64) - 1
    return x - (1 << 64) if x >> 63 else x


def check_step(st, op, prerec, rec):
    """-> (post reference state or None, [(key without delta, candidate symbolic deltas or None, what)], tags)"""
    t = op.split()
    k, i = t[0], int(t[1])
    opn = OPNAME[k]
    h = st[1][i]
    viols = []
    ret = rec[1]
    posts, tags = ref_posts(st, op, ret)
    guard = []
    if h:
        name, pos, size, dead, moved, orig = h
        grows = False
        if k in "wir":
            guard.append("pos<size" if pos < size else "pos=size" if pos == size else "pos>size")
            grows = k in "wi" and pos + ret > size
        if k == "s":
            np_ = {"S": 0, "C": pos, "E": size}[t[2]] + int(t[3])
            guard.append("newpos>size" if np_ > size else "newpos<=size")
            grows = np_ > size
        if k == "m":
            guard.append("target-exists" if st[0][NAMES.index(t[2])] >= 0 else "target-new")
        if (moved or name is None) and (grows or k in "mu"):
            if k in "wi":
                guard = ["grows"]
            guard.append("handle=renamed")
    pre = (" pre=" + ",".join(guard)) if guard else ""
    # --- used==sum, step form
    d_used = s64(rec[2] - prerec[2])
    sum0 = sum(x for x in prerec[3:6] if x >= 0)
    sum1 = sum(x for x in rec[3:6] if x >= 0)
    if rec[6]:
        viols.append(("C46 inv=conform at=%s%s unexpected-file" % (opn, pre), None, "%d unexpected entries in the disk content" % rec[6]))
    err = d_used - (sum1 - sum0)
    if err:
        # the key carries only the sign of the error: a symbolic amount would depend on which cases a bound contains
        cands = {"used-too-high" if err > 0 else "used-too-low"}
        viols.append(("C46 inv=used==sum at=%s%s" % (opn, pre), cands,
                      "after %s: used size changed by %+d but the stored files' total changed by %+d (used=%d, sum=%d)"
                      % (pretty(op), d_used, sum1 - sum0, s64(rec[2]), sum1)))
    # --- read bound
    if k == "r":
        bound = min(int(t[2]), max(0, size - pos))
        if ret > bound:
            viols.append(("C46 inv=read at=read%s" % pre, None, "read(%s) at position %d of a %d-byte file returned %d > %d"
                          % (t[2], pos, size, ret, bound)))
    # --- unlink gives back the size (replaces the generic used==sum message when the amount given back is wrong)
    if k == "u":
        if ret == 0 and d_used != -size:
            if err:
                viols.pop()
            viols.append(("C46 inv=unlink at=unlink%s" % pre, None, "unlink of a %d-byte file gave back %d bytes (used %d -> %d)"
                          % (size, -d_used, s64(prerec[2]), s64(rec[2]))))
    # --- conformance
    o = rec_obs(rec)
    match = [p for p in posts if obs_of(p) == o]
    post = match[0] if match else None
    if not match:
        viols.append(("C46 inv=conform at=%s%s" % (opn, pre), None,
                      "after %s (returned %d): stored sizes a,b,c / tell,size of h0,h1 = %s; the reference allows %s"
                      % (pretty(op), ret, list(o), sorted(set(obs_of(p) for p in posts)))))
    return post, viols, tags


def final_key(key, cands):
    if cands is None:
        return key
    return key + " err=" + "/".join(sorted(cands))


# ------------------------------------------------------------------------------------------------ executing histories

def _run(cmd):
    """subprocess.run, retried while libsimgrid is being relinked by somebody else's bin/check (loader error, exit 127)"""
    for attempt in range(12):
        r = subprocess.run(cmd, stdout=subprocess.PIPE, stderr=subprocess.PIPE, text=True)
        if r.returncode != 127 or "libsimgrid" not in r.stderr:
            return r
        time.sleep(10)
    return r

def write_platform(d):
    open(os.path.join(d, "content.txt"), "w").write("/a %d\n" % PRE)
    xml = os.path.join(d, "plat.xml")
    # content is given by a relative name: path_ifsopen() fails on absolute names (it re-opens the already open stream);
    # the platform file's directory is in the search path
    open(xml, "w").write("""<?xml version='1.0'?>
<!DOCTYPE platform SYSTEM "https://simgrid.org/simgrid.dtd">
<platform version="4.1">
  <zone id="z" routing="Full">
    <host id="h" speed="1073741824f">
      <disk id="d0" read_bw="1048576Bps" write_bw="1048576Bps">
        <prop id="size" value="%dB"/>
        <prop id="mount" value="/d"/>
        <prop id="content" value="content.txt"/>
      </disk>
    </host>
  </zone>
</platform>
""" % DISK)
    return xml


def _parse(line):
    i, pre, post = line.split("|")
    return int(i), (0,) + tuple(int(x) for x in pre.split()), (0,) + tuple(int(x) for x in post.split())


def execute(exe, xml, paths, tag):
    """replay `paths` in one process (plugin reset between histories)
    -> {path: (record before the last op, record after it)}, {crashed path: exit status}"""
    recs, crashed = {}, {}
    tf = os.path.join(os.path.dirname(xml), "hist-%s-%d.txt" % (tag, os.getpid()))
    open(tf, "w").write("".join(";".join(p) + "\n" for p in paths))
    first = 0
    while first < len(paths):
        r = _run([exe, xml, tf, str(first), "--log=root.thres:critical"])
        last = first - 1
        for line in r.stdout.splitlines():
            last, pre, post = _parse(line)
            recs[paths[last]] = (pre, post)
        if r.returncode == 0 and last == len(paths) - 1:
            break
        if r.returncode == 0 or last + 1 >= len(paths) or r.returncode in (3, 4):
            common.log("c46x failed (exit %s after %d/%d histories): %s" % (r.returncode, last + 1, len(paths), r.stderr[-2000:]))
            raise SystemExit(2)
        crashed[paths[last + 1]] = r.returncode          # died inside history last+1: report it and go on after it
        first = last + 2
    os.unlink(tf)
    return recs, crashed


def execute_fresh(exe, xml, path, tag):
    """one history alone in a fresh process -> ([(pre, post) per step], exit status)"""
    tf = os.path.join(os.path.dirname(xml), "one-%s-%d.txt" % (tag, os.getpid()))
    open(tf, "w").write(";".join(path) + "\n")
    r = _run([exe, xml, tf, "0", "steps", "--log=root.thres:critical"])
    os.unlink(tf)
    if r.returncode in (3, 4):
        common.log("c46x failed: " + r.stderr[-2000:])
        raise SystemExit(2)
    return [_parse(l)[1:] for l in r.stdout.splitlines()], r.returncode


class Stats:
    def __init__(self):
        self.nodes_by_depth = {}
        self.states = set()
        self.trans = set()
        self.tags = {}
        self.viol = {}          # key (without delta) -> [count, shortest path, what, candidate deltas]
        self.executed = 0
        self.samples = []

    def add_viol(self, key, cands, what, path, n=1):
        c = self.viol.get(key)
        if c is None:
            self.viol[key] = [n, path, what, cands]
            return
        c[0] += n
        if cands is not None:
            c[3] = c[3] | cands
        if (len(path), path) < (len(c[1]), c[1]):
            c[1], c[2] = path, what

    def merge(self, o):
        for d, n in o.nodes_by_depth.items():
            self.nodes_by_depth[d] = self.nodes_by_depth.get(d, 0) + n
        self.states |= o.states
        self.trans |= o.trans
        for t, n in o.tags.items():
            self.tags[t] = self.tags.get(t, 0) + n
        for k, (n, p, w, c) in o.viol.items():
            self.add_viol(k, c, w, p, n)
        self.executed += o.executed
        self.samples += o.samples[:1]


def crash_key(op):
    return "C46 inv=crash at=%s" % OPNAME[op.split()[0]]


def deepen(exe, xml, front, upto, tag, keep=None):
    """front: list of (path, refstate, record) all of the same depth d0; explore every extension up to depth `upto`.
    -> (Stats over the new nodes, frontier at depth `upto`)"""
    st = Stats()
    if not front:
        return st, []
    known = {p: (s, r) for p, s, r in front}
    d0 = len(front[0][0])
    for d in range(d0 + 1, upto + 1):
        paths = [p + (op,) for p, s, r in front for op in gen_ops(s)]
        if not paths:
            front = []
            break
        recs, crashed = execute(exe, xml, paths, tag)
        st.executed += sum(len(p) for p in recs)
        nf = []
        for p in paths:
            ps, pr = known[p[:-1]]
            if p in crashed or p not in recs:
                st.add_viol(crash_key(p[-1]), None, "the process died (status %s) in %s" % (crashed.get(p), pretty(p[-1])), p)
                continue
            pre, rec = recs[p]
            if len(p) == 1 and pre[1:] != INIT_REC[1:]:
                st.add_viol("C46 inv=used==sum at=initial", None, "initial state %s, expected %s" % (list(pre[1:]), list(INIT_REC[1:])), ())
                pr = pre
            if pre[1:] != pr[1:]:
                common.log("C46: prefix %s gave %s at the previous bound and %s now: the harness is not deterministic" % (p[:-1], pr, pre))
                raise SystemExit(2)
            if keep is not None:
                keep[p] = (pre, rec)
            post, viols, tags = check_step(ps, p[-1], pr, rec)
            st.nodes_by_depth[d] = st.nodes_by_depth.get(d, 0) + 1
            for t in tags:
                st.tags[t] = st.tags.get(t, 0) + 1
            for key, cands, what in viols:
                st.add_viol(key, cands, what, p)
            if post is not None:
                st.states.add(post)
                st.trans.add((ps, p[-1], post))
                known[p] = (post, rec)
                nf.append((p, post, rec))
        front = nf
    if front:
        st.samples = [[pretty(o) for o in front[len(front) // 2][0]]]
    return st, front


_G = {}


def _shard(arg):
    front, upto, n = arg
    st, _ = deepen(_G["exe"], _G["xml"], front, upto, "s%d" % n)
    return st


def explore(exe, xml, L, deadline=None):
    """iterative deepening, bound by bound. -> (Stats of the last completed bound, completed bound, seconds per bound)"""
    _G["exe"], _G["xml"] = exe, xml
    times = {}
    k = min(SHARD_DEPTH, L)
    t0 = time.time()
    top, front = deepen(exe, xml, [((), INIT, INIT_REC)], k, "top")
    top.states.add(INIT)
    times[k] = round(time.time() - t0, 2)
    total, done = top, k
    last_nodes, last_t = None, None
    for d in range(k + 1, L + 1):
        if deadline is not None:
            # a bound has ~35x the histories of the previous one; process start-up dominates the small bounds
            est = 20 if last_t is None else 10 + (4 if d <= 4 else 15) * last_t
            if deadline.left() < est:
                break
        t0 = time.time()
        ng = min(len(front), common.NCPU * (1 if d <= 4 else 4))     # few processes: their start-up dominates the small bounds
        parts = common.pmap(_shard, [(front[n::ng], d, n) for n in range(ng)])
        cur = Stats()
        cur.merge(top)
        cur.samples = []
        for s in parts:
            cur.merge(s)
        last_t = time.time() - t0
        times[d] = round(last_t, 2)
        total, done = cur, d
    return total, done, times


def _fresh(p):
    return execute_fresh(_G["exe"], _G["xml"], p, "f%d" % (hash(p) & 0xffffff))


def cross_validate(exe, xml, depth):
    """every history of length <= depth: a fresh process running that history alone (no reset of the plugin at all) must
    observe exactly what the batch executor (one process, plugin reset between histories) observed. -> number compared"""
    _G["exe"], _G["xml"] = exe, xml
    keep = {}
    deepen(exe, xml, [((), INIT, INIT_REC)], depth, "cv", keep)
    paths = sorted(keep)
    for p, (steps, status) in zip(paths, common.pmap(_fresh, paths)):
        if status or len(steps) != len(p) or steps[-1] != keep[p]:
            common.log("C46: history %s: fresh process observed %s (status %s), batch executor %s: the reset is not faithful"
                       % (p, steps[-1:] and steps[-1], status, keep[p]))
            raise SystemExit(2)
    return len(paths)


def run_single(exe, xml, path):
    """replay one history alone in a fresh process -> list of (op, record) and the violations found along it"""
    steps, status = execute_fresh(exe, xml, tuple(path), "one")
    st, pr, out, viols = INIT, INIT_REC, [], []
    for n, op in enumerate(path):
        if n >= len(steps):
            viols.append((crash_key(op), None, "died with status %s" % status))
            out.append((op, None))
            break
        pre, rec = steps[n]
        if n == 0 and pre[1:] != INIT_REC[1:]:
            viols.append(("C46 inv=used==sum at=initial", None, "initial state %s" % list(pre[1:])))
        out.append((op, rec))
        if st is not None:
            st, v, _ = check_step(st, op, pre, rec)
            viols += v
    return out, viols


def setup():
    exe = common.build_harness("c46x", ["misc/c46/c46x.cpp"])
    d = common.tmpdir("c46")
    return exe, write_platform(d), d


def run(ctx):
    exe, xml, d = setup()
    L = 4 if ctx.quick else 5
    cvd = 2 if ctx.quick else 3
    T = {}
    try:
        t0 = time.time()
        ncv = cross_validate(exe, xml, cvd)
        T["cross_validation"] = round(time.time() - t0, 2)
        st, done, times = explore(exe, xml, L, common.Deadline(max(ctx.deadline.left(), 0.8 * (ctx.deadline.end - ctx.deadline.t0))))
        t0 = time.time()
        violations = []
        for key in sorted(st.viol):
            n, path, what, cands = st.viol[key]
            a = run_single(exe, xml, path)[1]
            b = run_single(exe, xml, path)[1]
            if a != b or (path and key not in [k for k, _, _ in a]):
                common.log("C46: violation %s on %s does not reproduce alone in a fresh process (%s / %s): harness bug" % (key, path, a, b))
                raise SystemExit(2)
            hist = ";".join(pretty(o) for o in path)
            fk = final_key(key, cands)
            violations.append(common.Violation(fk, "%s [shortest history: %s; %d histories end with a step of this shape]" % (what, hist, n),
                                               {"history": list(path), "pretty": hist, "key": fk}))
        T["confirmations"] = round(time.time() - t0, 2)
    finally:
        shutil.rmtree(d, ignore_errors=True)
    nontrivial = {t: st.tags.get(t, 0) for t in ("write-middle", "short-overwrite", "inplace-middle", "seek-beyond-end", "read-clipped",
                                                 "write-refused", "unlink", "move-onto-existing", "create")}
    if sum(1 for v in nontrivial.values() if v) < 2:
        common.log("C46: vacuous run (%s)" % nontrivial)
        raise SystemExit(2)
    nodes = sum(st.nodes_by_depth.values())
    cov = {"states": len(st.states), "transitions": len(st.trans), "traces_validated_against_impl": nodes,
           "impl_steps_executed_incl_prefix_reruns": st.executed,
           "histories_by_length": {str(k): v for k, v in sorted(st.nodes_by_depth.items())},
           "histories_cross_validated_in_fresh_processes": ncv,
           "bound_completed": done, "bound_target": L, "exhaustive": done == L, "seconds_by_bound": times, "seconds_other": T,
           "steps_by_collision": nontrivial,
           "violating_steps_by_key": {final_key(k, v[3]): v[0] for k, v in sorted(st.viol.items())},
           "samples": st.samples[:4] + [[pretty(o) for o in v[1]] for v in list(st.viol.values())[:2]],
           "rule": "every well-formed history (prefix-closed) of length <= bound over 2 handles; states = distinct reference "
                   "states reached, transitions = distinct (state, op, state') exercised, traces = histories replayed on the plugin"}
    common.finish(ctx, "model_checking", cov,
                  ["the executor reads the plugin's private content map and handle fields with -fno-access-control",
                   "at most one live handle per file name; a handle whose file was unlinked is only closed; positions never negative (API preconditions)",
                   "values only from {0,3,10,15}, two handles, one disk of size 30, one actor, local disk (no remote mount)",
                   "all histories of a shard run in one simulation, the plugin being reset to its initial state between two histories "
                   "(handles closed, content map / used size / descriptor table rewritten): a process per history costs 20-200 ms here; "
                   "a fresh process per history observes the same on every history of length <= %d (measured in this run) and is used "
                   "to confirm every violation twice" % cvd],
                  violations, engine="misc/c46x")


def replay(ctx, case):
    exe, xml, d = setup()
    try:
        out, viols = run_single(exe, xml, case["case"]["history"])
    finally:
        shutil.rmtree(d, ignore_errors=True)
    print("record = ret used content[a] content[b] content[c] #other h0.tell h0.size h1.tell h1.size")
    for op, rec in out:
        print("  %-28s -> %s" % (pretty(op), rec and list(rec[1:])))
    for k, c, w in viols:
        print("  VIOLATED %s%s :: %s" % (k, " err in %s" % sorted(c) if c else "", w))
    return 1 if viols else 0
