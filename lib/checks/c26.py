"""C26 — structured topologies follow their routing algorithms (engine E6 routex, level exploration).

Every shape inside the bound is built through the C++ platform API (NetZone::add_netzone_torus/fatTree/dragonfly/star, and
the XML <cluster> tag for the flat ClusterZone), Host::route_to is asked for every ordered host pair, and the returned
link-name list is decoded into a walk on a topology graph that this file builds on its own from the textbook definitions
(k-ary n-cube, XGFT(h;m;w), Cray-Cascade dragonfly, star).  The oracle judges the *discipline* of the walk; it never computes
"the" route, so ties and port choices stay open.
"""
import os, re, sys, json, itertools, collections, shutil
import common
import route_common as rc

NEEDS_SIMGRID = True
LAT = 0.001      # latency of the generated inter-node links
LBLAT = 0.0005   # latency of loopback links
BATCH = 256      # max zones per Engine (one forked child per batch; fresh processes are expensive on a loaded machine)


# ------------------------------------------------------------------------------------------------ enumeration of shapes
def torus_shapes(maxn):
    """All ordered dimension tuples, 1..5 dimensions of size >= 2, product <= maxn; plus every shape of <= 3 dimensions and
    <= 16 nodes with one degenerate dimension of size 1 inserted at every position."""
    out = []

    def rec(prefix, prod):
        if prefix:
            out.append(tuple(prefix))
        if len(prefix) == 5:
            return
        for d in range(2, maxn // prod + 1):
            rec(prefix + [d], prod * d)
    rec([], 1)
    extra = [(1,)]
    for s in out:
        n = 1
        for d in s:
            n *= d
        if len(s) <= 3 and n <= 16:
            for i in range(len(s) + 1):
                extra.append(s[:i] + (1,) + s[i:])
    return out + extra


def fattree_shapes(maxlev, vals, maxleaves):
    out = []
    for h in range(1, maxlev + 1):
        for m in itertools.product(vals, repeat=h):
            n = 1
            for x in m:
                n *= x
            if n > maxleaves:
                continue
            for w in itertools.product(vals, repeat=h):
                for c in itertools.product(vals, repeat=h):
                    out.append((h, m, w, c))
    return out


def dragonfly_shapes(maxv, mults):
    out = []
    for g, c, r, n in itertools.product(range(1, maxv + 1), repeat=4):
        for mg, mc, mr in itertools.product(mults, repeat=3):
            out.append((g, mg, c, mc, r, mr, n))
    return out


STAR_CFG = 8  # per-host route configurations, see star_lists()


def star_lists(z, i, cfg):
    """-> (declarations, up list, down list) of host i of star zone z for configuration cfg. Lists hold final link names."""
    h = "%sh%d" % (z, i)
    p, q, bb, lm = "%sp%d" % (z, i), "%sq%d" % (z, i), "%sbb" % z, "%slm%d" % (z, i)
    if cfg == 0:    # nothing declared: StarZone::do_seal installs empty up/down lists
        return [], [], []
    if cfg == 1:
        return ["route %s %s * 1 %s:U" % (z, h, p)], [p + "_UP"], [p + "_DOWN"]
    if cfg == 2:
        return ["route %s %s * 1 %s:U,%s" % (z, h, p, bb)], [p + "_UP", bb], [bb, p + "_DOWN"]
    if cfg == 3:
        return ["route %s %s * 1 %s,%s:U,%s" % (z, h, lm, p, bb)], [lm, p + "_UP", bb], [bb, p + "_DOWN", lm]
    if cfg == 4:    # both directions declared one by one
        return (["route %s %s * 0 %s:U" % (z, h, p), "route %s * %s 0 %s,%s:D" % (z, h, bb, p)],
                [p + "_UP"], [bb, p + "_DOWN"])
    if cfg == 5:    # shared (non split-duplex) private link: the self route meets it in both lists
        return ["route %s %s * 1 %s" % (z, h, q)], [q], [q]
    if cfg == 6:
        return ["route %s %s * 1 %s,%s" % (z, h, q, bb)], [q, bb], [bb, q]
    if cfg == 7:    # backbone only, both ways
        return ["route %s %s * 0 %s" % (z, h, bb), "route %s * %s 0 %s" % (z, h, bb)], [bb], [bb]
    raise ValueError(cfg)


def star_shapes(maxhosts):
    out = []
    # (nothing declared, loopback) is left out: declaring only the loopback leaves the up/down lists "not set", and routing
    # from such a host is an xbt_assert (API precondition), i.e. outside the property
    cfgs = [(c, lo) for c in range(STAR_CFG) for lo in (0, 1) if (c, lo) != (0, 1)]
    for n in range(1, maxhosts + 1):
        for combo in itertools.product(cfgs, repeat=n):
            out.append(combo)
    return out


def cluster_shapes(maxhosts):
    out = []
    for n in range(1, maxhosts + 1):
        for bb, lb, lim in itertools.product((0, 1), repeat=3):
            for pol in ("SPLITDUPLEX", "SHARED", "FATPIPE"):
                out.append((n, bb, lb, lim, pol))
    return out


ALL8 = list(itertools.product((0, 1), (0, 1), ("D", "S")))          # loopback x limiter x {split-duplex, shared}
PAIRWISE4 = [(0, 0, "D"), (1, 1, "D"), (0, 1, "S"), (1, 0, "S")]       # every pair of option values occurs together
TWO = [(0, 0, "D"), (1, 1, "S")]


def specs_for(kind, shapes, variants=ALL8):
    out = []
    for s in shapes:
        if kind in ("torus", "fattree", "dragonfly"):
            for lb, lim, pol in variants:
                out.append({"kind": kind, "shape": s, "lb": lb, "lim": lim, "pol": pol})
        else:
            out.append({"kind": kind, "shape": s})
    return out


def nodes_of(spec):
    k, s = spec["kind"], spec["shape"]
    n = 1
    if k == "torus":
        for d in s:
            n *= d
    elif k == "fattree":
        for d in s[1]:
            n *= d
    elif k == "dragonfly":
        n = s[0] * s[2] * s[4] * s[6]
    elif k == "star":
        n = len(s)
    else:
        n = s[0]
    return n


def shape_str(spec):
    k, s = spec["kind"], spec["shape"]
    if k == "torus":
        t = "dims=" + "x".join(map(str, s))
    elif k == "fattree":
        t = "lv=%d down=%s up=%s cnt=%s" % (s[0], ",".join(map(str, s[1])), ",".join(map(str, s[2])), ",".join(map(str, s[3])))
    elif k == "dragonfly":
        t = "g=%d,%d c=%d,%d r=%d,%d n=%d" % tuple(s)
    elif k == "star":
        t = "hosts=" + "/".join("%d%s" % (c, "L" if lo else "") for c, lo in s)
    else:
        t = "n=%d bb=%d lb=%d lim=%d pol=%s" % tuple(s)
    if "lb" in spec:
        t += " lb=%d lim=%d pol=%s" % (spec["lb"], spec["lim"], spec["pol"])
    return t


def shape_class(spec):
    """Coarse structural class used in the case key (so that one root cause = one key, and a failure elsewhere = another)."""
    if spec["kind"] == "dragonfly":
        g, _, c, _, r, _, n = spec["shape"]
        return "groups>routers" if g > r else "groups<=routers"
    return "any"


# ------------------------------------------------------------------------------------------------ case text
def zone_text(z, spec):
    k, s = spec["kind"], spec["shape"]
    if k == "torus":
        return ["zone %s - torus dims=%s lb=%d lim=%d pol=%s lat=%r lblat=%r" %
                (z, ",".join(map(str, s)), spec["lb"], spec["lim"], spec["pol"], LAT, LBLAT)]
    if k == "fattree":
        return ["zone %s - fattree lv=%d down=%s up=%s cnt=%s lb=%d lim=%d pol=%s lat=%r lblat=%r" %
                (z, s[0], ",".join(map(str, s[1])), ",".join(map(str, s[2])), ",".join(map(str, s[3])),
                 spec["lb"], spec["lim"], spec["pol"], LAT, LBLAT)]
    if k == "dragonfly":
        return ["zone %s - dragonfly g=%d,%d c=%d,%d r=%d,%d n=%d lb=%d lim=%d pol=%s lat=%r lblat=%r" %
                (z, s[0], s[1], s[2], s[3], s[4], s[5], s[6], spec["lb"], spec["lim"], spec["pol"], LAT, LBLAT)]
    if k == "star":
        lines = ["zone %s - star" % z, "link %s %sbb 0.003 F" % (z, z)]
        for i, (cfg, lo) in enumerate(s):
            lines.append("host %s %sh%d" % (z, z, i))
            lines.append("link %s %sp%d %r D" % (z, z, i, 0.001 * (i + 1)))
            lines.append("link %s %sq%d %r S" % (z, z, i, 0.0001 * (i + 1)))
            lines.append("link %s %slm%d 0.00002 S" % (z, z, i))
            lines.append("link %s %slo%d 0.0005 F" % (z, z, i))
        for i, (cfg, lo) in enumerate(s):
            lines += star_lists(z, i, cfg)[0]
            if lo:
                lines.append("route %s %sh%d %sh%d 0 %slo%d" % (z, z, i, z, i, z, i))
        return lines
    raise ValueError(k)


def cluster_xml(zs):
    x = ["<?xml version='1.0'?>", '<!DOCTYPE platform SYSTEM "https://simgrid.org/simgrid.dtd">', '<platform version="4.1">',
         '<zone id="world" routing="Full">']
    for z, spec in zs:
        n, bb, lb, lim, pol = spec["shape"]
        a = 'id="%s" prefix="%sh" suffix="" radical="0-%d" speed="1Gf" bw="125MBps" lat="1ms" sharing_policy="%s"' % (z, z, n - 1, pol)
        if bb:
            a += ' bb_bw="1GBps" bb_lat="3ms"'
        if lb:
            a += ' loopback_bw="1GBps" loopback_lat="500us"'
        if lim:
            a += ' limiter_link="2GBps"'
        x.append("<cluster %s/>" % a)
    x += ["</zone>", "</platform>"]
    return "\n".join(x) + "\n"


# ------------------------------------------------------------------------------------------------ reference topologies
class Problem(Exception):
    def __init__(self, rule, detail):
        Exception.__init__(self, rule)
        self.rule, self.detail = rule, detail


def strip_half(name):
    if name.endswith("_UP"):
        return name[:-3], "UP"
    if name.endswith("_DOWN"):
        return name[:-5], "DOWN"
    return name, None


class Orient:
    """Direction book-keeping that needs no naming convention: each half of a split-duplex link must be crossed in one
    direction only, and the two halves of one link in opposite directions."""

    def __init__(self, split):
        self.split, self.seen = split, {}

    def use(self, base, half, a, b):
        if not self.split:
            if half is not None:
                raise Problem("half-link-in-shared-zone", "%s_%s" % (base, half))
            return
        if half is None:
            raise Problem("whole-link-in-split-duplex-zone", base)
        o = self.seen.setdefault(base, {})
        prev = o.get(half)
        if prev is None:
            o[half] = (a, b)
            other = o.get("DOWN" if half == "UP" else "UP")
            if other is not None and other != (b, a):
                raise Problem("halves-not-opposite", "%s_%s crossed %s->%s, other half %s->%s" % (base, half, a, b, other[0], other[1]))
        elif prev != (a, b):
            raise Problem("half-link-both-ways", "%s_%s crossed %s->%s and %s->%s" % (base, half, prev[0], prev[1], a, b))


_T_RE = re.compile(r"^(.*)_link_from_(\d+)_to_(\d+)$")


class Torus:
    def __init__(self, z, spec):
        self.z, self.dims = z, spec["shape"]
        self.lb, self.lim, self.split = spec["lb"], spec["lim"], spec["pol"] == "D"
        self.n = 1
        self.stride = []
        for d in self.dims:
            self.stride.append(self.n)
            self.n *= d
        self.plus = {}   # (a, b) -> dimension j such that b is the +1 neighbour of a along j
        for a in range(self.n):
            for j, d in enumerate(self.dims):
                if d > 1:
                    c = (a // self.stride[j]) % d
                    b = a - c * self.stride[j] + ((c + 1) % d) * self.stride[j]
                    self.plus[(a, b)] = j
        self.orient = Orient(self.split)
        self.ties = 0
        self.dec = {}

    def hosts(self):
        return ["%sh%d" % (self.z, i) for i in range(self.n)]

    def coord(self, a, j):
        return (a // self.stride[j]) % self.dims[j]

    def decode(self, name):
        """-> ("lim", node) | ("loop", node) | ("edge", base, half, a, b, dimension); memoised per name."""
        z = self.z
        if name.startswith(z + "~lim~"):
            r = ("lim", int(name.rsplit(".i", 1)[1]))
        elif name.startswith(z + "~loop~"):
            r = ("loop", int(name.rsplit(".i", 1)[1]))
        else:
            base, half = strip_half(name)
            m = _T_RE.match(base)
            if not m or m.group(1) != z:
                raise Problem("foreign-link", name)
            a, b = int(m.group(2)), int(m.group(3))
            j = self.plus.get((a, b))
            if j is None:
                raise Problem("not-a-torus-edge", name)
            r = ("edge", base, half, a, b, j)
        self.dec[name] = r
        return r

    def check(self, s, d, links):
        dec = self.dec
        if s == d and self.lb:
            if len(links) != 1 or (dec.get(links[0]) or self.decode(links[0])) != ("loop", s):
                raise Problem("loopback", "self route must be exactly the loopback of node %d" % s)
            return LBLAT
        cur, lims, visits = s, [], [s]
        steps, uses = [], []   # (dimension, sign); (link, half, from, to)
        for name in links:
            t = dec.get(name) or self.decode(name)
            if t[0] == "lim":
                lims.append(t[1])
                continue
            if t[0] == "loop":
                raise Problem("loopback", "loopback link in a route that is not a configured self route")
            _, base, half, a, b, j = t
            if cur == a:
                nxt, sign = b, +1
            elif cur == b:
                nxt, sign = a, -1
            else:
                raise Problem("walk-not-connected", "at node %d, next link %s" % (cur, name))
            if self.dims[j] == 2:
                sign = 0
            uses.append((base, half, cur, nxt))
            steps.append((j, sign))
            cur = nxt
            visits.append(cur)
        if cur != d:
            raise Problem("walk-ends-elsewhere", "ends at node %d" % cur)
        # dimension order, one direction per dimension, shorter way round
        last = -1
        per = collections.OrderedDict()
        for j, sign in steps:
            if j < last:
                raise Problem("dimension-order", "dimension %d corrected after dimension %d" % (j, last))
            last = j
            per.setdefault(j, []).append(sign)
        for j, size in enumerate(self.dims):
            delta = (self.coord(d, j) - self.coord(s, j)) % size
            need = min(delta, size - delta)
            got = per.get(j, [])
            if len(got) != need:
                raise Problem("not-shorter-way", "dimension %d (size %d): %d hops, distance %d" % (j, size, len(got), need))
            if need and size > 2:
                if len(set(got)) != 1:
                    raise Problem("direction-change", "dimension %d walked both ways" % j)
                if delta != size - delta:
                    want = +1 if delta < size - delta else -1
                    if got[0] != want:
                        raise Problem("not-shorter-way", "dimension %d walked the long way round" % j)
                else:
                    self.ties += 1
        self.check_limiters(lims, visits)
        for u in uses:          # direction book-keeping only for routes that are otherwise in order
            self.orient.use(*u)
        return LAT * len(steps)

    def check_limiters(self, lims, visits):
        if not self.lim:
            if lims:
                raise Problem("limiter", "limiter link although none is configured")
            return
        want = collections.Counter(visits)
        got = collections.Counter(lims)
        if want != got:
            raise Problem("limiter", "limiters of nodes %s, walk visits %s" % (sorted(got.elements()), visits))


_F_RE = re.compile(r"^link_from_(-?\d+)_(-?\d+)_(\d+)$")
_XGFT = {}


def xgft(h, m, w):
    """XGFT(h; m; w): level-l labels have digits < w_i for i < l and < m_i for i >= l; a level-l node and a level-(l+1) node
    are joined iff their labels agree everywhere except at digit l. SimGrid numbers leaves by label (digit 0 fastest) and
    switches downwards from 2*leaves-1 in (level, position) order; that numbering is only used to read link names."""
    key = (h, m, w)
    if key in _XGFT:
        return _XGFT[key]
    levels = []
    for l in range(h + 1):
        rad = [w[i] if i < l else m[i] for i in range(h)]
        cnt = 1
        for r in rad:
            cnt *= r
        labs = []
        for pos in range(cnt):
            x, lab = pos, []
            for r in rad:
                lab.append(x % r)
                x //= r
            labs.append(tuple(lab))
        levels.append(labs)
    n = len(levels[0])
    ident, k = {}, 2 * n
    for pos in range(n):
        ident[(0, pos)] = pos
    for l in range(1, h + 1):
        for pos in range(len(levels[l])):
            k -= 1
            ident[(l, pos)] = k
    parents = collections.defaultdict(list)
    for l in range(h):
        for pc, lc in enumerate(levels[l]):
            for pp, lp in enumerate(levels[l + 1]):
                if all(lc[i] == lp[i] for i in range(h) if i != l):
                    parents[(l, pc)].append((l + 1, pp))
    switch_by_id = {ident[node]: node for node in ident if node[0] > 0}
    child_of = {}
    for c, ps in parents.items():
        for p in ps:
            child_of[(ident[c], p)] = c
    # nearest common ancestor level of two leaves, by ancestor sets (no formula)
    anc = {}
    for pos in range(n):
        sets, cur = [frozenset([(0, pos)])], {(0, pos)}
        for l in range(h):
            cur = {p for c in cur for p in parents[c]}
            sets.append(frozenset(cur))
        anc[pos] = sets
    nca = {}
    for a in range(n):
        for b in range(n):
            nca[(a, b)] = next(l for l in range(h + 1) if anc[a][l] & anc[b][l])
    res = (levels, ident, parents, switch_by_id, child_of, nca, n)
    _XGFT[key] = res
    return res


class FatTree:
    def __init__(self, z, spec):
        self.z = z
        self.h, self.m, self.w, self.c = spec["shape"]
        self.lb, self.lim, self.split = spec["lb"], spec["lim"], spec["pol"] == "D"
        (self.levels, self.ident, self.parents, self.switch_by_id, self.child_of, self.nca, self.n) = \
            xgft(self.h, tuple(self.m), tuple(self.w))
        self.orient = Orient(self.split)
        self.ties = 0
        self.dec = {}

    def hosts(self):
        return ["%sh%d" % (self.z, i) for i in range(self.n)]

    def structure(self, zlinks):
        """Every generated link joins a child to one of its XGFT parents, cnt_l parallel links per pair."""
        seen = collections.Counter()
        for name in zlinks:
            if "~" in name:
                continue
            base, half = strip_half(name)
            mm = _F_RE.match(base)
            if not mm:
                raise Problem("foreign-link", name)
            p = self.switch_by_id.get(int(mm.group(2)))
            c = self.child_of.get((int(mm.group(1)), p)) if p else None
            if c is None:
                raise Problem("structure", "link %s joins no child/parent pair of XGFT" % name)
            seen[(c, p, half)] += 1
        halves = ("UP", "DOWN") if self.split else (None,)
        for c, ps in self.parents.items():
            for p in ps:
                for hf in halves:
                    if seen[(c, p, hf)] != self.c[c[0]]:
                        raise Problem("structure", "%d links %s between %s and %s, %d configured" %
                                      (seen[(c, p, hf)], hf, c, p, self.c[c[0]]))

    def decode(self, name):
        """-> ("lim", (level, pos)) | ("loop", leaf) | ("edge", base, half, child, parent); memoised per name."""
        z = self.z
        if name.startswith(z + "~lim~"):
            f = name[len(z) + 5:].split(".")
            r = ("lim", (int(f[0]), int(f[1])))
        elif name.startswith(z + "~loop~"):
            f = name[len(z) + 6:].split(".")
            r = ("loop", int(f[1]))
        elif "~" in name:
            raise Problem("foreign-link", name)
        else:
            base, half = strip_half(name)
            mm = _F_RE.match(base)
            if not mm:
                raise Problem("foreign-link", name)
            p = self.switch_by_id.get(int(mm.group(2)))
            c = self.child_of.get((int(mm.group(1)), p)) if p else None
            if c is None:
                raise Problem("not-a-fat-tree-edge", name)
            r = ("edge", base, half, c, p)
        self.dec[name] = r
        return r

    def check(self, s, d, links):
        dec = self.dec
        if s == d and self.lb:
            if len(links) != 1 or (dec.get(links[0]) or self.decode(links[0])) != ("loop", s):
                raise Problem("loopback", "self route must be exactly the loopback of node %d" % s)
            return LBLAT
        cur, lims, visits = (0, s), [], [(0, s)]
        ups = downs = 0
        uses = []
        for name in links:
            t = dec.get(name) or self.decode(name)
            if t[0] == "lim":
                lims.append(t[1])
                continue
            if t[0] == "loop":
                raise Problem("loopback", "loopback link in a route that is not a configured self route")
            _, base, half, c, p = t
            if cur == c:
                if downs:
                    raise Problem("up-after-down", "climbs again through %s" % name)
                nxt = p
                ups += 1
            elif cur == p:
                nxt = c
                downs += 1
            else:
                raise Problem("walk-not-connected", "at %s, next link %s joins %s-%s" % (cur, name, c, p))
            uses.append((base, half, cur, nxt))
            cur = nxt
            visits.append(cur)
        if cur != (0, d):
            raise Problem("walk-ends-elsewhere", "ends at %s" % (cur,))
        k = self.nca[(s, d)]
        ok = (ups == downs) and (ups == k or (s == d and ups in (0, 1)))
        if not ok:
            raise Problem("not-nearest-common-ancestor", "%d up / %d down, nearest common ancestor at level %d" % (ups, downs, k))
        if len(self.parents[(0, s)]) > 1 or any(x > 1 for x in self.c):
            self.ties += 1 if ups else 0
        if not self.lim:
            if lims:
                raise Problem("limiter", "limiter link although none is configured")
        else:
            if collections.Counter(visits) != collections.Counter(lims):
                raise Problem("limiter", "limiters of %s, walk visits %s" % (sorted(lims), visits))
        for u in uses:
            self.orient.use(*u)
        return LAT * (ups + downs)


_D_LOCAL = re.compile(r"^local_link_from_router_(\d+)_to_node_(\d+)_(\d+)$")
_D_GREEN = re.compile(r"^green_link_in_chassis_(\d+)_between_routers_(\d+)_and_(\d+)_(\d+)$")
_D_BLACK = re.compile(r"^black_link_in_group_(\d+)_between_chassis_(\d+)_and_(\d+)_blade_(\d+)_(\d+)$")
_D_BLUE = re.compile(r"^blue_link_between_group_(\d+)_and_(\d+)_routers_(\d+)_and_(\d+)_(\d+)$")
ROUTER = 4294967295


class Dragonfly:
    """Groups of chassis of routers (blades) of nodes: green = all-to-all inside a chassis, black = same blade position of
    two chassis of a group, blue = one link per pair of groups, attached in group i to "the j-th router of the group" for the
    link towards group j (documentation, Platform_examples.rst). Minimal routing: node, local link, at most one green and
    one black hop inside the source group, exactly one blue hop iff the groups differ, at most one green and one black hop
    inside the destination group, local link, node."""

    def __init__(self, z, spec):
        self.z = z
        self.G, _, self.C, _, self.B, _, self.N = spec["shape"]
        self.lb, self.lim, self.split = spec["lb"], spec["lim"], spec["pol"] == "D"
        self.n = self.G * self.C * self.B * self.N
        self.orient = Orient(self.split)
        self.edge_of = {}    # link base name -> unordered router pair (one name = one cable)
        self.ties = 0
        self.interesting = 0
        self.dec = {}

    def hosts(self):
        return ["%sh%d" % (self.z, i) for i in range(self.n)]

    def node(self, i):
        n = i % self.N
        r = i // self.N
        return self.router(r) + (n,)

    def router(self, r):
        return (r // (self.C * self.B), (r // self.B) % self.C, r % self.B)

    def flat(self, g, c, b):
        return (g * self.C + c) * self.B + b

    def decode(self, name):
        z = self.z
        if name.startswith(z + "~lim~"):
            f = name[len(z) + 5:].split(".")
            g, c, b, n = int(f[0]), int(f[1]), int(f[2]), int(f[3])
            r = ("lim", ("r", g, c, b) if n == ROUTER else ("n", (self.flat(g, c, b)) * self.N + n))
        elif name.startswith(z + "~loop~"):
            r = ("loop", int(name.rsplit(".i", 1)[1]))
        elif "~" in name:
            raise Problem("foreign-link", name)
        else:
            base, half = strip_half(name)
            m = _D_LOCAL.match(base)
            if m:
                r = ("local", base, half, int(m.group(1)), int(m.group(2)))
            else:
                m = _D_GREEN.match(base)
                if m:
                    r = ("green", base, half, int(m.group(1)), int(m.group(2)), int(m.group(3)))
                else:
                    m = _D_BLACK.match(base)
                    if m:
                        r = ("black", base, half) + tuple(int(m.group(i)) for i in (1, 2, 3, 4))
                    else:
                        m = _D_BLUE.match(base)
                        if not m:
                            raise Problem("foreign-link", name)
                        r = ("blue", base, half) + tuple(int(m.group(i)) for i in (1, 2, 3, 4))
        self.dec[name] = r
        return r

    def check(self, s, d, links):
        dec = self.dec
        if s == d and self.lb:
            if len(links) != 1 or (dec.get(links[0]) or self.decode(links[0])) != ("loop", s):
                raise Problem("loopback", "self route must be exactly the loopback of node %d" % s)
            return LBLAT
        sg = self.node(s)[0]
        dg = self.node(d)[0]
        cur = ("n", s)
        lims, visits, hops = [], [("n", s)], []
        nl = 0
        uses, cables = [], []
        for name in links:
            t = dec.get(name) or self.decode(name)
            kind = t[0]
            if kind == "lim":
                lims.append(t[1])
                continue
            if kind == "loop":
                raise Problem("loopback", "loopback link in a route that is not a configured self route")
            base, half = t[1], t[2]
            nl += 1
            if kind == "local":
                r, j = t[3], t[4]
                if r >= self.G * self.C * self.B or j >= self.N:
                    raise Problem("not-a-dragonfly-edge", name)
                nd = ("n", r * self.N + j)
                rt = ("r",) + self.router(r)
                if cur == nd:
                    nxt = rt
                elif cur == rt:
                    nxt = nd
                else:
                    raise Problem("walk-not-connected", "at %s, next link %s" % (cur, name))
                hops.append("local")
            else:
                if cur[0] != "r":
                    raise Problem("walk-not-connected", "at %s, next link %s" % (cur, name))
                _, g, c, b = cur
                if kind == "green":
                    cc, j, k = t[3], t[4], t[5]
                    if cc != c or b not in (j, k) or j == k or max(j, k) >= self.B:
                        raise Problem("walk-not-connected", "at %s, next link %s" % (cur, name))
                    nxt = ("r", g, c, k if b == j else j)
                elif kind == "black":
                    gg, j, k, l = t[3:7]
                    if gg != g or l != b or c not in (j, k) or j == k or max(j, k) >= self.C:
                        raise Problem("walk-not-connected", "at %s, next link %s" % (cur, name))
                    nxt = ("r", g, k if c == j else j, b)
                else:
                    gi, gj, ri, rj = t[3:7]
                    per = self.C * self.B
                    if ri >= self.G * per or rj >= self.G * per or self.router(ri)[0] != gi or self.router(rj)[0] != gj \
                            or ri - gi * per != gj or rj - gj * per != gi:
                        raise Problem("blue-link-misattached",
                                      "%s: link between groups %d and %d must sit on router #%d of group %d and router #%d of "
                                      "group %d" % (name, gi, gj, gj, gi, gi, gj))
                    me = self.flat(g, c, b)
                    if me == ri:
                        nxt = ("r",) + self.router(rj)
                    elif me == rj:
                        nxt = ("r",) + self.router(ri)
                    else:
                        raise Problem("walk-not-connected", "at %s, next link %s" % (cur, name))
                hops.append(kind)
                cables.append((base, frozenset((cur, nxt))))
            uses.append((base, half, cur, nxt))
            cur = nxt
            visits.append(cur)
        if cur != ("n", d):
            raise Problem("walk-ends-elsewhere", "ends at %s" % (cur,))
        if len(hops) < 2 or hops[0] != "local" or hops[-1] != "local" or "local" in hops[1:-1]:
            raise Problem("hierarchy", "hops %s" % hops)
        mid = hops[1:-1]
        nblue = mid.count("blue")
        if sg == dg:
            if nblue:
                raise Problem("hierarchy", "blue hop inside a group: %s" % hops)
            segs = [mid]
        else:
            if nblue != 1:
                raise Problem("hierarchy", "%d blue hops between different groups: %s" % (nblue, hops))
            i = mid.index("blue")
            segs = [mid[:i], mid[i + 1:]]
        for seg in segs:
            if seg.count("green") > 1 or seg.count("black") > 1:
                raise Problem("hierarchy", "more than one green or black hop inside a group: %s" % hops)
        if sg != dg or len(mid) == 2:
            self.interesting += 1
        if not self.lim:
            if lims:
                raise Problem("limiter", "limiter link although none is configured")
        else:
            if collections.Counter(visits) != collections.Counter(lims):
                raise Problem("limiter", "limiters of %s, walk visits %s" % (sorted(lims), visits))
        for base, e in cables:
            if self.edge_of.setdefault(base, e) != e:
                raise Problem("one-name-two-cables", "%s joins %s and %s" % (base, sorted(self.edge_of[base]), sorted(e)))
        for u in uses:
            self.orient.use(*u)
        return LAT * nl


class Star:
    """Source's up links then destination's down links, a link never twice; configured loopback for a self route."""

    def __init__(self, z, spec):
        self.z, self.cfg = z, spec["shape"]
        self.n = len(self.cfg)
        self.lat = {"%sbb" % z: 0.003}
        self.up, self.down = [], []
        for i, (cfg, lo) in enumerate(self.cfg):
            _, u, dn = star_lists(z, i, cfg)
            self.up.append(u)
            self.down.append(dn)
            self.lat["%sp%d_UP" % (z, i)] = self.lat["%sp%d_DOWN" % (z, i)] = 0.001 * (i + 1)
            self.lat["%sq%d" % (z, i)] = 0.0001 * (i + 1)
            self.lat["%slm%d" % (z, i)] = 0.00002
            self.lat["%slo%d" % (z, i)] = 0.0005
        self.ties = 0
        self.dedup = 0

    def hosts(self):
        return ["%sh%d" % (self.z, i) for i in range(self.n)]

    def check(self, s, d, links):
        if s == d and self.cfg[s][1]:
            want = ["%slo%d" % (self.z, s)]
        else:
            want, seen = [], set()
            for x in self.up[s] + self.down[d]:
                if x in seen:
                    self.dedup += 1
                    continue
                seen.add(x)
                want.append(x)
        if links != want:
            raise Problem("star-up-then-down", "expected %s" % " ".join(want))
        return sum(self.lat[x] for x in want)


class Cluster(Star):
    """Flat <cluster>: limiter(A), private(A) up, backbone, private(B) down, limiter(B) (ClusterZone.hpp), star rules."""

    def __init__(self, z, spec):
        self.z = z
        self.n, bb, lb, lim, pol = spec["shape"]
        self.cfg = [(0, lb)] * self.n
        self.up, self.down, self.lat = [], [], {}
        for i in range(self.n):
            base = "%s_link_%d" % (z, i)
            u = ([base + "_limiter"] if lim else []) + [base + "_UP" if pol == "SPLITDUPLEX" else base] + \
                ([z + "_backbone"] if bb else [])
            dn = ([z + "_backbone"] if bb else []) + [base + "_DOWN" if pol == "SPLITDUPLEX" else base] + \
                ([base + "_limiter"] if lim else [])
            self.up.append(u)
            self.down.append(dn)
            for x in (base, base + "_UP", base + "_DOWN"):
                self.lat[x] = 0.001
            self.lat[base + "_limiter"] = 0.0
            self.lat[base + "_loopback"] = 0.0005
        self.lat[z + "_backbone"] = 0.003
        self.ties = self.dedup = 0

    def check(self, s, d, links):
        if s == d and self.cfg[s][1]:
            want = ["%s_link_%d_loopback" % (self.z, s)]
            if links != want:
                raise Problem("loopback", "expected %s" % want[0])
            return 0.0005
        return Star.check(self, s, d, links)


MODELS = {"torus": Torus, "fattree": FatTree, "dragonfly": Dragonfly, "star": Star, "cluster": Cluster}


# ------------------------------------------------------------------------------------------------ running and judging
_UID = re.compile(r"\b(local_link_from_router_\d+_to_node_\d+|green_link_in_chassis_\d+_between_routers_\d+_and_\d+|"
                  r"black_link_in_group_\d+_between_chassis_\d+_and_\d+_blade_\d+|"
                  r"blue_link_between_group_\d+_and_\d+_routers_\d+_and_\d+|link_from_-?\d+_-?\d+)_\d+")


def canon(text, z):
    """Remove what depends on the batch a zone travelled in: its zone name and the process-wide link counters."""
    if text is None:
        return None
    text = _UID.sub(lambda m: m.group(1) + "_#", text)
    return re.sub(r"\b%s(?=[h~_plqb])" % re.escape(z), "Z", text)


def judge_zone(z, spec, res):
    """-> (pairs checked, nontrivial?, problem or None). problem = (rule, pair, detail, observed route)."""
    pairs, nontrivial, prob = judge_zone_raw(z, spec, res)
    if prob:
        rule, pair, detail, links = prob
        prob = (rule, tuple(canon(x, z) for x in pair) if pair else None, canon(detail, z),
                [canon(x, z) for x in links] if links is not None else None)
    return pairs, nontrivial, prob


def judge_zone_raw(z, spec, res):
    model = MODELS[spec["kind"]](z, spec)
    hosts = model.hosts()
    n = len(hosts)
    pairs = 0
    try:
        if spec["kind"] == "fattree":
            model.structure([nm for nm, (_, zz) in res.links.items() if zz == z])
        ans = res.answers(z + "h")
        if ans is None:
            return 0, False, ("no-answer", None, "zone not answered", None)
        names, lines = ans
        if sorted(names) != sorted(hosts) or len(lines) != n * n:
            return 0, False, ("no-answer", None, "%d hosts and %d answers for %d hosts" % (len(names), len(lines), n), None)
        idx = {h: i for i, h in enumerate(hosts)}
        order = [idx[h] for h in names]
        zlinks = res.links
        k = 0
        for si in order:
            for di in order:
                line = lines[k]
                k += 1
                key = (hosts[si], hosts[di])
                lat, links = res.decode(line)
                if lat is None:
                    return pairs, False, ("exception", key, links[:160], None)
                pairs += 1
                try:
                    for l in links:
                        if zlinks[l][1] != z:
                            raise Problem("foreign-link", "%s belongs to zone %s" % (l, zlinks[l][1]))
                    want = model.check(si, di, links)
                    if not rc.close(want, lat):
                        raise Problem("latency", "reported %r, links sum to %r" % (lat, want))
                except Problem as p:
                    return pairs, False, (p.rule, key, p.detail, links)
    except Problem as p:
        return pairs, False, (p.rule, None, p.detail, None)
    nontrivial = (model.ties > 0) or getattr(model, "dedup", 0) > 0 or getattr(model, "interesting", 0) > 0
    return pairs, nontrivial, None


def batch_text(batch, workdir, tag):
    """batch: list of (zone name, spec), all of the same family. -> case text"""
    if batch[0][1]["kind"] == "cluster":
        path = os.path.join(workdir, "%s.xml" % tag)
        open(path, "w").write(cluster_xml(batch))
        lines = ["xml %s" % path, "links"]
    else:
        lines = []
        for z, spec in batch:
            lines += zone_text(z, spec)
        lines.append("links")
    for z, spec in batch:
        lines.append("qall %sh" % z)
    return "\n".join(lines)


def make_batches(named, batch):
    """Pack zones into Engines: up to `batch` zones or ~40000 host pairs each. Dragonfly shapes with more groups than routers
    per chassis are known to be able to kill the process, so they travel alone (scheduling only, no effect on the verdict)."""
    out, cur, load = [], [], 0
    for z, spec in named:
        risky = spec["kind"] == "dragonfly" and shape_class(spec) != "groups<=routers"
        w = nodes_of(spec) ** 2
        if risky:
            out.append([(z, spec)])
            continue
        if cur and (len(cur) >= batch or load + w > 40000 or cur[0][1]["kind"] != spec["kind"]):
            out.append(cur)
            cur, load = [], 0
        cur.append((z, spec))
        load += w
    if cur:
        out.append(cur)
    return out


def run_specs(exe, specs, workdir, tag, batch=None):
    """Run the specs batched; a batch that crashed or failed to build is re-run one spec per Engine. -> [(spec, pairs, nontrivial,
    problem)]"""
    named = [("Z%d" % i, s) for i, s in enumerate(specs)]
    batches = make_batches(named, batch or BATCH)
    cases = [("b%d" % i, batch_text(b, workdir, "%s-b%d" % (tag, i))) for i, b in enumerate(batches)]
    res = rc.run_cases(exe, cases, workdir, tag)
    out, redo = [], []
    for i, b in enumerate(batches):
        r = res["b%d" % i]
        if r.crash or r.builderr or not r.complete:
            if len(b) == 1:
                out.append((b[0][1],) + judge_dead(r))
            else:
                redo += b
        else:
            for z, spec in b:
                out.append((spec,) + judge_zone(z, spec, r))
    if redo:
        cases = [(z, batch_text([(z, spec)], workdir, "%s-%s" % (tag, z))) for z, spec in redo]
        res = rc.run_cases(exe, cases, workdir, tag + "-solo")
        for z, spec in redo:
            r = res[z]
            if r.crash or r.builderr or not r.complete:
                out.append((spec,) + judge_dead(r))
            else:
                out.append((spec,) + judge_zone(z, spec, r))
    for f in os.listdir(workdir):
        if f.startswith(tag + "-") and f.endswith(".xml"):
            os.unlink(os.path.join(workdir, f))
    return out


def judge_dead(r):
    if r.crash:
        return 0, False, ("crash", None, re.sub(r"\s+", " ", r.crash)[:160], None)
    if r.builderr:
        return 0, False, ("build-error", None, r.builderr[:160], None)
    return 0, False, ("no-answer", None, "case output incomplete", None)


def _worker(arg):
    exe, specs, workdir, tag = arg
    res = run_specs(exe, specs, workdir, tag)
    evals = len(res)
    pairs = sum(r[1] for r in res)
    nontriv = sum(1 for r in res if r[2])
    bad = [(r[0], r[3]) for r in res if r[3]]
    sample = None
    for r in res:
        if r[2]:
            sample = shape_str(r[0])
            break
    return evals, pairs, nontriv, bad, sample


def signature(spec, problem):
    rule, pair, detail, observed = problem
    return "%s %s | %s | %s | %s" % (spec["kind"], shape_str(spec), rule, "->".join(pair) if pair else "-",
                                     detail if rule != "crash" else re.sub(r"sig=\d+.*", "died", detail))


def solo(exe, spec, workdir):
    res = run_specs(exe, [spec], workdir, "solo%d" % os.getpid(), batch=1)
    return res[0]


def bounds_for(ctx):
    """Ordered list of (bound name, [specs]); every bound is a complete finite space."""
    q = ctx.quick
    o8 = "x loopback x limiter x {split,shared}"
    b = []
    b.append(("star: 1..%d hosts x 15 per-host route configurations" % (2 if q else 3), specs_for("star", star_shapes(2 if q else 3))))
    b.append(("flat cluster (XML): 1..3 hosts x backbone x loopback x limiter x 3 sharing policies", specs_for("cluster", cluster_shapes(3))))

    def torus(lo, hi, variants, vs):
        sh = [s for s in torus_shapes(hi) if lo < nodes_of({"kind": "torus", "shape": s}) <= hi]
        return ("torus: all shapes with %d < nodes <= %d, <=5 dims, %s" % (lo, hi, vs), specs_for("torus", sh, variants))
    p4 = "x 4 pairwise-covering combinations of loopback/limiter/sharing"
    if q:
        b.append(("dragonfly: groups,chassis,routers,nodes in 1..3 (<=32 nodes), " + o8,
                  [s for s in specs_for("dragonfly", dragonfly_shapes(3, (1,))) if nodes_of(s) <= 32]))
        b.append(torus(0, 16, ALL8, o8))
        b.append(("fat tree: <=2 levels, down/up/count in {1,2,3}, " + o8, specs_for("fattree", fattree_shapes(2, (1, 2, 3), 64))))
        b.append(("fat tree: 3 levels, down/up/count in {1,2}, " + p4,
                  specs_for("fattree", [s for s in fattree_shapes(3, (1, 2), 64) if s[0] == 3], PAIRWISE4)))
        b.append(torus(16, 32, TWO, "x {plain split-duplex, loopback+limiter shared}"))
    else:
        b.append(("dragonfly: groups,chassis,routers,nodes in 1..3, " + o8, specs_for("dragonfly", dragonfly_shapes(3, (1,)))))
        b.append(("dragonfly: groups,chassis,routers,nodes in 1..3, link multiplicities in {1,2}^3 (plain split-duplex zones)",
                  specs_for("dragonfly", [s for s in dragonfly_shapes(3, (1, 2)) if (s[1], s[3], s[5]) != (1, 1, 1)], [(0, 0, "D")])))
        b.append(torus(0, 16, ALL8, o8))
        b.append(torus(16, 32, ALL8, o8))
        b.append(("fat tree: <=2 levels, down/up/count in {1,2,3}, " + o8, specs_for("fattree", fattree_shapes(2, (1, 2, 3), 64))))
        b.append(("fat tree: 3 levels, down/up/count in {1,2}, " + o8,
                  specs_for("fattree", [s for s in fattree_shapes(3, (1, 2), 64) if s[0] == 3])))
        b.append(torus(32, 48, PAIRWISE4, p4))
        b.append(torus(48, 64, PAIRWISE4, p4))
        f3 = [s for s in fattree_shapes(3, (1, 2, 3), 64) if s[0] == 3 and max(s[1] + s[2] + s[3]) == 3]
        for lo, hi in ((0, 8), (8, 12), (12, 18), (18, 27)):
            sh = [s for s in f3 if lo < nodes_of({"kind": "fattree", "shape": s}) <= hi]
            b.append(("fat tree: 3 levels, down/up/count in {1,2,3} (some 3), %d < leaves <= %d, x {plain split-duplex, "
                      "loopback+limiter shared}" % (lo, hi), specs_for("fattree", sh, TWO)))
    return b


def run(ctx):
    exe = rc.harness()
    work = common.tmpdir("c26")
    evals = pairs = nontriv = 0
    bad, samples, done, skipped = [], [], [], []
    exhaustive = True
    # the budget counts exploration time: Ctx's clock started before bin/check (re)built libsimgrid
    deadline = common.Deadline(float(os.environ.get("VERIF_BUDGET_S") or (150 if ctx.quick else 1200)))
    import random, time, concurrent.futures as cf
    pool = cf.ProcessPoolExecutor(max_workers=common.NCPU)   # one pool for all bounds: fresh processes are expensive here
    for name, specs in bounds_for(ctx):
        if done and (deadline.over() or deadline.left() < 15):      # the first bound always runs
            exhaustive = False
            skipped.append(name)
            continue
        t0 = time.time()
        # shards balanced by work (host pairs); VERIF_SEED only changes which shard runs first
        specs = sorted(specs, key=lambda s: -nodes_of(s) ** 2)
        work_units = sum(nodes_of(s) ** 2 for s in specs)
        nsh = max(1, min(common.NCPU * 3, work_units // 4000, len(specs)))
        sh = [specs[i::nsh] for i in range(nsh)]
        random.Random(ctx.seed).shuffle(sh)
        args = [(exe, x, work, "s%d" % i) for i, x in enumerate(sh)]
        for e, p, n, b, smp in pool.map(_worker, args):
            evals += e
            pairs += p
            nontriv += n
            bad += b
            if smp and len(samples) < 12:
                samples.append(smp)
        done.append({"bound": name, "zones": len(specs), "wall_s": round(time.time() - t0, 1)})
        common.log("C26 bound done: %s (%d zones, %.1fs)" % (name, len(specs), done[-1]["wall_s"]))
    pool.shutdown()
    # one violation per (kind, rule, structural class): the smallest failing shape is the representative
    groups = {}
    for spec, prob in bad:
        groups.setdefault((spec["kind"], prob[0], shape_class(spec)), []).append((spec, prob))
    violations = []
    for (kind, rule, cls), items in sorted(groups.items()):
        items.sort(key=lambda it: (nodes_of(it[0]), shape_str(it[0])))
        spec, prob = items[0]
        key = "C26 %s rule=%s class=%s min=[%s]" % (kind, rule, cls, shape_str(spec))
        what = "%s%s: %s (route: %s); %d shape(s) of this class fail this rule" % (
            rule, " on pair %s->%s" % prob[1] if prob[1] else "", prob[2], " ".join(prob[3]) if prob[3] else "-", len(items))
        violations.append(common.Violation(key, what, {"spec": spec, "signature": signature(spec, prob),
                                                        "others": [shape_str(s) for s, _ in items[1:40]]}))

    def rerun(case):
        spec = case["spec"]
        spec = dict(spec, shape=_tuplify(spec["shape"]))
        r = solo(exe, spec, work)
        return signature(spec, r[3]) if r[3] else None
    violations = rc.confirm(ctx, violations, rerun)
    shutil.rmtree(work, ignore_errors=True)
    if nontriv < 2 and not violations:
        common.log("C26: vacuous run (%d non-trivial zones)" % nontriv)
        sys.exit(2)
    cov = {"evaluations": evals, "distinct_nontrivial": nontriv,
           "rule": "one evaluation = one zone (shape x loopback x limiter x sharing policy) with all ordered host pairs routed and "
                   "judged; every zone of a bound is distinct by construction; non-trivial = the discipline left a choice or a "
                   "collision really happened in that zone: a torus pair at distance size/2 in some dimension (tie), a fat-tree "
                   "route with several parents or parallel cables to choose from, a dragonfly route that crosses groups or needs "
                   "both a green and a black hop, a star/cluster route where a link occurred in both lists and had to be dropped",
           "samples": samples, "exhaustive": exhaustive, "host_pairs_judged": pairs, "bounds_completed": done,
           "bounds_not_started": skipped, "failing_zones": len(bad)}
    assumptions = ["link names encode their end points as generated by SimGrid (torus <zone>_link_from_a_to_b, fat tree "
                   "link_from_child_parent_n, dragonfly local/green/black/blue names); torus node id = sum coord_j*prod_{i<j} dims_i; "
                   "fat-tree leaf i carries the mixed-radix label of i (digit 0 fastest), switches numbered down from 2*leaves-1",
                   "order of limiter links inside a route is not judged (only which nodes' limiters appear, once per visit)",
                   "a self route without configured loopback may climb to a level-1 switch (fat tree) or stay empty (torus)"]
    common.finish(ctx, "exploration", cov, assumptions, violations, engine="E6 routex")


def _tuplify(x):
    return tuple(_tuplify(i) for i in x) if isinstance(x, list) else x


def replay(ctx, case):
    exe = rc.harness()
    work = common.tmpdir("c26r")
    c = case["case"]
    spec = dict(c["spec"], shape=_tuplify(c["spec"]["shape"]))
    print("replaying %s %s" % (spec["kind"], shape_str(spec)))
    print("--- case text\n" + batch_text([("Z0", spec)], work, "replay"))
    r = solo(exe, spec, work)
    shutil.rmtree(work, ignore_errors=True)
    if r[3]:
        print("observed: " + signature(spec, r[3]))
        if r[3][3]:
            print("route: " + " ".join(r[3][3]))
        print("recorded: " + c["signature"])
        return 1
    print("no violation on replay (%d pairs judged)" % r[1])
    return 0
