"""C42 Happens-before equals transitive dependency: every complete execution (hence every prefix: the structure is
incremental) of every small program is pushed, transition by transition, into the checker's own odpor::Execution; its
happens_before() must equal the transitive closure of the pairwise dependency over 'occurs before', and
get_racing_events_of() its set-theoretic definition."""
import time
import common, vxlib, synccheck, mcprogs

def bounds(ctx):
    f = mcprogs.family
    b = [("misc", mcprogs.misc()), ("mutex", f("c04", ["plain-A2K3"])), ("mutex3", f("c04", ["plain-A3K2"])), ("sem", f("c05", ["c0-A2K2-acqt", "c1-A3K2"])),
         ("condvar", f("c06", ["A2K2"])), ("barrier", f("c07", ["n2-A1to4"])), ("mbox", f("c08", ["basic-A2K2"]))]
    if not ctx.quick:
        b += [("mutex-rec", f("c04", ["rec-A2K3", "rec-A3K2"])), ("condvar3", f("c06", ["A3K1", "A3K2-nofor"])), ("mbox-filter", f("c08", ["filter-A2K2", "perm-A2K2", "twobox-A2K2"])),
              ("mbox-any", f("c08", ["any-A2K2", "basic-A3K1"])), ("barrier34", f("c07", ["n3-A1to4", "n4-A1to4"])), ("sem3", f("c05", ["c0-A3K2", "c2-A3K2"]))]
    return b

def run(ctx):
    maxexec = 1500 if ctx.quick else 20000
    tot = dict(programs=0, executions=0, hb_pairs=0, race_sets=0, capped=0, crashed=0, maxlen=0, nontrivial=0)
    completed, violations, samples = [], {}, []
    exhaustive = True
    for name, gen in bounds(ctx):
        if ctx.deadline.left() < 15:
            exhaustive = False
            break
        t0 = time.time()
        progs = [("%s-%d" % (name, i), p) for i, p in enumerate(gen()) if not p.get("mq")]
        res = vxlib.run_classes(progs, "c42" + name, maxexec=maxexec, deadline=ctx.deadline.end)
        done = 0
        for pid, p in progs:
            r = res.get(pid)
            if r is None or r["status"] == "SKIP":
                exhaustive = False
                continue
            if r["status"] != "OK":
                tot["crashed"] += 1   # the checker's own structures (deserialize_transition, Execution::push_transition) died on a legal execution
                key = "C42 crash uses=%s" % mcprogs.features(p)
                violations.setdefault(key, common.Violation(key, "crash while pushing a legal execution into odpor::Execution: %s -- program: %s" % ("; ".join(r["errors"])[:200], synccheck.compact(p)), dict(program=p, kind="crash")))
                continue
            done += 1
            tot["programs"] += 1; tot["executions"] += r["nexec"]; tot["hb_pairs"] += r["hb_pairs"]; tot["race_sets"] += r["race_sets"]; tot["maxlen"] = max(tot["maxlen"], r["maxlen"])
            if r["nclasses"] >= 2:
                tot["nontrivial"] += 1
            if not r["complete"]:
                tot["capped"] += 1
            for kind, n in (("happens_before", r["hb_bad"]), ("racing_events", r["race_bad"]), ("asymmetric-dependency", r["asym"])):
                if n:
                    ops = mcprogs.features(p)
                    key = "C42 %s uses=%s" % (kind, ops)
                    note = next((x for x in r["notes"] if x.startswith(kind.split("-")[0][:6]) or kind[:6] in x), r["notes"][0] if r["notes"] else "")
                    violations.setdefault(key, common.Violation(key, "%d mismatches, e.g. %s -- program: %s" % (n, note, synccheck.compact(p)), dict(program=p, kind=kind)))
        if len(samples) < 4 and progs:
            r = res.get(progs[0][0], {})
            samples.append(dict(bound=name, program=synccheck.compact(progs[0][1]), executions=r.get("nexec"), classes=r.get("nclasses"), hb_pairs=r.get("hb_pairs")))
        completed.append(dict(bound=name, programs=done, of=len(progs), wall_s=round(time.time() - t0, 1)))
        common.log("C42 bound %s: %d/%d programs %.0fs violations %d" % (name, done, len(progs), time.time() - t0, len(violations)))
    if tot["programs"] < 2 or tot["nontrivial"] < 2:
        common.log("vacuous run"); raise SystemExit(2)
    cov = dict(evaluations=tot["executions"], distinct_nontrivial=tot["nontrivial"], programs=tot["programs"], happens_before_pairs_compared=tot["hb_pairs"],
               racing_event_sets_compared=tot["race_sets"], longest_execution=tot["maxlen"], programs_capped_at_max_executions=tot["capped"], max_executions_per_program=maxexec,
               programs_where_the_kernel_crashed=tot["crashed"],
               rule="every complete execution (no reduction, enumerated by re-execution) of every program of the bound; non-trivial = programs with >=2 Mazurkiewicz classes",
               bounds_completed=completed, samples=samples, exhaustive=exhaustive and tot["capped"] == 0)
    common.finish(ctx, "exploration", cov, ["transitions are the checker's own objects (observer serialised, deserialize_transition) and dependency is its own dispatch_depends",
                  "message-queue programs are excluded (their transitions cannot be decoded, see C43)"], list(violations.values()), engine="E1 vx + E9")

def replay(ctx, case):
    c = case["case"]
    r = vxlib.run_classes([("x", c["program"])], "c42r", maxexec=20000)["x"]
    print("program:", synccheck.compact(c["program"])); print(r["nexec"], "executions;", "hb mismatches", r["hb_bad"], "race mismatches", r["race_bad"], "asym", r["asym"])
    for n in r["notes"]:
        print("  ", n)
    print("status", r["status"], r["errors"])
    return 1 if (r["hb_bad"] or r["race_bad"] or r["asym"] or r["status"] != "OK") else 0
