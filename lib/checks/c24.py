"""C24 — hierarchical routes are composed correctly (engine E6 routex, level exploration).

Platforms of nested zones are generated from a small description (zones, hosts, routers, gateways, links, route and bypass
declarations), built through the C++ platform API, and Host::route_to is asked for every ordered pair of hosts. The same
description is interpreted by a reference written from the statement: climb from both ends to the lowest common ancestor,
take the route declared there between the two children (or a declared bypass), and recursively join each end to the gateway
that route names; latency = sum of link latencies + the coordinate term of every Vivaldi zone crossed; a symmetrical
declaration is used reversed (links in opposite order, split-duplex halves swapped, gateways swapped) the other way round.
Local routes of the reference: Full = the declared list; Floyd/Dijkstra = the unique fewest-links chain (platforms are
generated without ties); Star/Vivaldi = up links of src then down links of dst without repetition; Wifi = the medium once
per station. Cluster zones (torus, fat tree, dragonfly) appear as roots whose leaves are star zones; their inner walk is
judged by the C26 topology models.
"""
import os, sys, math, itertools, shutil, time, random, re
import common
import route_common as rc
try:
    from checks import c26
except ImportError:      # development: lib/checks on sys.path
    import c26

NEEDS_SIMGRID = True
PLATFORMS_PER_SHARD = 60


# ------------------------------------------------------------------------------------------------ platform description
class Platform:
    def __init__(self, label):
        self.label = label
        self.zones = {}       # name -> dict(kind, parent, hosts, routers, children, gw, coords, ap, params)
        self.order = []       # zone creation order
        self.links = {}       # name -> (latency, policy, zone)
        self.routes = {}      # zone -> [dict(src, dst, sym, links=[(name, dir)], gw_src, gw_dst)]
        self.bypass = {}      # zone -> [dict(src, dst, gw_src, gw_dst, links)]
        self.coords = {}      # netpoint name -> (x, y, z)
        self.where = {}       # netpoint name -> zone it lives in
        self.cluster = None   # (zone name, c26 spec, leafn) for cluster-rooted platforms

    def zone(self, name, kind, parent=None, **kw):
        self.zones[name] = dict(kind=kind, parent=parent, hosts=[], routers=[], children=[], gw=None, ap=None, params=kw)
        self.order.append(name)
        self.routes[name] = []
        self.bypass[name] = []
        if parent:
            self.zones[parent]["children"].append(name)
            self.where[name] = parent
        return name

    def host(self, z, name, coords=None):
        self.zones[z]["hosts"].append(name)
        self.where[name] = z
        if coords:
            self.coords[name] = coords
        return name

    def router(self, z, name, coords=None):
        self.zones[z]["routers"].append(name)
        self.where[name] = z
        if coords:
            self.coords[name] = coords
        return name

    def link(self, z, name, lat, pol="S"):
        self.links[name] = (lat, pol, z)
        return name

    def route(self, z, src, dst, sym, links, gw_src=None, gw_dst=None):
        self.routes[z].append(dict(src=src, dst=dst, sym=sym, links=list(links), gw_src=gw_src, gw_dst=gw_dst))

    def all_hosts(self):
        return [h for z in self.order for h in self.zones[z]["hosts"]]

    # ---- harness text; px prefixes every name so that several platforms can live in one Engine
    def text(self, px=""):
        if self.cluster:
            z, spec, leafn = self.cluster
            line = c26.zone_text(px + z, spec)[0] + " leaf=zone leafn=%d" % leafn
            return "\n".join([line, "qall %s%sz noself" % (px, z)])
        n = lambda x: px + x
        out = []
        for z in self.order:
            d = self.zones[z]
            extra = " ap=%s" % n(d["ap"]) if d["ap"] else ""
            out.append("zone %s %s %s%s" % (n(z), n(d["parent"]) if d["parent"] else "-", d["kind"], extra))
            for h in d["hosts"]:
                out.append("host %s %s%s" % (n(z), n(h), " %s,%s,%s" % self.coords[h] if h in self.coords else ""))
            for r in d["routers"]:
                out.append("router %s %s%s" % (n(z), n(r), " %s,%s,%s" % self.coords[r] if r in self.coords else ""))
            if z in self.coords:
                out.append("zcoord %s %s,%s,%s" % ((n(z),) + self.coords[z]))
        for name, (lat, pol, z) in self.links.items():
            out.append("link %s %s %r %s" % (n(z), n(name), lat, pol))
        for z in self.order:
            if self.zones[z]["gw"]:
                out.append("gw %s %s" % (n(z), n(self.zones[z]["gw"])))
        ll = lambda links: ",".join(n(a) + (":" + d if d else "") for a, d in links)
        for z in reversed(self.order):          # children first: NetZone::add_route reads the children's gateways
            for r in self.routes[z]:
                if r["gw_src"] or r["gw_dst"]:
                    out.append("groute %s %s %s %s %s %d %s" % (n(z), n(r["src"]), n(r["dst"]), n(r["gw_src"]), n(r["gw_dst"]), r["sym"],
                                                               ll(r["links"])))
                else:
                    out.append("route %s %s %s %d %s" % (n(z), n(r["src"]) if r["src"] else "*", n(r["dst"]) if r["dst"] else "*",
                                                        r["sym"], ll(r["links"])))
            for b in self.bypass[z]:
                out.append("bypass %s %s %s %s %s %s" % (n(z), n(b["src"]), n(b["dst"]), n(b["gw_src"]) if b["gw_src"] else "-",
                                                        n(b["gw_dst"]) if b["gw_dst"] else "-", ll(b["links"])))
        out += ["qall %sh noself" % px]
        return "\n".join(out)


# ------------------------------------------------------------------------------------------------ reference
class Unroutable(Exception):
    pass


def phys(name, d, back=False):
    """Name of the link actually crossed: a split-duplex link gives its UP/DOWN half (swapped on the way back)."""
    if not d:
        return name
    up = (d == "U") != back
    return name + ("_UP" if up else "_DOWN")


class Reference:
    def __init__(self, P):
        self.P = P
        self.lat = {}
        for name, (lat, pol, z) in P.links.items():
            if pol == "D":
                self.lat[name + "_UP"] = self.lat[name + "_DOWN"] = lat
            else:
                self.lat[name] = lat
        self.tables = {z: self.compile(z) for z in P.order}

    def gw_of(self, np):
        return self.P.zones[np]["gw"] if np in self.P.zones else None

    def compile(self, z):
        P, kind = self.P, self.P.zones[z]["kind"]
        arcs = {}     # (src, dst) -> (links, gw_src, gw_dst)
        up, down, loop, gws = {}, {}, {}, {}
        for r in P.routes[z]:
            fw = [phys(n, d) for n, d in r["links"]]
            bw = [phys(n, d, True) for n, d in reversed(r["links"])]
            gs = r["gw_src"] or (self.gw_of(r["src"]) if r["src"] else None)
            gd = r["gw_dst"] or (self.gw_of(r["dst"]) if r["dst"] else None)
            if kind in ("star", "vivaldi"):
                if r["src"] and r["src"] == r["dst"]:
                    loop[r["src"]] = fw
                elif r["src"]:
                    up[r["src"]] = fw
                    gws[r["src"]] = gs
                    if r["sym"]:
                        down[r["src"]] = bw
                else:
                    down[r["dst"]] = fw
                    gws[r["dst"]] = gd
            else:
                arcs[(r["src"], r["dst"])] = (fw, gs, gd)
                if r["sym"]:
                    arcs[(r["dst"], r["src"])] = (bw, gd, gs)
        return dict(arcs=arcs, up=up, down=down, loop=loop, gws=gws)

    def vivaldi_term(self, a, b):
        ca, cb = self.P.coords[a], self.P.coords[b]
        return (math.sqrt((ca[0] - cb[0]) ** 2 + (ca[1] - cb[1]) ** 2) + abs(ca[2]) + abs(cb[2])) / 1000.0

    def local(self, z, a, b):
        """-> (links, gw_src, gw_dst, extra latency) of the zone's own route between two of its components."""
        kind, t = self.P.zones[z]["kind"], self.tables[z]
        if kind == "full":
            if (a, b) not in t["arcs"]:
                raise Unroutable("no route declared in %s from %s to %s" % (z, a, b))
            l, gs, gd = t["arcs"][(a, b)]
            return list(l), gs, gd, 0.0
        if kind in ("floyd", "dijkstra", "dijkstracache"):
            comps = self.P.zones[z]["hosts"] + self.P.zones[z]["routers"] + self.P.zones[z]["children"]
            INF = float("inf")
            dist = {c: (INF, 0) for c in comps}
            dist[a] = (0, 0)
            pred = {}
            ties = set()
            for _ in comps:
                for (x, y), (l, gs, gd) in t["arcs"].items():
                    c = dist[x][0] + len(l)
                    if c < dist[y][0]:
                        dist[y] = (c, 0)
                        pred[y] = x
                        ties.discard(y)
                    elif c == dist[y][0] and c < INF and pred.get(y) != x and y != a:
                        ties.add(y)
            if dist[b][0] == INF:
                raise Unroutable("no path in %s from %s to %s" % (z, a, b))
            chain, v = [], b
            while v != a:
                if v in ties:
                    raise Unroutable("tie in generated platform (generator bug): %s %s->%s" % (z, a, b))
                chain.append((pred[v], v))
                v = pred[v]
            chain.reverse()
            links, extra = [], 0.0
            prev_gd = None
            for i, arc in enumerate(chain):
                l, gs, gd = t["arcs"][arc]
                if prev_gd is not None and gs is not None and prev_gd != gs:
                    ll, ee = self.route(prev_gd, gs, False)     # cross the intermediate zone from its entry to its exit gateway
                    links += ll
                    extra += ee
                links += l
                prev_gd = gd
            return links, t["arcs"][chain[0]][1], t["arcs"][chain[-1]][2], extra
        if kind in ("star", "vivaldi"):
            if a == b and a in t["loop"]:
                return list(t["loop"][a]), None, None, 0.0
            links, seen = [], set()
            for x in t["up"].get(a, []) + t["down"].get(b, []):
                if x not in seen:
                    seen.add(x)
                    links.append(x)
            extra = self.vivaldi_term(a, b) if kind == "vivaldi" else 0.0
            return links, t["gws"].get(a) or self.gw_of(a), t["gws"].get(b) or self.gw_of(b), extra
        if kind == "wifi":
            ap = self.P.zones[z]["ap"]
            w = [n for n, (_, pol, zz) in self.P.links.items() if zz == z and pol == "W"][0]
            return ([w] if a != ap else []) + ([w] if b != ap else []), None, None, 0.0
        if kind == "empty":
            raise Unroutable("empty zone %s cannot route %s -> %s" % (z, a, b))
        raise ValueError(kind)

    def chain_up(self, np):
        """Zones from the one holding np up to the root."""
        out, z = [], self.P.where[np]
        while z:
            out.append(z)
            z = self.P.zones[z]["parent"]
        return out

    def route(self, s, d, bypass=True):
        """-> (links, extra latency) from netpoint s to netpoint d (hosts or routers), by the statement. A declared bypass
        replaces the route of the pair that is asked for (and of the two ends of a bypass, which are routed like a fresh
        pair); the segments that join an end point to a gateway of a regular route do not look for bypasses."""
        P = self.P
        cs, cd = self.chain_up(s), self.chain_up(d)
        ca = next(z for z in cs if z in cd)
        sa = s if cs[0] == ca else cs[cs.index(ca) - 1]     # the child of ca that holds s (or s itself)
        da = d if cd[0] == ca else cd[cd.index(ca) - 1]
        # a declared bypass of the common ancestor wins (declared between the two children, or between two of its hosts)
        for b in (P.bypass[ca] if bypass else ()):
            if (b["src"], b["dst"]) == (sa, da):
                links, extra = [], 0.0
                if sa != s and s != b["gw_src"]:
                    l, e = self.route(s, b["gw_src"])
                    links += l
                    extra += e
                links += [phys(n, dd) for n, dd in b["links"]]
                if da != d and d != b["gw_dst"]:
                    l, e = self.route(b["gw_dst"], d)
                    links += l
                    extra += e
                return links, extra
        mid, gs, gd, extra = self.local(ca, sa, da)
        links = []
        if sa != s:
            if gs is None:
                raise Unroutable("no gateway for %s in %s" % (sa, ca))
            if gs != s:
                l, e = self.route(s, gs, False)
                links += l
                extra += e
        links += mid
        if da != d:
            if gd is None:
                raise Unroutable("no gateway for %s in %s" % (da, ca))
            if gd != d:
                l, e = self.route(gd, d, False)
                links += l
                extra += e
        return links, extra

    def latency(self, links, extra):
        return sum(self.lat[x] for x in links) + extra


# ------------------------------------------------------------------------------------------------ generators
INNER = ("full", "floyd", "dijkstra", "dijkstracache", "star", "vivaldi")
LEAF = ("full", "floyd", "dijkstra", "dijkstracache", "star", "vivaldi", "wifi", "cluster")
_COORD = [(0, 0, 0), (30, 40, 1), (-60, 80, 2), (5, 12, 0.5), (100, 0, 3), (7, 24, 0), (-9, 40, 1.5), (20, 21, 2.5), (11, 60, 0.25)]


class Gen:
    """Deterministic naming: hosts h<n>, routers r<n>, zones Z<n>, links l<n>; latencies all distinct."""

    def __init__(self, label):
        self.P = Platform(label)
        self.nh = self.nr = self.nz = self.nl = self.nc = 0

    def coord(self):
        self.nc += 1
        return _COORD[self.nc % len(_COORD)]

    def newlink(self, z, pol="S"):
        self.nl += 1
        return self.P.link(z, "l%d" % self.nl, round(0.001 * self.nl + 0.0001, 6), pol)

    def leaf(self, parent, kind, nhosts, gwtype, multi, vcoord):
        """A leaf zone with nhosts hosts; gateway = first host ('h') or a router ('r'). multi: 2-link symmetric routes with a
        split-duplex link where the kind allows. -> zone name"""
        P = self.P
        self.nz += 1
        real = "star" if kind == "cluster" else kind
        z = P.zone("Z%d" % self.nz, real, parent)
        if vcoord:
            P.coords[z] = self.coord()
        hosts = []
        for _ in range(nhosts):
            self.nh += 1
            hosts.append(P.host(z, "h%d" % self.nh, self.coord() if kind == "vivaldi" else None))
        if kind == "wifi":
            self.nr += 1
            ap = P.router(z, "r%d" % self.nr)
            P.zones[z]["ap"] = ap
            P.zones[z]["gw"] = ap
            self.nl += 1
            P.link(z, "l%d" % self.nl, 0.0, "W")
            return z
        comps = list(hosts)
        if gwtype == "r":
            self.nr += 1
            gw = P.router(z, "r%d" % self.nr, self.coord() if kind == "vivaldi" else None)
            comps.append(gw)
        else:
            gw = hosts[0]
        P.zones[z]["gw"] = gw
        if kind in ("star", "vivaldi"):
            for c in comps:
                l = self.newlink(z, "D")
                P.route(z, c, None, 1, [(l, "U")])
        elif kind == "cluster":
            bb = self.newlink(z, "F")
            for h in hosts:
                l = self.newlink(z, "D")
                P.route(z, h, None, 1, [(l, "U"), (bb, "")])
            # the cluster's router has no private link: it sits on the backbone
        elif kind == "full":
            for i, a in enumerate(comps):
                for b in comps[i + 1:]:
                    if multi:
                        P.route(z, a, b, 1, [(self.newlink(z, "D"), "U"), (self.newlink(z), "")])
                    else:
                        P.route(z, a, b, 0, [(self.newlink(z), "")])
                        P.route(z, b, a, 0, [(self.newlink(z), "")])
        else:   # floyd / dijkstra(cache): a line c0 - c1 - c2, so that the ends are joined by a chain
            many = multi and kind == "floyd"        # multi-link hops in Dijkstra zones are C25's business (finding C25 #2)
            for a, b in zip(comps, comps[1:]):
                if many:
                    P.route(z, a, b, 1, [(self.newlink(z, "D"), "U"), (self.newlink(z), "")])
                else:
                    P.route(z, a, b, 1, [(self.newlink(z), "")])
        return z

    def connect(self, z, kind, comps, sym, multi):
        """Declare the routes of inner zone z between its child zones `comps` (default gateways)."""
        P = self.P
        if kind in ("star", "vivaldi"):
            for c in comps:
                if multi:
                    P.route(z, c, None, 1, [(self.newlink(z, "D"), "U"), (self.newlink(z), "")])
                elif sym:
                    P.route(z, c, None, 1, [(self.newlink(z, "D"), "U")])
                else:
                    P.route(z, c, None, 0, [(self.newlink(z), "")])
                    P.route(z, None, c, 0, [(self.newlink(z), "")])
            return
        pairs = list(zip(comps, comps[1:])) if kind != "full" else [(a, b) for i, a in enumerate(comps) for b in comps[i + 1:]]
        many = multi and kind in ("full", "floyd")
        for a, b in pairs:
            if sym:
                P.route(z, a, b, 1, [(self.newlink(z, "D"), "U"), (self.newlink(z), "")] if many else [(self.newlink(z, "D"), "U")])
            else:
                P.route(z, a, b, 0, [(self.newlink(z), ""), (self.newlink(z), "")] if many else [(self.newlink(z), "")])
                P.route(z, b, a, 0, [(self.newlink(z), "")])


def gen_depth1():
    out = []
    for kind in LEAF:
        for n in (2, 3):
            for gwtype in ("h", "r"):
                for multi in (0, 1):
                    g = Gen("d1 %s hosts=%d gw=%s multi=%d" % (kind, n, gwtype, multi))
                    g.leaf(None, kind, n, gwtype, multi, False)
                    out.append(g.P)
    return out


def gen_depth2(leaf_pairs, inner_kinds=INNER, opts=None):
    out = []
    for ik in inner_kinds:
        for lk1, lk2 in leaf_pairs:
            for sym, multi, gwtype, bypass in (opts or itertools.product((1, 0), (0, 1), ("h", "r"), ("-", "zone", "host"))):
                if multi and not sym and ik in ("star", "vivaldi"):
                    continue
                g = Gen("d2 %s(%s,%s) sym=%d multi=%d gw=%s bypass=%s" % (ik, lk1, lk2, sym, multi, gwtype, bypass))
                P = g.P
                root = P.zone("Z0", ik)
                viv = ik == "vivaldi"
                a = g.leaf(root, lk1, 2, gwtype, multi, viv)
                b = g.leaf(root, lk2, 2, gwtype, multi, viv)
                g.connect(root, ik, [a, b], sym, multi)
                if bypass == "zone":      # one direction only: the way back uses the declared route
                    P.bypass[root].append(dict(src=a, dst=b, gw_src=P.zones[a]["gw"], gw_dst=P.zones[b]["gw"],
                                               links=[(g.newlink(root), "")]))
                elif bypass == "host":    # inside the first leaf, between its two hosts
                    ha, hb = P.zones[a]["hosts"][:2]
                    P.bypass[a].append(dict(src=ha, dst=hb, gw_src=None, gw_dst=None, links=[(g.newlink(root), "")]))
                out.append(P)
    return out


def gen_star_with_host():
    """Star / Vivaldi inner zones may hold a host of their own next to sub-zones."""
    out = []
    for ik in ("star", "vivaldi"):
        for lk in LEAF:
            for sym in (1, 0):
                g = Gen("d2h %s(host,%s) sym=%d" % (ik, lk, sym))
                P = g.P
                root = P.zone("Z0", ik)
                g.nh += 1
                h = P.host(root, "h%d" % g.nh, g.coord() if ik == "vivaldi" else None)
                a = g.leaf(root, lk, 2, "h", 0, ik == "vivaldi")
                g.connect(root, ik, [h, a], sym, 0)
                out.append(P)
    return out


def gen_empty_root():
    out = []
    for lk1, lk2 in itertools.product(("full", "star", "floyd"), repeat=2):
        g = Gen("d2 empty(%s,%s) bypass both ways" % (lk1, lk2))
        P = g.P
        root = P.zone("Z0", "empty")
        a = g.leaf(root, lk1, 2, "h", 0, False)
        b = g.leaf(root, lk2, 2, "r", 0, False)
        P.bypass[root].append(dict(src=a, dst=b, gw_src=P.zones[a]["gw"], gw_dst=P.zones[b]["gw"], links=[(g.newlink(root), "")]))
        P.bypass[root].append(dict(src=b, dst=a, gw_src=P.zones[b]["gw"], gw_dst=P.zones[a]["gw"], links=[(g.newlink(root), "")]))
        out.append(P)
    return out


def gen_depth3(leaf_kinds, inner_pairs, variants):
    """root(ik1) -> { I(ik2) -> {L1, L2}, L3 }; variants: (sym, multi, nested gateway of I, three children in a line)."""
    out = []
    for ik1, ik2 in inner_pairs:
        for lk in leaf_kinds:
            for sym, multi, nested, gwtype in variants:
                if multi and not sym and ("star" in (ik1, ik2) or "vivaldi" in (ik1, ik2)):
                    continue
                g = Gen("d3 %s(%s(%s,%s),%s) sym=%d multi=%d nestedgw=%d gw=%s" % (ik1, ik2, lk, lk, lk, sym, multi, nested, gwtype))
                P = g.P
                root = P.zone("Z0", ik1)
                g.nz += 1
                inner = P.zone("Z%d" % g.nz, ik2, root)
                if ik1 == "vivaldi":
                    P.coords[inner] = g.coord()
                l1 = g.leaf(inner, lk, 2, gwtype, multi, ik2 == "vivaldi")
                l2 = g.leaf(inner, lk, 1, gwtype, multi, ik2 == "vivaldi")
                l3 = g.leaf(root, lk, 2, gwtype, multi, ik1 == "vivaldi")
                if nested:
                    P.zones[inner]["gw"] = P.zones[l2]["gw"]          # a netpoint two levels down
                else:
                    g.nr += 1
                    P.zones[inner]["gw"] = P.router(inner, "r%d" % g.nr, g.coord() if ik2 == "vivaldi" else None)
                comps = [l1, l2] if nested else [l1, P.zones[inner]["gw"], l2]
                if nested or ik2 in ("star", "vivaldi"):
                    g.connect(inner, ik2, [l1, l2] if nested else comps, sym, multi)
                else:
                    continue    # a routed zone cannot declare a route between a sub-zone and its own router: skip
                g.connect(root, ik1, [inner, l3], sym, multi)
                out.append(P)
    return out


def gen_midgw():
    """Floyd / Dijkstra root with three sub-zones in a line; the middle one is entered and left through different
    gateways, so the root's route has to cross it."""
    out = []
    for ik in ("floyd", "dijkstra", "dijkstracache"):
        for lk in ("full", "star", "floyd"):
            g = Gen("d2 %s line of 3 x %s, middle zone crossed between two gateways" % (ik, lk))
            P = g.P
            root = P.zone("Z0", ik)
            a = g.leaf(root, lk, 2, "h", 0, False)
            b = g.leaf(root, lk, 2, "h", 0, False)
            c = g.leaf(root, lk, 2, "h", 0, False)
            hb = P.zones[b]["hosts"]
            P.route(root, a, b, 1, [(g.newlink(root), "")], gw_src=P.zones[a]["gw"], gw_dst=hb[0])
            P.route(root, b, c, 1, [(g.newlink(root), "")], gw_src=hb[1], gw_dst=P.zones[c]["gw"])
            out.append(P)
    return out


def gen_cluster_roots(quick):
    out = []
    shapes = [("torus", (2, 2)), ("torus", (3,)), ("fattree", (1, (2,), (1,), (1,))), ("fattree", (2, (2, 2), (1, 2), (1, 1))),
              ("dragonfly", (2, 1, 1, 1, 2, 1, 1)), ("dragonfly", (1, 1, 2, 1, 1, 1, 2))]
    if not quick:
        shapes += [("torus", (2, 3)), ("torus", (2, 2, 2)), ("fattree", (2, (2, 2), (2, 1), (1, 2))), ("dragonfly", (2, 1, 1, 1, 2, 1, 2))]
    for kind, shape in shapes:
        for lim in (0, 1):
            for leafn in (1, 2):
                spec = {"kind": kind, "shape": shape, "lb": 0, "lim": lim, "pol": "D"}
                P = Platform("cluster root %s %s lim=%d leaf=star x %d hosts" % (kind, c26.shape_str(spec), lim, leafn))
                P.cluster = ("K", spec, leafn)
                out.append(P)
    return out


# ------------------------------------------------------------------------------------------------ judging
def unprefix(x, px):
    return x[len(px):] if px and x.startswith(px) else x


def judge(P, res, px=""):
    """-> (pairs judged, nontrivial?, problem or None); problem = (rule, pair, detail)"""
    if P.cluster:
        return judge_cluster(P, res, px)
    ref = Reference(P)
    hosts = sorted(P.all_hosts())
    ans = res.answers(px + "h")
    if ans is None or sorted(unprefix(x, px) for x in ans[0]) != hosts or len(ans[1]) != len(hosts) ** 2:
        return 0, False, ("no-answer", "-", "platform not answered")
    names, lines = [unprefix(x, px) for x in ans[0]], ans[1]
    k = -1
    pairs = 0
    crossed = False
    for s in names:
        for d in names:
            k += 1
            if s == d:
                continue
            try:
                want, extra = ref.route(s, d)
            except Unroutable as u:
                return pairs, False, ("generator", "%s->%s" % (s, d), str(u))
            lat, links = res.decode(lines[k])
            if lat is None:
                return pairs, False, ("exception", "%s->%s" % (s, d), links.replace(px, "")[:200] if px else links[:200])
            links = [unprefix(x, px) for x in links]
            pairs += 1
            if P.where[s] != P.where[d]:
                crossed = True
            if links != want:
                rule = "same-links-other-order" if sorted(links) == sorted(want) else "not-the-concatenation"
                return pairs, False, (rule, "%s->%s" % (s, d), "expected %s got %s" % (" ".join(want) or "-", " ".join(links) or "-"))
            wl = ref.latency(want, extra)
            if not rc.close(wl, lat):
                return pairs, False, ("latency", "%s->%s" % (s, d), "reported %r, links%s sum to %r" %
                                      (lat, " + coordinate term" if extra else "", wl))
    return pairs, crossed, None


def judge_cluster(P, res, px=""):
    z, spec, leafn = P.cluster
    model = c26.MODELS[spec["kind"]](z, spec)
    n = model.n
    hosts = sorted("%sz%dh%d" % (z, i, k) for i in range(n) for k in range(leafn))
    ans = res.answers(px + z + "z")
    if ans is None or sorted(unprefix(x, px) for x in ans[0]) != hosts or len(ans[1]) != len(hosts) ** 2:
        return 0, False, ("no-answer", "-", "platform not answered")
    names, lines = [unprefix(x, px) for x in ans[0]], ans[1]
    k = -1
    pairs = 0
    for s in names:
        for d in names:
            k += 1
            if s == d:
                continue
            lat, links = res.decode(lines[k])
            if lat is None:
                return pairs, False, ("exception", "%s->%s" % (s, d), links.replace(px, "")[:200] if px else links[:200])
            links = [unprefix(x, px) for x in links]
            pairs += 1
            m = re.match(r"%sz(\d+)h(\d+)$" % z, s)
            si, sk = int(m.group(1)), int(m.group(2))
            m = re.match(r"%sz(\d+)h(\d+)$" % z, d)
            di, dk = int(m.group(1)), int(m.group(2))
            pre = lambda i, kk: "%sz%dl%d" % (z, i, kk)
            if si == di:      # inside one star leaf: up of src, down of dst
                want = [pre(si, sk) + "_UP", pre(di, dk) + "_DOWN"]
                if links != want:
                    return pairs, False, ("not-the-concatenation", "%s->%s" % (s, d), "expected %s got %s" % (" ".join(want), " ".join(links)))
                wl = 0.0001 * (sk + 1) + 0.0001 * (dk + 1)
            else:
                head = [] if sk == 0 else [pre(si, sk) + "_UP", pre(si, 0) + "_DOWN"]      # to the leaf's gateway host 0
                tail = [] if dk == 0 else [pre(di, 0) + "_UP", pre(di, dk) + "_DOWN"]
                if links[:len(head)] != head or (tail and links[len(links) - len(tail):] != tail) or len(links) < len(head) + len(tail):
                    return pairs, False, ("not-the-concatenation", "%s->%s" % (s, d),
                                          "expected %s <cluster walk> %s got %s" % (" ".join(head), " ".join(tail), " ".join(links)))
                mid = links[len(head):len(links) - len(tail)]
                try:
                    wl = model.check(si, di, mid)
                except c26.Problem as p:
                    return pairs, False, ("cluster-walk-" + p.rule, "%s->%s" % (s, d), c26.canon(p.detail, z)[:200])
                wl += sum(0.0001 * (kk + 1) for kk in ([sk, 0] if head else []) + ([0, dk] if tail else []))
            if not rc.close(wl, lat):
                return pairs, False, ("latency", "%s->%s" % (s, d), "reported %r, links sum to %r" % (lat, wl))
    return pairs, True, None


def run_platforms(exe, plats, workdir, tag, per_engine=16):
    """Several platforms per Engine (names prefixed); an Engine that dies is re-run one platform at a time.
    -> [(P, pairs, nontrivial, problem)]"""
    out, redo = [], []
    if per_engine > 1:
        idx = list(range(len(plats)))
        batches = [idx[i:i + per_engine] for i in range(0, len(idx), per_engine)]
        cases = [("b%d" % bi, "\n".join(plats[i].text("p%dx" % i) for i in b) ) for bi, b in enumerate(batches)]
        cases = [(cid, "\n".join(l for l in txt.split("\n") if not l.startswith("qall")) + "\nlinks\n" +
                  "\n".join(l for l in txt.split("\n") if l.startswith("qall"))) for cid, txt in cases]
        res = rc.run_cases(exe, cases, workdir, tag, case_cpu=60)
        for bi, b in enumerate(batches):
            r = res["b%d" % bi]
            if r.crash or r.builderr or not r.complete:
                redo += b
            else:
                for i in b:
                    out.append((i, (plats[i],) + judge(plats[i], r, "p%dx" % i)))
    else:
        redo = list(range(len(plats)))
    if redo:
        def solo_text(P):
            t = P.text().split("\n")
            return "\n".join([l for l in t if not l.startswith("qall")] + ["links"] + [l for l in t if l.startswith("qall")])
        res = rc.run_cases(exe, [("p%d" % i, solo_text(plats[i])) for i in redo], workdir, tag + "-solo", case_cpu=20)
        for i in redo:
            P, r = plats[i], res["p%d" % i]
            if r.crash:
                m = re.search(r"sig=(\d+)", r.crash)
                sig = int(m.group(1)) if m else 0
                msg = re.sub(r"\s+", " ", re.sub(r"^sig=\d+ exit=-?\d+ ?", "", r.crash))
                msg = re.sub(r"0x[0-9a-fA-F]+|\b\d{4,}\b", "#", msg)[:120]      # no addresses / pids in a case signature
                rule = "hang" if sig in (14, 24, 9) else "crash"
                out.append((i, (P, 0, False, (rule, "-", "signal %d %s" % (sig, msg) if rule == "crash" else "route_to does not return"))))
            elif r.builderr:
                out.append((i, (P, 0, False, ("build-error", "-", r.builderr[:200]))))
            elif not r.complete:
                out.append((i, (P, 0, False, ("no-answer", "-", "case output incomplete"))))
            else:
                out.append((i, (P,) + judge(P, r)))
    out.sort(key=lambda x: x[0])
    return [x[1] for x in out]


def all_platforms(ctx):
    """-> [(bound name, [platforms])]"""
    q = ctx.quick
    same = [(k, k) for k in LEAF]
    mixed = [(a, b) for a in LEAF for b in LEAF]
    b = [("depth 1: one zone of 2-3 hosts, every leaf kind x gateway host/router x 1- or 2-link routes", gen_depth1()),
         ("depth 2: every inner kind x two leaves of the same kind x {symmetric, one-way} x {1, 2 links} x gateway {host, router} x "
          "bypass {none, zone-level, host-level}", gen_depth2(same)),
         ("depth 2: star / vivaldi zone holding a host and a sub-zone", gen_star_with_host()),
         ("depth 2: empty root, two leaves joined by bypass routes only", gen_empty_root()),
         ("depth 2: floyd / dijkstra root, three sub-zones in a line, the middle one crossed between two gateways", gen_midgw()),
         ("cluster roots (torus, fat tree, dragonfly) with star-zone leaves of 1-2 hosts, with / without limiters", gen_cluster_roots(q))]
    if not q:
        b.append(("depth 2: every inner kind x every ordered pair of different leaf kinds x {symmetric, one-way} x gateway {host, router}",
                  gen_depth2([p for p in mixed if p[0] != p[1]], opts=[(1, 0, "h", "-"), (0, 0, "r", "-"), (1, 1, "r", "zone")])))
        v3 = [(1, 0, 1, "h"), (0, 0, 1, "r"), (1, 1, 1, "h"), (1, 0, 0, "r"), (0, 0, 0, "h")]
        b.append(("depth 3: root(inner(leaf,leaf),leaf), every pair of inner kinds x every leaf kind x 5 variants (symmetry, 2-link "
                  "routes, gateway of the inner zone nested two levels down or a router of its own)",
                  gen_depth3(LEAF, [(a, c) for a in INNER for c in INNER], v3)))
    else:
        b.append(("depth 3: root(inner(leaf,leaf),leaf), inner kinds full/floyd/star, leaf kinds full/star, gateway of the inner "
                  "zone in a sub-zone (or its own router for star inner zones)",
                  gen_depth3(("full", "star"), [(a, c) for a in ("full", "floyd", "star") for c in ("full", "floyd", "star")],
                             [(1, 0, 1, "h"), (0, 0, 1, "r"), (1, 0, 0, "r")])))
    return b


def _worker(arg):
    exe, work, tag, plats = arg
    res = run_platforms(exe, plats, work, tag)
    evals = len(res)
    pairs = sum(r[1] for r in res)
    nontriv = sum(1 for r in res if r[2])
    bad = [(r[0].label, r[0].text(), r[3]) for r in res if r[3]]
    sample = next((r[0].label for r in res if r[2]), None)
    return evals, pairs, nontriv, bad, sample


def kinds_of(label):
    return re.sub(r"\b(sym|multi|gw|bypass|nestedgw|hosts|lim)=\S+", "", label).strip()


def run(ctx):
    import concurrent.futures as cf
    exe = rc.harness()
    work = common.tmpdir("c24")
    evals = pairs = nontriv = 0
    bad, samples, done, skipped = [], [], [], []
    exhaustive = True
    deadline = common.Deadline(float(os.environ.get("VERIF_BUDGET_S") or (150 if ctx.quick else 1200)))
    pool = cf.ProcessPoolExecutor(max_workers=common.NCPU)
    for name, plats in all_platforms(ctx):
        if done and (deadline.over() or deadline.left() < 15):
            exhaustive = False
            skipped.append(name)
            continue
        t0 = time.time()
        nsh = max(1, min(common.NCPU * 2, len(plats) // 8))
        sh = [plats[i::nsh] for i in range(nsh)]
        random.Random(ctx.seed).shuffle(sh)
        for e, p, n, b, smp in pool.map(_worker, [(exe, work, "s%d" % i, x) for i, x in enumerate(sh)]):
            evals += e
            pairs += p
            nontriv += n
            bad += b
            if smp and len(samples) < 10:
                samples.append(smp)
        done.append({"bound": name, "platforms": len(plats), "wall_s": round(time.time() - t0, 1)})
        common.log("C24 bound done: %s (%d platforms, %.1fs)" % (name, len(plats), done[-1]["wall_s"]))
    pool.shutdown()
    # one violation per (rule, zone kinds involved): smallest label first
    groups = {}
    for label, text, prob in bad:
        groups.setdefault((rule_of(label, prob), group_of(label, prob)), []).append((label, text, prob))
    violations = []
    for (rule, grp), items in sorted(groups.items()):
        items.sort(key=lambda it: (len(it[1]), it[0]))
        label, text, prob = items[0]
        key = "C24 rule=%s where=%s" % (rule, grp)     # the smallest platform differs between tiers: not part of the key
        what = "%s on pair %s of [%s]: %s; %d platform(s) of this group fail this rule" % (prob[0], prob[1], label, prob[2], len(items))
        violations.append(common.Violation(key, what, {"label": label, "text": text, "signature": "%s | %s | %s" % prob,
                                                        "others": [x[0] for x in items[1:30]]}))
    index = {P.label: P for _, plats in all_platforms(ctx) for P in plats}

    def rerun(case):
        P = index.get(case["label"])
        if P is None:
            return None
        r = run_platforms(exe, [P], work, "solo%d" % os.getpid(), per_engine=1)[0]
        return "%s | %s | %s" % r[3] if r[3] else None
    violations = rc.confirm(ctx, violations, rerun)
    shutil.rmtree(work, ignore_errors=True)
    if nontriv < 2 and not violations:
        common.log("C24: vacuous run (%d non-trivial platforms)" % nontriv)
        sys.exit(2)
    cov = {"evaluations": evals, "distinct_nontrivial": nontriv,
           "rule": "one evaluation = one generated platform (distinct by construction: tree shape x zone kinds x declaration "
                   "options) with all ordered host pairs routed and compared with the reference concatenation; non-trivial = "
                   "at least one judged pair has its end points in different zones, i.e. the route really is composed through "
                   "gateways",
           "samples": samples, "exhaustive": exhaustive, "host_pairs_judged": pairs, "bounds_completed": done,
           "bounds_not_started": skipped, "failing_platforms": len(bad)}
    assumptions = ["platforms are generated without routing ties (Floyd/Dijkstra zones are lines), so the reference route is unique",
                   "Dijkstra zones only get single-link hops here: the order of links inside a multi-link hop is judged by C25",
                   "self routes (src == dst) are not judged", "the inner walk of torus / fat-tree / dragonfly roots is judged by "
                   "the C26 topology models (discipline, not a unique route)"]
    common.finish(ctx, "exploration", cov, assumptions, violations, engine="E6 routex")


def group_of(label, prob):
    """Coarse class for the case key: the generator family plus the feature in play (bypass, where the gateway sits), or else
    the kind of the zone in charge of the composition."""
    if label.startswith("cluster root"):
        return "cluster-root:" + label.split(" ")[2]
    fam = label.split(" ")[0]
    if "bypass=zone" in label or "bypass both ways" in label:
        return fam + "+zone-bypass"
    if "bypass=host" in label:
        return fam + "+host-bypass"
    if "nestedgw=1" in label:
        return fam + "+gateway-in-a-sub-zone"
    if "nestedgw=0" in label:
        return fam + "+end-point-two-levels-below-the-gateway"
    if "crossed between two gateways" in label:
        k = label.split(" ")[1]
        return fam + "+zone-crossed-between-two-gateways:" + ("dijkstra*" if k.startswith("dijkstra") else k)
    m = re.match(r"d\d\w* (\w+)[( ]", label)
    return "%s:%s" % (fam, m.group(1) if m else "?")


def rule_of(label, prob):
    """A gateway routed with another zone's indices shows as a wrong list, an internal-error exception or a crash depending on
    what the foreign index hits: one rule for the three symptoms."""
    if "nestedgw=1" in label and prob[0] in ("crash", "exception", "not-the-concatenation"):
        return "junction-routed-in-the-wrong-zone"
    return prob[0]


def replay(ctx, case):
    exe = rc.harness()
    work = common.tmpdir("c24r")
    c = case["case"]
    index = {P.label: P for q in (True, False) for _, plats in all_platforms(type("X", (), {"quick": q})()) for P in plats}
    P = index.get(c["label"])
    print("replaying " + c["label"])
    print("--- case text\n" + c["text"])
    if P is None:
        print("platform label unknown to this version of the generator")
        return 2
    r = run_platforms(exe, [P], work, "replay", per_engine=1)[0]
    shutil.rmtree(work, ignore_errors=True)
    if r[3]:
        print("observed: %s | %s | %s" % r[3])
        print("recorded: " + c["signature"])
        return 1
    print("no violation on replay (%d pairs judged)" % r[1])
    return 0
