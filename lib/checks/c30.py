"""C30 — derived datatypes have MPI layout and transfer exactly their bytes (engine E7 mpix, harness/mpix/c30/dtype.cpp).

Type trees are chains of constructor instances over a leaf (MPI_BYTE, or MPI_INT with all byte parameters x4). Instances come
from FULL (all nine constructors with every parameter in {0,1,2,3}, index lists of 0..2 blocks, struct blocks mixing the
sub-tree and the leaf, resized extents {0..3, true extent, true extent+1}, 1-D/2-D sub-arrays of sizes 1..3 in both orders:
1791 instances) and SMALL (30 hand-picked instances with parameters in {1,2,3}). Levels:
  quick     depth 1 FULL[leaf]; depth 2 FULL[SMALL[leaf]] and SMALL[FULL[leaf]]; both leaves; local (Pack/Unpack/Sendrecv-to-self)
            and p2p (real 2-rank Send/Recv typed<->contiguous)
  thorough  + depth 2 FULL[FULL[leaf]], depth 3 FULL[SMALL[SMALL]], SMALL[FULL[SMALL]], SMALL[SMALL[FULL]] (local), leaf B then I
For every tree: size, lb, ub, extent against a type-map model of MPI-3.1 section 4.1, and for counts 0..3 the bytes moved by
Pack, Unpack, Sendrecv and Send/Recv into canary-filled buffers. A failure class of a tree (size, bounds, gather, scatter,
touch, api) is reported only if no tree with one constructor level deleted fails in the same class (minimal failing trees);
one violation per (class, constructor shape), keyed by its first tree."""
import os, sys, json, time, concurrent.futures as cf
import common, mpix

FAMS = ["probe", "1", "2a", "2b", "2f", "3a", "3b", "3c"]
# (family, leaf, mode, shards)
QUICK = [("1", l, m, 1) for l in "BI" for m in ("local", "p2p")] + \
        [(f, l, "local", 4) for f in ("2a", "2b") for l in "BI"] + [(f, l, "p2p", 12) for f in ("2a", "2b") for l in "BI"]
THOROUGH_EXTRA = [[(f, l, "local", 64)] for l in "BI" for f in ("2f", "3a", "3b", "3c")]
COUNTERS = ["trees", "bounds_checked", "bounds_unconstrained", "ambiguous_sticky", "moves", "overlap_skipped", "noncontiguous",
            "bytes_moved", "zero_size_not_moved", "failing_trees", "minimal_failing_trees"]
CLS = {
    "size": "MPI_Type_size differs from the sum of the selected bytes",
    "bounds": "lb / ub / extent differ from the MPI type-map definition",
    "gather": "typed -> contiguous (Pack / Sendrecv / Send of the type) delivers other bytes than the type map selects",
    "scatter": "contiguous -> typed (Unpack / Sendrecv / Recv into the type) does not write exactly the selected bytes",
    "touch": "bytes outside the type map / outside the contiguous buffer were written",
    "api": "a call failed (error code or wrong position / pack size)",
    "crash": "the simulation died (signal) while this tree was being tested",
}


def _sortkey(d):
    return (FAMS.index(d["fam"]), "BI".index(d["leaf"]), ["probe", "local", "p2p"].index(d["mode"]), int(d["idx"]), int(d["rank"]))


def _key(d):
    cls, _, shape = d["kind"].partition("/")
    return "C30 %s shape=%s tree=%s via=%s" % (cls, shape, d["tree"], d["mode"])


def _np(mode):
    return 2 if mode == "p2p" else 1


def _job(job):
    tmp, binary, fam, leaf, mode, shard, n, zeromove, timeout = job
    start, outs, crashes, complete = 0, [], [], True
    while True:
        rc, out, err = mpix.smpirun(tmp, binary, _np(mode), [mode, fam, leaf, shard, n, -1, start, zeromove], timeout=timeout)
        outs.append(out)
        if rc == 0:
            break
        xs = [d for t, d in mpix.records(out) if t == "X"]
        if rc == 124 or not xs or len(crashes) >= 30:
            complete = False
            if rc != 124:
                common.log("C30: %s/%s/%s shard %d died without crash record (rc=%s): %s" % (fam, leaf, mode, shard, rc, err[-300:]))
            break
        idx = int(xs[0]["idx"])
        crashes.append({"fam": fam, "leaf": leaf, "mode": mode, "idx": idx, "sig": xs[0]["sig"], "shard": shard, "nshards": n, "start": start})
        start = idx + 1
    return {"job": job[2:7], "out": "\n".join(outs), "crashes": crashes, "complete": complete}


def _rerun(tmp, binary, case, zeromove):
    rc, out, err = mpix.smpirun(tmp, binary, _np(case["mode"]), [case["mode"], case["fam"], case["leaf"], 0, 1, case["idx"], 0, zeromove], timeout=300)
    return rc, [d for t, d in mpix.records(out) if t == "V"], err


def _name(tmp, binary, c):
    rc, out, err = mpix.smpirun(tmp, binary, 1, ["name", c["fam"], c["leaf"], 0, 1, c["idx"], 0, 0], timeout=120)
    ts = [d for t, d in mpix.records(out) if t == "T"]
    return ts[0] if ts else {"tree": "?", "shape": "?"}


def run(ctx):
    binary = mpix.build_smpi("c30_dtype", ["c30/dtype.cpp"], cxx=True)
    tmp = common.tmpdir("c30")
    mpix.platform(tmp)
    agg = mpix.Agg(_sortkey, COUNTERS)
    allfail = {}
    violations, crashes = [], []
    # ---- probes: zero-size types (idx 0 = contig(0), idx 4 = vector(0,0,0) of family 1) and uncommitted old type
    zeromove = 1
    for idx in (0, 4):
        rc, out, err = mpix.smpirun(tmp, binary, 1, ["local", "1", "B", 0, 1, idx, 0, 1], timeout=120)
        xs = [d for t, d in mpix.records(out) if t == "X"]
        if rc != 0:
            rc2, out2, _ = mpix.smpirun(tmp, binary, 1, ["local", "1", "B", 0, 1, idx, 0, 1], timeout=120)
            if rc2 == 0:
                common.log("C30: zero-size probe is not reproducible: harness bug")
                sys.exit(2)
            zeromove = 0
            nm = _name(tmp, binary, {"fam": "1", "leaf": "B", "idx": idx})
            violations.append(common.Violation(
                "C30 crash-zero-size tree=%s" % nm["tree"],
                "Unpack / Sendrecv of a datatype of size 0 with count >= 1 kills the simulation (signal %s); zero-size trees are "
                "therefore built and measured but not moved in this run" % (xs[0]["sig"] if xs else "?"),
                {"fam": "1", "leaf": "B", "mode": "local", "idx": idx, "kind": "crash", "zeromove": 1}))
            break
    rc, out, err = mpix.smpirun(tmp, binary, 1, ["probe", "probe", "B", 0, 1, -1, 0, 0], timeout=120)
    agg.absorb(out)
    for t, d in mpix.records(out):
        if t == "V":
            agg.kinds[d["kind"]]["count"] = 1

    levels = [QUICK] + (THOROUGH_EXTRA if not ctx.quick else [])
    done, exhaustive, per_level = [], True, {}
    last_dur = 0
    for li, level in enumerate(levels):
        if ctx.deadline.over() or (li > 0 and ctx.deadline.left() < 1.3 * last_dur):
            exhaustive = False
            common.log("C30: stopping before level %s (%.0fs left)" % (level[0][:3], ctx.deadline.left()))
            break
        t0 = time.time()
        jobs = [(tmp, binary, f, l, m, s, n, zeromove, max(300, ctx.deadline.left() + 300)) for f, l, m, n in level for s in range(n)]
        if ctx.seed:
            import random
            random.Random(ctx.seed).shuffle(jobs)
        with cf.ThreadPoolExecutor(max_workers=common.NCPU) as ex:
            res = list(ex.map(_job, jobs))
        before = dict(agg.tot)
        complete = True
        for r in res:
            agg.absorb(r["out"], count_from=lambda d: d["rank"] == "0")
            for t, d in mpix.records(r["out"]):
                if t == "A":
                    allfail[d["kind"]] = allfail.get(d["kind"], 0) + int(d["count"])
            crashes += r["crashes"]
            complete = complete and r["complete"]
        name = "+".join(sorted({"%s/%s/%s" % (f, l, m) for f, l, m, n in level}))
        per_level[name] = {c: agg.tot[c] - before[c] for c in COUNTERS}
        if not complete:
            exhaustive = False
            common.log("C30: level %s not completed" % name)
            break
        done.append(name)
        last_dur = time.time() - t0
        common.log("C30: level %s done at %.1fs" % (name if len(name) < 60 else name[:57] + "...", time.time() - ctx.t0))

    todo = []
    for kind, k in sorted(agg.kinds.items()):
        d = k["first"]
        if d is None:
            common.log("C30: kind %s counted but no record kept" % kind)
            sys.exit(2)
        cls = kind.split("/")[0]
        case = {"fam": d["fam"], "leaf": d["leaf"], "mode": d["mode"], "idx": int(d["idx"]), "kind": kind, "record": d, "zeromove": zeromove}
        if d["fam"] != "probe":
            todo.append((_key(d), d, case))
        det = " ".join("%s=%s" % (a, v) for a, v in d.items() if a not in ("kind", "fam", "leaf", "idx", "mode", "tree", "rank"))
        violations.append(common.Violation(_key(d), "%s; %d minimal failing trees of this shape (%d failing trees in all) in this run; first: leaf=%s %s" % (
            CLS.get(cls, cls), k["count"], allfail.get(kind, k["count"]), d["leaf"], det), case))
    # rule 3, batched: the failing trees of each (family, leaf, mode) are re-run twice in simulations that contain nothing else
    # (one process per group instead of one per tree: the machine is shared and a process start costs seconds)
    groups = {}
    for key, d, case in todo:
        groups.setdefault((case["fam"], case["leaf"], case["mode"]), []).append((key, d, case))

    def _confirm_group(item):
        (fam, leaf, mode), members = item
        ids = ",".join(str(c["idx"]) for _, _, c in members)
        bad = []
        for attempt in (1, 2):
            rc, out, err = mpix.smpirun(tmp, binary, _np(mode), [mode, fam, leaf, 0, 1, ids, 0, zeromove], timeout=900)
            vs = [v for t, v in mpix.records(out) if t == "V"]
            for key, d, c in members:
                if not any(mpix.same_record(v, d) for v in vs):
                    bad.append("%s (attempt %d, rc=%s)" % (key, attempt, rc))
        return bad
    with cf.ThreadPoolExecutor(max_workers=common.NCPU) as ex:
        bad = [b for bs in ex.map(_confirm_group, groups.items()) for b in bs]
    if bad:
        common.log("C30: violations that did not reproduce in isolation (harness bug):\n  " + "\n  ".join(bad[:20]))
        sys.exit(2)
    for c in crashes:
        # a crash is first re-run alone; when it only shows as the end of its segment (heap damaged by earlier trees of the same
        # simulation) the segment is the case: simulations are deterministic, the same segment must die at the same tree twice
        nm = _name(tmp, binary, c)
        case = dict(c, kind="crash", zeromove=zeromove, ctx="alone")
        alone = all(_rerun(tmp, binary, case, zeromove)[0] != 0 for attempt in (1, 2))
        if not alone:
            case["ctx"] = "segment"
            for attempt in (1, 2):
                rc, out, err = mpix.smpirun(tmp, binary, _np(c["mode"]), [c["mode"], c["fam"], c["leaf"], c["shard"], c["nshards"], -1, c["start"], zeromove], timeout=900)
                xs = [d for t, d in mpix.records(out) if t == "X"]
                if rc == 0 or not xs or int(xs[0]["idx"]) != c["idx"]:
                    common.log("C30: crash at %s reproduces neither alone nor as the end of its segment: harness bug" % c)
                    sys.exit(2)
        violations.append(common.Violation("C30 crash ctx=%s shape=%s tree=%s via=%s" % (case["ctx"], nm["shape"], nm["tree"], c["mode"]),
                                           "%s (signal %s, leaf=%s)" % (CLS["crash"], c["sig"], c["leaf"]), case))

    if os.environ.get("VERIF_C30_DUMP"):      # development aid: write the proposed known-finding lines of this run
        with open(os.environ["VERIF_C30_DUMP"], "w") as f:
            for v in violations:
                f.write("known: property=C30 %s :: %s\n" % (v.key, v.what.split(";")[0]))
    nontriv = agg.tot["noncontiguous"]
    cov = {
        "evaluations": agg.tot["trees"],
        "distinct_nontrivial": nontriv,
        "rule": "evaluations = distinct (family, leaf, mode, tree) enumerated (each with size/lb/ub/extent and counts 0..3 x 4 movements); "
                "non-trivial = those whose type map has more than one segment, i.e. the layout really is non-contiguous",
        "samples": [
            {"tree": "vector(2,1,2)[hindexed(1@0,1@3)[B]]", "meaning": "2 blocks of 1, stride 2 extents, of {byte at 0, byte at 3}"},
            {"tree": "struct(1@1T,2@3L)[resized(1,te+1)[I]]", "meaning": "struct {1 x sub-tree at 4 bytes, 2 x MPI_INT at 12 bytes}, sub-tree = MPI_INT resized lb=4 extent=8"},
            {"tree": "subarray(F:1/2+1,2/3+0)[contig(2)[B]]", "meaning": "Fortran-order 2x3 array of 2-byte elements, sub-box 1x2 at (1,0)"},
        ],
        "exhaustive": exhaustive and len(done) == len(levels),
        "levels_completed": done, "per_level": per_level,
        "bounds_checked": agg.tot["bounds_checked"], "bounds_unconstrained_empty_component": agg.tot["bounds_unconstrained"],
        "trees_where_sticky_and_plain_bounds_differ_both_accepted": agg.tot["ambiguous_sticky"],
        "movements_compared": agg.tot["moves"], "bytes_moved": agg.tot["bytes_moved"],
        "receive_side_skipped_overlapping_type": agg.tot["overlap_skipped"],
        "zero_size_trees_not_moved": agg.tot["zero_size_not_moved"],
        "failing_trees": agg.tot["failing_trees"], "minimal_failing_trees": agg.tot["minimal_failing_trees"],
        "violation_groups": len(agg.kinds), "crashes": len(crashes),
    }
    mpix.cleanup(tmp)
    if nontriv < 2:
        common.log("C30: vacuous run")
        sys.exit(2)
    common.finish(ctx, "exploration", cov, [
        "oracle = type-map model of MPI-3.1 section 4.1 written in harness/mpix/c30/dtype.cpp (copies placed at multiples of the child extent, "
        "sticky lb/ub markers of resized and subarray); where the sticky and the plain min/max reading differ both are accepted",
        "lb/ub/extent of trees containing an empty component are not constrained; alignment padding (epsilon) cannot occur: leaves are bytes, or ints "
        "with every byte parameter a multiple of 4",
        "non-negative displacements only; receiving into overlapping type maps is erroneous and skipped; collectives and MPI_Type_dup/darray are not covered",
        "every level of a tree is committed before use",
    ], violations, engine="mpix")


def replay(ctx, case):
    binary = mpix.build_smpi("c30_dtype", ["c30/dtype.cpp"], cxx=True)
    tmp = common.tmpdir("c30r")
    mpix.platform(tmp)
    c = case["case"]
    if c.get("fam") == "probe":
        rc, out, err = mpix.smpirun(tmp, binary, 1, ["probe", "probe", "B", 0, 1, -1, 0, 0], timeout=120)
        vs = [d for t, d in mpix.records(out) if t == "V"]
    else:
        rc, vs, err = _rerun(tmp, binary, c, c.get("zeromove", 0))
    mpix.cleanup(tmp)
    for v in vs:
        print("V " + " ".join("%s=%s" % kv for kv in v.items()))
    if c["kind"] == "crash":
        print("exit code %d (%s)" % (rc, c.get("ctx", "alone")))
        if rc == 0 and c.get("ctx") == "segment":
            tmp = common.tmpdir("c30r")
            mpix.platform(tmp)
            rc, out, err = mpix.smpirun(tmp, binary, _np(c["mode"]), [c["mode"], c["fam"], c["leaf"], c["shard"], c["nshards"], -1, c["start"], c.get("zeromove", 0)], timeout=900)
            mpix.cleanup(tmp)
            print("segment exit code %d" % rc, [l for l in out.splitlines() if l.startswith("X")])
        return 1 if rc != 0 else 0
    hit = [v for v in vs if v["kind"] == c["kind"]]
    print("replay of %s: exit %d, %d violation record(s), %d of kind %s" % (case.get("key"), rc, len(vs), len(hit), c["kind"]))
    return 1 if hit or rc != 0 else 0
