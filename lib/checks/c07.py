"""C07 Barrier semantics under every interleaving: waiters are released only in complete groups of n, in arrival order."""
import itertools
import common, vxlib, synccheck

def gen(n, nact, maxw):
    def g():
        for combo in itertools.combinations_with_replacement(range(1, maxw + 1), nact):
            yield dict(bar=[n], actors=[[("bwait", 0)] * w for w in combo])
    return g

def gen2(n1, n2, nact):
    seqs = [s for k in (1, 2) for s in itertools.product([("bwait", 0), ("bwait", 1)], repeat=k)]
    def g():
        for combo in itertools.combinations_with_replacement(seqs, nact):
            yield dict(bar=[n1, n2], actors=[list(c) for c in combo])
    return g

def chain(*gens):
    def g():
        for x in gens:
            yield from x()
    return g

def bounds(ctx):
    b = []
    for n in (1, 2, 3, 4):
        b.append(("n%d-A1to%d" % (n, min(n + 2, 4)), chain(*[gen(n, a, 3) for a in range(1, min(n + 2, 4) + 1)])))
    b.append(("two-2-2-A3", gen2(2, 2, 3)))
    if not ctx.quick:
        b += [("n3-A5", gen(3, 5, 2)), ("n4-A5", gen(4, 5, 2)), ("n5-A5", gen(5, 5, 2)), ("n5-A6", gen(5, 6, 1)), ("n6-A6", gen(6, 6, 2)),
              ("n2-A5w3", gen(2, 5, 3)), ("two-2-3-A4", gen2(2, 3, 4)), ("n4-A6", gen(4, 6, 2)), ("n3-A5w3", gen(3, 5, 3))]
    return b

def run(ctx):
    synccheck.run_bounds(ctx, bounds(ctx), "barriers",
        ["MC-mode code paths (wait = BARRIER_ASYNC_LOCK + BARRIER_WAIT); the 'serial thread' return value is not part of the property and is not compared",
         "non-trivial programs are those with a reachable deadlock (an incomplete last group) or >=2 outcomes"], stateless_limit=30)

replay = synccheck.replay
