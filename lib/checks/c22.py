"""C22 — availability profiles are applied exactly (engine E4/res, level exploration).

Every profile with <=3 (quick) / <=4 (thorough) points over dates {0,1,2,3} and values {0.5,1,2} (speed ratio, bandwidth,
latency) or {on,off} (host and link state), period in {none,4,5}, attached to a host or a link with an exec/comm spanning
the changes. Oracle: the resource value at every time advance and at probes every 0.5 s equals the piecewise-constant
profile (with repetition); the finish dates equal the exact integral of the availability."""
import itertools
from fractions import Fraction as F
import common, reslib
from reslib import Scen, pack, close

S = 1e9
BW = 1e8
LAT0 = 2.0 ** -4
DATES = (0, 1, 2, 3)
NUMVALS = (0.5, 1, 2)
PERIODS = (None, 4, 5)
HORIZON = 13
W_SPAN = 6      # the spanning activity needs 6 s at nominal availability (3..12 s under ratios 2..0.5)


# ---------------------------------------------------------------------------------------------------- profile semantics
def value_at(points, period, initial, t):
    """Piecewise-constant, right-continuous: the last event with date <= t wins; events repeat every `period`."""
    t = F(t)
    if period is None:
        v = initial
        for d, x in points:
            if F(d) <= t:
                v = x
        return v
    k = t // period
    tt = t - k * period
    v = points[-1][1] if k >= 1 else initial
    for d, x in points:
        if F(d) <= tt:
            v = x
    return v


def breakpoints(points, period, upto):
    out = set()
    k = 0
    while True:
        base = 0 if period is None else k * period
        if base > upto:
            break
        for d, _ in points:
            if base + d <= upto:
                out.add(F(base + d))
        if period is None:
            break
        k += 1
    return sorted(out)


def integrate_until(rate_at, bps, start, amount, upto):
    """Date at which the integral of rate_at from `start` reaches `amount` (rates constant between breakpoints)."""
    t = F(start)
    left = F(amount)
    cuts = [b for b in bps if b > t] + [F(upto)]
    for c in cuts:
        r = F(rate_at(t))
        if r > 0 and left <= r * (c - t):
            return t + left / r
        left -= r * (c - t)
        t = c
    return None


# ---------------------------------------------------------------------------------------------------- scenarios
def profiles(maxpts, values):
    for n in range(1, maxpts + 1):
        for ds in itertools.combinations(DATES, n):
            for vs in itertools.product(values, repeat=n):
                yield tuple(zip(ds, vs))


def fmt_pts(points, scale):
    return ",".join("%s:%s" % (reslib.fnum(float(d)), reslib.fnum(float(v) * scale)) for d, v in points)


def probes():
    out, t = [], 0.5
    while t <= HORIZON:
        out.append("ev %s probe" % reslib.fnum(t))
        t += 0.5
    return out


def scen(sid, kind, points, period, cfgname, sfx=""):
    c = Scen(sid)
    h, a, b, l = c.n("h"), c.n("a"), c.n("b"), c.n("l")
    per = -1 if period is None else period
    label = "%s pts=%s period=%s [%s]" % (kind, " ".join("%g:%g" % p for p in points), period, cfgname)
    acts = []
    if kind in ("speed", "hstate"):
        c.add("host", h, 1 if kind == "speed" else 4, S)      # state scenarios: x, y, z each on their own core
        c.add("profile", kind, h, per, -1, fmt_pts(points, 1))
        c.add("act", c.n("x" + sfx), "exec", 0, h, W_SPAN * S)
        acts.append(("x" + sfx, 0, W_SPAN))
        if kind == "hstate":
            c.add("act", c.n("y" + sfx), "exec", 2.5, h, 0.25 * S)
            c.add("act", c.n("z" + sfx), "exec", 6.5, h, 0.25 * S)
            acts += [("y" + sfx, 2.5, 0.25), ("z" + sfx, 6.5, 0.25)]
    else:
        c.add("host", a, 1, S).add("host", b, 1, S)
        c.add("link", l, BW, LAT0 if kind == "lat" else 0, "FATPIPE" if kind == "lstate" else "SHARED")
        c.add("route", a, b, l)
        scale = {"bw": BW, "lat": LAT0, "lstate": 1}[kind]
        c.add("profile", kind, l, per, -1, fmt_pts(points, scale))
        if kind != "lat":
            c.add("act", c.n("x" + sfx), "comm", 0, a, b, W_SPAN * BW)
            acts.append(("x" + sfx, 0, W_SPAN))
        if kind in ("lat", "lstate"):
            c.add("act", c.n("y" + sfx), "comm", 2.5, a, b, 0.25 * BW)
            c.add("act", c.n("z" + sfx), "comm", 6.5, a, b, 0.25 * BW)
            acts += [("y" + sfx, 2.5, 0.25), ("z" + sfx, 6.5, 0.25)]
    c.meta = {"kind": kind, "points": [list(p) for p in points], "period": period, "acts": acts, "label": label}
    return c


NETCFG = [("network/model", "CM02"), ("network/TCP-gamma", 0), ("network/crosstraffic", "0")]
CFGS = {"Lazy": NETCFG + [("cpu/optim", "Lazy"), ("network/optim", "Lazy")],
        "Full": NETCFG + [("cpu/optim", "Full"), ("network/optim", "Full")],
        "TI": NETCFG + [("cpu/optim", "TI")]}
HEAD = ["sample 2", "horizon %d" % HORIZON] + probes()
PACK = 40


def bounds_for(ctx):
    maxpts = 3 if ctx.quick else 4
    B = []

    def g(kind, n, cfgs):
        def gen():
            out = []
            vals = (1, 0) if kind in ("hstate", "lstate") else NUMVALS
            for cfgname in cfgs:
                sc = []
                for pts in profiles(n, vals):
                    if len(pts) != n:
                        continue
                    for period in PERIODS:
                        if cfgname == "TI" and period is None:
                            continue        # the TI model only accepts repeating speed profiles
                        s_ = scen("%s%d" % (kind[0] + kind[-1], len(sc)), kind, pts, period, cfgname)
                        sc.append(s_)
                head = HEAD + (["skipavail 1"] if (cfgname == "TI" and n == 1) else [])
                out += pack("%s%d%s_" % (kind, n, cfgname), CFGS[cfgname], sc, PACK, head)
            return out
        return gen

    def g_ti_avail():
        # Host::get_available_speed() under cpu/optim:TI on hosts whose speed is constant (no profile / one point):
        # each scenario alone in its simulation, because the call crashes on the unchanged tree
        sc = [scen("ta%d" % i, "speed", pts, 4, "TI, get_available_speed sampled") for i, pts in
              enumerate([((0, 1),), ((0, 0.5),), ((2, 0.5),)])]
        for s_ in sc:
            s_.meta["ti_avail"] = True
        return pack("tiavail", CFGS["TI"], sc, 1, HEAD)

    for n in range(1, maxpts + 1):
        B.append(("host speed profiles with %d point(s) (Lazy, Full, TI)" % n, g("speed", n, ("Lazy", "Full", "TI"))))
        B.append(("link bandwidth profiles with %d point(s) (Lazy, Full)" % n, g("bw", n, ("Lazy", "Full"))))
        B.append(("link latency profiles with %d point(s) (Lazy, Full)" % n, g("lat", n, ("Lazy", "Full"))))
        B.append(("host state profiles with %d point(s) (Lazy, Full)" % n, g("hstate", n, ("Lazy", "Full") if n < 4 else ("Lazy",))))
        B.append(("link state profiles with %d point(s) (Lazy, Full)" % n, g("lstate", n, ("Lazy", "Full") if n < 4 else ("Lazy",))))
    B.insert(1, ("cpu/optim:TI: availability of a host with a constant speed (3 profiles)", g_ti_avail))
    if not ctx.quick:
        def g_two():
            # two resources at once: a speed profile on the host of an exec and a bandwidth profile on the link of a comm
            sc = []
            small = [p for p in profiles(2, NUMVALS)]
            for p1, p2 in itertools.product(small, repeat=2):
                if len(p1) + len(p2) < 3:
                    continue
                for per in (None, 4):
                    s1 = scen("t%d" % len(sc), "speed", p1, per, "Lazy")
                    s2 = scen("t%d" % len(sc), "bw", p2, per, "Lazy", "2")
                    s1.lines += s2.lines
                    s1.meta = {"kind": "two", "parts": [s1.meta, s2.meta], "label": "two: " + s1.meta["label"] + " + " + s2.meta["label"]}
                    sc.append(s1)
            return pack("two", CFGS["Lazy"], sc, PACK, HEAD)
        B.append(("two resources: speed + bandwidth profiles of <=2 points, period none/4", g_two))
    return B


# ---------------------------------------------------------------------------------------------------- oracle
def judge_part(sc, m, r, fails):
    kind, pts, period, lab = m["kind"], [tuple(p) for p in m["points"]], m["period"], m["label"]
    num = kind in ("speed", "bw", "lat")
    P = F(period) if period else None
    fp = [(F(d), F(v)) for d, v in pts]
    initial = F(1)
    changed = False
    # 1. the resource value at every sampled date
    res = sc.p + ("h" if kind in ("speed", "hstate") else "l")
    field, scale = {"speed": ("avail", 1), "bw": ("bw", BW), "lat": ("lat", LAT0), "hstate": ("on", 1), "lstate": ("on", 1)}[kind]
    grp = "H" if kind in ("speed", "hstate") else "L"
    nsamp = 0
    for s in r["samples"]:
        v = s[grp].get(res)
        if v is None:
            continue
        if s["where"] == "probe" and s["t"] == 0:
            continue
        want = value_at(fp, P, initial, F(s["t"])) * (F(scale) if num else 1)
        got = F(v[field])
        nsamp += 1
        if kind == "speed" and got == -1:      # availability not sampled (skipavail)
            if want != initial:
                changed = True
            continue
        if want != initial * (F(scale) if num else 1):
            changed = True
        if not close(got, want, 1e-12, 0):
            fails.append(("C22 %s value" % lab, "%s.%s = %.17g at t=%.17g (%s), profile says %.17g" % (
                res, field, v[field], s["t"], s["where"], float(want))))
            break
        if kind == "speed" and not close(v["speed"], S, 1e-12, 0):
            fails.append(("C22 %s peak" % lab, "%s peak speed %.17g at t=%.17g, expected %.17g" % (res, v["speed"], s["t"], S)))
            break
    if nsamp < 2 * HORIZON - 1:
        fails.append(("C22 %s samples" % lab, "only %d samples of %s" % (nsamp, res)))
    # 2. the activities
    bps = breakpoints(fp, P, HORIZON + 1)
    for name, start, amount in m["acts"]:
        aid = sc.p + name
        o = r["acts"].get(aid)
        if o is None:
            fails.append(("C22 %s missing" % lab, "no record of " + aid))
            continue
        val = lambda t: value_at(fp, P, initial, t)
        if kind in ("speed", "bw"):
            want_fin = integrate_until(val, bps, start, amount, HORIZON + 40)
            want_state = "FINISHED"
        elif kind == "lat":
            want_fin = F(start) + val(F(start)) * F(LAT0) + F(amount)
            want_state = "FINISHED"
        else:
            # state profiles: dead on arrival if the resource is off at the start date (an event at the very start date
            # counts: it is applied in the same instant), else runs at nominal rate until the next 'off' event
            if val(F(start)) == 0:
                want_fin, want_state = F(start), "FAILED"
            else:
                nat = F(start) + F(amount)
                off = [b for b in bps if b > F(start) and val(b) == 0 and b < nat]
                # an 'off' exactly at the natural completion date: the statement does not say who wins
                tie = [b for b in bps if b == nat and val(b) == 0]
                if off:
                    want_fin, want_state = off[0], "FAILED"
                elif tie:
                    want_fin, want_state = nat, None
                else:
                    want_fin, want_state = nat, "FINISHED"
        if o["state"] == "FAILED":
            o = dict(o, finish=o["kdate"])      # a failed activity has no finish time: use the date the kernel failed it
        if want_state and o["state"] != want_state:
            fails.append(("C22 %s state" % lab, "%s ended %s at %.17g, expected %s at %.17g" % (
                aid, o["state"], o["finish"], want_state, float(want_fin))))
        elif not close(o["finish"], want_fin) or not close(o["start"], start):
            fails.append(("C22 %s dates" % lab, "%s ran [%.17g, %.17g] %s, exact integral of the profile gives [%g, %.17g]" % (
                aid, o["start"], o["finish"], o["state"], start, float(want_fin))))
    return changed


def group(m, fails):
    """One key per root cause for the systematic deviations of the unchanged tree (details stay in `what`)."""
    out = []
    for k, w in fails:
        if m["kind"] == "speed" and "[TI" in m["label"] and m["points"][0][0] > 0 and (k.endswith(" dates") or k.endswith(" value") or k.endswith(" samples")):
            k2 = "C22 cpu/optim:TI speed profile whose first event is after t=0: wrong " + ("availability" if not k.endswith(" dates") else "integration")
        elif m["kind"] == "bw" and k.endswith(" dates") and any(v > 1 for _, v in m["points"]):
            k2 = "C22 bw a running comm never goes faster than the bandwidth its link had when it started"
        else:
            out.append((k, w))
            continue
        out.append((k2, m["label"] + ": " + w))
    return out


def judge(sc, r, case=None):
    m = sc.meta
    if r["status"] != "exit=0":
        if m.get("ti_avail"):
            return [("C22 cpu/optim:TI Host::get_available_speed crashes on a host whose speed is constant",
                     "%s: harness ended with %s: %s" % (m["label"], r["status"], r["raw"][-200:]))], True, "crash"
        return [("C22 %s harness-status" % m["label"], "harness ended with %s: %s" % (r["status"], r["raw"][-300:]))], None, "crash"
    fails = []
    if m["kind"] == "two":
        ch = []
        for p in m["parts"]:
            fp_ = []
            ch.append(judge_part(sc, p, r, fp_))
            fails += group(p, fp_)
        changed = all(ch)
    else:
        changed = judge_part(sc, m, r, fails)
        fails = group(m, fails)
    seen = set()
    fails = [f for f in fails if not (f[0] in seen or seen.add(f[0]))]
    return fails, changed, m["kind"] + ("/changes" if changed else "/constant") + ("!" if fails else "")


RULE = ("every profile with n points (n = 1..3 quick, 1..4 thorough) with strictly increasing dates in {0,1,2,3}, values in {0.5,1,2} "
        "(x nominal) or {on,off}, period in {none,4,5}, for host speed, host state, link bandwidth, link latency and link state; "
        "sampled at every time advance and by probes every 0.5 s until t=13 (3 periods). Non-trivial = the sampled value really "
        "differs from the initial one at some sampled date.")
ASSUME = ["profile semantics as documented (XML_reference / Modeling_howtos): absolute dates in the first iteration, the last event "
          "with date <= t gives the value at t (a sample taken at an event date sees the new value), `periodicity` P repeats the "
          "pattern at d_i + k*P, speed profiles are ratios of the peak speed, bandwidth/latency profiles absolute values",
          "the spanning exec/comm integrates rate(t) = nominal x ratio(t); CM02, TCP-gamma 0, no cross-traffic, latency 0 for the "
          "bandwidth/state scenarios so that the comm rate is the link bandwidth",
          "a state 'off' kills the running activity at that date and an activity started while off fails at once; an 'off' falling "
          "exactly on the natural completion date is a tie (both outcomes accepted)",
          "latency profiles: only the resource value and comms started after the change are judged",
          "tolerance 1e-9 relative + 1e-9 s on dates, 1e-12 relative on resource values"]


def run(ctx):
    reslib.harness()
    reslib.drive(ctx, bounds_for(ctx), judge, rule=RULE, assumptions=ASSUME)


def replay(ctx, case):
    reslib.harness()
    return reslib.replay_case(ctx, case, judge)
