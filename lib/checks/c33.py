"""C33 — Cartesian topologies follow MPI rules (engine E7 mpix, harness/mpix/c33/cart.c).

Enumerates, level by level (nnodes <= 8, 16 | 32, 64), every dims vector with <= 4 dimensions x every periodicity pattern;
inside one simulation per shard every rank checks Cart_get / Cart_coords / Cart_rank on itself, Cart_shift for every
direction and every displacement in [-2d, 2d], Cart_sub for every remain_dims mask (size, own rank, members through
Group_translate_ranks, kept dims/periods, own coordinates, shifts inside the sub-grid); rank 0 checks the whole
rank<->coords bijection and wrap-around of every out-of-range periodic coordinate in [-2d, 3d). Dims_create: nnodes
1..16|64 x ndims 1..4 x every entry in {0, each divisor, the smallest non-divisor, -1}.
Oracle = the row-major model of MPI-3.1 section 7.5 written in the harness (m_coords/m_rank/m_neighbour), independent of
smpi_topo.cpp."""
import os, sys, json, time, concurrent.futures as cf
import common, mpix

LEVELS = {"quick": [(0, 8), (8, 16)], "thorough": [(0, 8), (8, 16), (16, 32), (32, 64)]}
DESCR = {
    "create-extra-not-null": "Cart_create: a rank outside the grid did not get MPI_COMM_NULL",
    "create-null": "Cart_create: a rank of the grid got MPI_COMM_NULL / an error",
    "create-size-rank": "Cart_create (reorder=0): size or own rank of the new communicator is wrong",
    "get": "Cart_get/Cartdim_get do not return the dims/periods given to Cart_create",
    "get-coords": "Cart_get returns wrong own coordinates",
    "coords-range": "Cart_coords returns a coordinate outside [0,dims[i])",
    "coords-rowmajor": "Cart_coords is not the row-major decoding MPI mandates",
    "rank-roundtrip": "Cart_rank(Cart_coords(r)) != r",
    "rank-not-injective": "two ranks map to the same coordinates",
    "rank-wrap": "Cart_rank does not wrap an out-of-range coordinate of a periodic dimension",
    "shift-dest": "Cart_shift rank_dest differs from the MPI neighbour",
    "shift-src": "Cart_shift rank_source differs from the MPI neighbour",
    "sub-null": "Cart_sub returned MPI_COMM_NULL / an error to a process of the grid",
    "sub-size": "Cart_sub: size of the sub-grid communicator is not the product of the kept dims",
    "sub-rank": "Cart_sub: own rank in the sub-grid is not the row-major rank of the kept coordinates",
    "sub-members": "Cart_sub: wrong processes / order in the sub-grid",
    "sub-ndims": "Cart_sub: Cartdim_get of the sub-grid is not the number of kept dims",
    "sub-get": "Cart_sub: the sub-grid does not keep the selected dims/periods (Cart_get on it)",
    "sub-get-coords": "Cart_sub: Cart_get on the sub-grid returns wrong own coordinates",
    "sub-coords": "Cart_sub: Cart_coords of own rank in the sub-grid is wrong",
    "sub-shift-dest": "Cart_shift inside a sub-grid: wrong rank_dest",
    "sub-shift-src": "Cart_shift inside a sub-grid: wrong rank_source",
    "sub0-null": "Cart_sub with no kept dimension: a process of the grid got MPI_COMM_NULL instead of a zero-dimensional grid",
    "sub0-size": "Cart_sub with no kept dimension: communicator size is not 1",
    "sub0-rank": "Cart_sub with no kept dimension: own rank is not 0",
    "sub0-members": "Cart_sub with no kept dimension: wrong member",
    "sub0-ndims": "Cart_sub with no kept dimension: Cartdim_get is not 0",
    "dims-error-on-valid": "Dims_create fails although the given entries divide nnodes",
    "dims-given-changed": "Dims_create modified a non-zero entry",
    "dims-product": "Dims_create succeeded with product(dims) != nnodes",
    "dims-success-on-impossible": "Dims_create returns MPI_SUCCESS with product(dims) != nnodes when the given entries do not divide nnodes",
    "crash": "the simulation died (signal / abort) while checking this topology",
}
COUNTERS = ["topos", "shifts", "shift_edge", "ranks", "wraps", "subs", "subshifts", "dims", "dims_err", "dims_ok",
            "dims_unbalanced", "dims_unsorted", "extra_null"]


def _ints(s, sep):
    return [int(x) for x in s.split(sep)] if s not in ("", "-") else []


def _bits(s):
    return int(s[::-1], 2) if s not in ("", "-") else 0


def _sortkey(d):
    """Canonical order of cases = enumeration order of the harness."""
    if "nnodes" in d:
        return (0, int(d["nnodes"]), len(_ints(d["in"], ",")), _ints(d["in"], ","))
    dims = _ints(d["dims"], "x")
    return (1, int(d["nn"]), len(dims), dims, _bits(d["per"]), _bits(d["mask"]) if "mask" in d else -1,
            int(d["rank"]), int(d.get("dir", -1)), int(d.get("disp", -99)), int(d.get("r", -1)))


def _case_of(d):
    if "nnodes" in d:
        dims = _ints(d["in"], ",")
        return {"mode": "dims1", "nnodes": int(d["nnodes"]), "ndims": len(dims), "in": dims, "kind": d["kind"]}
    dims = _ints(d["dims"], "x")
    return {"mode": "one", "ndims": len(dims), "dims": dims, "per": _bits(d["per"]),
            "mask": _bits(d["mask"]) if "mask" in d else 0, "np": max(int(d["nn"]), int(d["rank"]) + 1),
            "kind": d["kind"], "rank": int(d["rank"]), "record": d}


def _key_of(d):
    if "nnodes" in d:
        return "C33 %s nnodes=%s in=%s" % (d["kind"], d["nnodes"], d["in"])
    k = "C33 %s dims=%s per=%s" % (d["kind"], d["dims"], d["per"])
    for f in ("mask", "rank", "dir", "disp", "r", "dim", "coord", "subrank"):
        if f in d:
            k += " %s=%s" % (f, d[f])
    return k


def _args_of(case):
    if case["mode"] == "dims1":
        return ["dims1", case["nnodes"], case["ndims"]] + (case["in"] + [0, 0, 0, 0])[:4]
    return ["one", case["ndims"]] + (case["dims"] + [1, 1, 1, 1])[:4] + [case["per"], case["mask"]]


def _run_case(tmp, binary, case):
    np_ = 1 if case["mode"] == "dims1" else case["np"]
    rc, out, err = mpix.smpirun(tmp, binary, np_, _args_of(case), timeout=120)
    vs = [d for t, d in mpix.records(out) if t == "V"]
    return rc, vs, err


def _same(a, b):
    return all(a.get(k) == b.get(k) for k in set(a) | set(b))


def _shard(job):
    tmp, binary, lo, hi, shard, nshards, timeout = job
    start, outs, crashes = 0, [], []
    while True:
        rc, out, err = mpix.smpirun(tmp, binary, hi, ["enum", lo, hi, shard, nshards, start], timeout=timeout)
        outs.append(out)
        if rc == 0:
            return {"out": "\n".join(outs), "crashes": crashes, "complete": True}
        if rc == 124:
            return {"out": "\n".join(outs), "crashes": crashes, "complete": False}
        ps = [d for t, d in mpix.records(out) if t == "P"]
        if not ps or len(crashes) >= 8:
            return {"out": "\n".join(outs), "crashes": crashes + [{"idx": -1, "rc": rc, "err": err[-600:]}], "complete": False}
        last = ps[-1]
        crashes.append({"idx": int(last["idx"]), "dims": last["dims"], "per": int(last["per"]), "rc": rc, "err": err[-600:]})
        start = int(last["idx"]) + 1


def run(ctx):
    binary = mpix.build_smpi("c33_cart", ["c33/cart.c"])
    tmp = common.tmpdir("c33")
    mpix.platform(tmp)
    levels = LEVELS[ctx.tier]
    nsh = common.NCPU
    tot = dict.fromkeys(COUNTERS, 0)
    kinds = {}          # kind -> {"count": n, "first": record}
    done, samples, exhaustive, crashes = [], [], True, []

    def absorb(out):
        for t, d in mpix.records(out):
            if t == "N":
                for c in COUNTERS:
                    tot[c] += int(d[c])
            elif t == "S":
                kinds.setdefault(d["kind"], {"count": 0, "first": None})["count"] += int(d["count"])
            elif t == "V":
                k = kinds.setdefault(d["kind"], {"count": 0, "first": None})
                if k["first"] is None or _sortkey(d) < _sortkey(k["first"]):
                    k["first"] = d

    for lo, hi in levels:
        if ctx.deadline.over():
            exhaustive = False
            break
        # Dims_create for this band of nnodes (one rank, pure function), then the grids of this band
        rc, out, err = mpix.smpirun(tmp, binary, 1, ["dims", lo, hi], timeout=600)
        if rc != 0:
            for n in range(lo + 1, hi + 1):
                rc1, out1, err1 = mpix.smpirun(tmp, binary, 1, ["dims", n - 1, n], timeout=600)
                if rc1 != 0:
                    crashes.append({"mode": "dims", "lo": n - 1, "hi": n, "np": 1, "rc": rc1, "err": err1[-600:]})
                else:
                    absorb(out1)
        else:
            absorb(out)
        order = list(range(nsh))
        if ctx.seed:
            import random
            random.Random(ctx.seed).shuffle(order)
        jobs = [(tmp, binary, lo, hi, s, nsh, max(120, ctx.deadline.left() + 300)) for s in order]
        with cf.ThreadPoolExecutor(max_workers=nsh) as ex:
            res = list(ex.map(_shard, jobs))
        complete = all(r["complete"] for r in res)
        for r in res:
            absorb(r["out"])
            for c in r["crashes"]:
                if c["idx"] >= 0:
                    crashes.append({"mode": "one", "dims": c["dims"], "per": c["per"], "np": hi, "rc": c["rc"], "err": c["err"]})
                else:
                    common.log("C33: shard died without progress record: rc=%s %s" % (c["rc"], c["err"]))
                    complete = False
        if not samples:
            samples = [d for t, d in mpix.records(res[0]["out"]) if t == "P"][:3]
        samples += [d for t, d in mpix.records(res[-1]["out"]) if t == "P"][-1:]
        if not complete:
            exhaustive = False
            common.log("C33: level nnodes in (%d,%d] not completed" % (lo, hi))
            break
        done.append(hi)
        common.log("C33: level nnodes<=%d done at %.1fs" % (hi, time.time() - ctx.t0))

    # ---- violations: one per kind, keyed by its first case in canonical order, confirmed twice alone
    violations = []
    for kind, k in sorted(kinds.items()):
        d = k["first"]
        if d is None:
            common.log("C33: kind %s counted but no record kept" % kind)
            sys.exit(2)
        case = _case_of(d)
        for attempt in (1, 2):
            rc, vs, err = _run_case(tmp, binary, case)
            if not any(_same(v, d) for v in vs):
                common.log("C33: violation %s did not reproduce alone (attempt %d, rc=%s): harness bug" % (_key_of(d), attempt, rc))
                common.log(err[-1500:])
                sys.exit(2)
        det = " ".join("%s=%s" % (a, d[a]) for a in ("got", "exp", "out", "rc", "comm", "gotdims", "expdims", "gotper", "back") if a in d)
        violations.append(common.Violation(_key_of(d), "%s; first of %d failing evaluations in this run (%s)" % (
            DESCR.get(kind, kind), k["count"], det), case))
    for c in crashes:
        if c["mode"] == "one":
            dims = _ints(c["dims"], "x")
            case = {"mode": "one", "ndims": len(dims), "dims": dims, "per": c["per"], "mask": -1, "np": c["np"], "kind": "crash"}
            key = "C33 crash dims=%s per=%d" % (c["dims"], c["per"])
        else:
            case = dict(c, kind="crash")
            key = "C33 crash Dims_create nnodes=%d" % c["hi"]
        for attempt in (1, 2):
            rc, out, err = mpix.smpirun(tmp, binary, case["np"], _args_of(case) if case["mode"] == "one" else ["dims", c["lo"], c["hi"]], timeout=300)
            if rc == 0:
                common.log("C33: crash %s did not reproduce alone: harness bug" % key)
                sys.exit(2)
        violations.append(common.Violation(key, "%s (exit %s): %s" % (DESCR["crash"], c["rc"], c["err"].strip().splitlines()[-1:] or ""), case))

    evaluations = tot["shifts"] + tot["ranks"] + tot["wraps"] + tot["subs"] + tot["subshifts"] + tot["dims"] + tot["topos"]
    cov = {
        "evaluations": evaluations,
        "distinct_nontrivial": tot["shift_edge"],
        "rule": "every dims vector (<=4 dims) with nnodes in the completed levels x every periodicity pattern x every rank x "
                "every direction x disp in [-2d,2d] (+ every Cart_sub mask, + Dims_create over {0, divisors, one non-divisor, -1}^ndims); "
                "non-trivial = a distinct (dims, periods, rank, direction, disp) Cart_shift case whose displaced coordinate "
                "leaves [0,dims[dir]) so that wrap-around or MPI_PROC_NULL is actually exercised",
        "samples": samples,
        "exhaustive": exhaustive and done == [hi for _, hi in levels],
        "levels_completed_nnodes": done,
        "grids_created_per_rank_sum": tot["topos"], "cart_shift_evaluations": tot["shifts"],
        "cart_coords_rank_roundtrips": tot["ranks"], "cart_rank_wrap_evaluations": tot["wraps"],
        "cart_sub_evaluations": tot["subs"], "cart_shift_in_subgrid_evaluations": tot["subshifts"],
        "ranks_outside_grid_got_null": tot["extra_null"],
        "dims_create_evaluations": tot["dims"], "dims_create_success": tot["dims_ok"], "dims_create_error": tot["dims_err"],
        "info_dims_create_not_as_close_as_possible": tot["dims_unbalanced"],
        "info_dims_create_free_entries_not_non_increasing": tot["dims_unsorted"],
        "violation_kinds": {k: v["count"] for k, v in kinds.items()},
    }
    mpix.cleanup(tmp)
    if tot["shift_edge"] < 2:
        common.log("C33: vacuous run")
        sys.exit(2)
    common.finish(ctx, "exploration", cov, [
        "oracle = row-major Cartesian model of MPI-3.1 s7.5 written in harness/mpix/c33/cart.c; reorder=0 only (SMPI ignores reorder)",
        "balancedness / ordering of Dims_create output is counted (info_*) but not required: the property statement only asks for the product and the given entries",
        "erroneous calls (coordinates outside a non-periodic dimension, direction >= ndims, dims with 0 entries in Cart_create) are not exercised",
    ], violations, engine="mpix")


def replay(ctx, case):
    binary = mpix.build_smpi("c33_cart", ["c33/cart.c"])
    tmp = common.tmpdir("c33r")
    mpix.platform(tmp)
    c = case["case"]
    if c.get("kind") == "crash":
        args = _args_of(c) if c["mode"] == "one" else ["dims", c["lo"], c["hi"]]
        rc, out, err = mpix.smpirun(tmp, binary, c["np"], args, timeout=300)
        print("exit code", rc)
        print(err[-1500:])
        mpix.cleanup(tmp)
        return 1 if rc != 0 else 0
    rc, vs, err = _run_case(tmp, binary, c)
    mpix.cleanup(tmp)
    hit = [v for v in vs if v["kind"] == c["kind"]]
    for v in vs:
        print("V " + " ".join("%s=%s" % kv for kv in v.items()))
    print("replay of %s: exit %d, %d violation record(s), %d of kind %s" % (case.get("key"), rc, len(vs), len(hit), c["kind"]))
    return 1 if hit or rc != 0 else 0
